#!/bin/bash
# Confirm an independently seeded change by hand-equivalent steps (not a check; used once per seeded change):
#   1. the patch applies to /repo HEAD, compiles, and the existing suite passes   2. the demonstration fails with the change
#   3. the demonstration passes without it.   usage: confirm_seed.sh <dir with patch.diff + seeded_demo.rs> [name]
set -u
SRC=$1; NAME=${2:-$(basename $(dirname $SRC))}
W=/tmp/confirm/$NAME
export CARGO_NET_OFFLINE=true CARGO_TARGET_DIR=/tmp/confirm/target
mkdir -p /tmp/confirm
git -C /repo worktree remove --force $W >/dev/null 2>&1
git -C /repo worktree add -q --detach $W HEAD || exit 2
cd $W
if ! git apply $SRC/patch.diff; then echo "RESULT $NAME patch-does-not-apply"; git -C /repo worktree remove --force $W; exit 1; fi
SUITE=$(cargo test --offline --workspace --no-fail-fast 2>&1 | grep -E "^test result|could not compile|error\[" | tr '\n' ' ')
cp $SRC/seeded_demo.rs tests/seeded_demo.rs
WITH=$(timeout 600 cargo test --offline --test seeded_demo 2>&1 | grep -E "^test result|could not compile|error(\[|:)" | head -3 | tr '\n' ' ')
git checkout -q -- src
WITHOUT=$(timeout 600 cargo test --offline --test seeded_demo 2>&1 | grep -E "^test result|could not compile|error(\[|:)" | head -3 | tr '\n' ' ')
cd /; git -C /repo worktree remove --force $W
echo "RESULT $NAME"
echo "  suite-with-change: $SUITE"
echo "  demo-with-change:  $WITH"
echo "  demo-without:      $WITHOUT"
