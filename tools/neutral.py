#!/usr/bin/env python3
"""Run the rules against the behaviour-preserving refactors kept under /verif/neutral/<id>/ (patch.diff, notes.md, meta.json), written by
fresh sub-agents that saw only the repository.  Every rule of every property must stay silent.   usage: tools/neutral.py [--dir <dir>]"""
import json, os, sys
V = os.path.dirname(os.path.dirname(os.path.abspath(__file__)))
sys.path.insert(0, os.path.join(V, "tools"))
import seeded as SD


def show(res):
    if "error" in res:
        print("   ERROR", res["error"][:400])
        return 1
    n = 0
    for p, vs in sorted(res["fired"].items()):
        for v in vs:
            n += 1
            print("   %s %s %s :: %s" % (p, v["rule"], v["site"], v["message"][:220]))
    return n


def main():
    args = sys.argv[1:]
    if "--dir" in args:
        d = args[args.index("--dir") + 1]
        n = show(SD.run_patch(os.path.join(d, "patch.diff")))
        print("FALSE ALARMS: %d" % n if n else "silent")
        return 1 if n else 0
    root = os.path.join(V, "neutral")
    bad = 0
    for nid in sorted(os.listdir(root)):
        res = SD.run_patch(os.path.join(root, nid, "patch.diff"))
        n = len([1 for vs in res.get("fired", {}).values() for v in vs]) + (1 if "error" in res else 0)
        print("%-30s %s" % (nid, "silent" if not n else "FALSE-ALARM x%d" % n))
        if n:
            show(res)
        bad += bool(n)
    return 1 if bad else 0


if __name__ == "__main__":
    sys.exit(main())
