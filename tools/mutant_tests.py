#!/usr/bin/env python3
"""One-off validation (not a check): does each seeded mutant still compile and pass the repository's test suite?
Runs `cargo test --offline` on a scratch copy per mutant (4 workers, each with its own warmed target dir under
mktemp, removed afterwards).  Result: tools/mutant_tests.json  {id: "pass" | "fail" | "no-compile"}."""
import json, os, shutil, subprocess, sys, tempfile
from multiprocessing import Pool
V = os.path.dirname(os.path.dirname(os.path.abspath(__file__)))
sys.path.insert(0, os.path.join(V, "tools"))
import mutants as MU
from mutant_defs import MUTANTS

WORK = tempfile.mkdtemp(prefix="txtpp-mutant-tests-")


def init(n):
    pass


def run(args):
    m, slot = args
    d = os.path.join(WORK, "w%d" % slot)
    src = os.path.join(d, "src")
    # fresh sources, shared target dir per slot
    for name in ("src", "tests"):
        shutil.rmtree(os.path.join(d, name), ignore_errors=True)
        shutil.copytree(os.path.join(MU.REPO, name), os.path.join(d, name))
    err = MU.apply_edits(d, m["edits"])
    if err:
        return m["id"], "does-not-apply"
    env = dict(os.environ, CARGO_NET_OFFLINE="true", CARGO_TARGET_DIR=os.path.join(d, "target"))
    try:
        r = subprocess.run(["timeout", "-k", "5", "240", "cargo", "test", "--offline", "--workspace", "--no-fail-fast", "-q"], cwd=d, env=env,
                           stdout=subprocess.PIPE, stderr=subprocess.STDOUT, text=True)
    except Exception as e:
        return m["id"], "error: %r" % e
    out = r.stdout
    if r.returncode in (124, 137):
        return m["id"], "timeout (suite hangs: noticed)"
    if "could not compile" in out or "error[" in out:
        return m["id"], "no-compile"
    return m["id"], "pass" if r.returncode == 0 else "fail"


def main():
    only = set(sys.argv[1].split(",")) if len(sys.argv) > 1 else None
    todo = [m for m in MUTANTS if (not only or m["id"] in only)]
    slots = 6
    for s in range(slots):
        d = os.path.join(WORK, "w%d" % s)
        os.makedirs(d)
        for name in ("Cargo.toml", "Cargo.lock", "README.md"):
            shutil.copy(os.path.join(MU.REPO, name), d)
    res = {}
    try:
        # slot-wise sequential batches so that a slot's target dir is never shared by two cargo runs
        batches = [[(m, i % slots) for i, m in enumerate(todo) if i % slots == s] for s in range(slots)]
        with Pool(slots) as pool:
            for part in pool.map(run_batch, batches):
                res.update(part)
    finally:
        shutil.rmtree(WORK, ignore_errors=True)
    path = os.path.join(V, "tools", "mutant_tests.json")
    old = {}
    if os.path.exists(path):
        old = json.load(open(path))
    old.update(res)
    json.dump(old, open(path, "w"), indent=1, sort_keys=True)
    for k in sorted(res):
        print(k, res[k])


def run_batch(batch):
    out = {}
    for a in batch:
        k, v = run(a)
        out[k] = v
    return out


if __name__ == "__main__":
    main()
