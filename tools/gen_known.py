#!/usr/bin/env python3
"""Freeze the reference tables the rules were written against, from the CURRENT /repo tree (run only on the reviewed baseline):
rules/known_functions.json  names of all non-closure bodies (helper inlining treats any other crate-local fn as an extracted helper)
rules/known_params.json     parameter names and types of those functions (a renamed parameter is re-found by position + type)"""
import json, os, sys
V = os.path.dirname(os.path.dirname(os.path.abspath(__file__)))
sys.path.insert(0, os.path.join(V, "rules"))
import facts as F, core as C

NOT_ANCHORS = {"txtpp::fs::path::abs_path::create_file",
               # a one-line adaptor around iterate_directive's result: R07.4 / R04.1 are stated on its caller
               "<std::result::Result<T, error_stack::Report<txtpp::error::PpError>> as txtpp::core::execute::pp::IgnoreIfCleaning>::ignore_err_if_cleaning",
               # the two mode gates of execute_directive (clean / collect-deps): what a directive does in which mode and pass is read off
               # execute_directive's normal form, wherever the decision is written
               "txtpp::core::execute::pp::Pp::<'a>::execute_in_collect_deps_mode",
               "txtpp::core::execute::pp::Pp::<'a>::execute_in_clean_mode"}
fx = F.extract("/repo", "default")
names, params = set(), {}
for k in ("lib", "bin"):
    p = C.Program(fx[k], k)
    for b in p.bodies.values():
        if b.kind == "Closure":
            continue
        if b.name in NOT_ANCHORS:
            continue      # always spliced into its caller: the rules are written against the caller
        names.add(b.name)
        params[b.name] = [[b.locals[l].get("name"), b.locals[l]["ty"]] for l in range(1, b.arg_count + 1)]
if "--functions" in sys.argv:
    json.dump(sorted(names), open(os.path.join(V, "rules", "known_functions.json"), "w"), indent=0)
json.dump(params, open(os.path.join(V, "rules", "known_params.json"), "w"), indent=0, sort_keys=True)
# signatures (for rename detection, rules/rename.py): functions with return type; crate ADTs with variants and field (name, type) lists
sigs = {"fns": {}, "adts": {}}
for k in ("lib", "bin"):
    p = C.Program(fx[k], k)
    for b in p.bodies.values():
        if b.kind == "Closure":
            continue
        sigs["fns"].setdefault(k, {})[b.name] = {"params": [b.locals[l]["ty"] for l in range(1, b.arg_count + 1)], "ret": b.locals[0]["ty"], "kind": b.kind,
                                                 # what the function calls (tie-break between same-signature candidates of a rename)
                                                 "calls": sorted({C.callee_name(t) for bb, t in b.calls(live_only=False) if C.callee_name(t)})}
    for a in fx[k]["adts"]:
        if a["path"].startswith(fx[k]["crate"] + "::") or a["path"].startswith("txtpp::"):
            sigs["adts"].setdefault(k, {})[a["path"]] = {"kind": a["kind"], "variants": [
                {"name": v["name"], "fields": [[f["name"], f["ty"]] for f in v["fields"]]} for v in a["variants"]]}
json.dump(sigs, open(os.path.join(V, "rules", "known_sigs.json"), "w"), indent=0, sort_keys=True)
print(len(names), "functions,", sum(len(v) for v in params.values()), "parameters")
