#!/usr/bin/env python3
"""Regenerate /verif/MANIFEST.json from the registered properties (rules/engine.py PROPERTIES)."""
import json, os, sys
V = os.path.dirname(os.path.dirname(os.path.abspath(__file__)))
sys.path.insert(0, os.path.join(V, "rules"))
import engine as E
import rules_all  # noqa

ALL = ["C%02d" % i for i in range(1, 19)]
NA_REASON = {}   # filled for properties that are not claimed
try:
    NA_REASON = json.load(open(os.path.join(V, "tools", "not_applicable.json")))
except FileNotFoundError:
    pass

BASELINE = ("cd /repo && (cargo nextest run --workspace --no-fail-fast --offline --test-threads 8 "
            "|| cargo test --workspace --no-fail-fast --offline)")

checks = []
for pid in ALL:
    if pid not in E.PROPERTIES:
        continue
    P = E.PROPERTIES[pid]
    rules = ", ".join(r.rid for r in P["rules"])
    checks.append({
        "property_id": pid,
        "quick_cmd": "./check %s quick" % pid,
        "thorough_cmd": "./check %s thorough" % pid,
        "evidence_file": "/verif/evidence/%s.json" % pid,
        "replay_cmd_template": "./check explain {path}",
        "engine": "mir-rules",
        "level_claimed": {
            "category": "other",
            "text": ("Static analysis (no execution): decides structural necessary conditions of the property on every path of the "
                     "compiled program, for all inputs/schedules/histories — NOT the behaviour itself. Decided: " + " | ".join(E.decided_clauses(pid)) +
                     " || Not decided (runtime-valued): " + " | ".join(P["not_decided"])),
            "design_ref": "DESIGN.md §5 " + pid,
        },
        "level_note": ("Trusted: rustc nightly MIR (mir-opt-level 0) and callee resolution; reviewed external-API tables (rules/tables.py); "
                       "crate-private role names (rules/common.py): pure renames are re-anchored by signature (rules/rename.py), anything else fails closed; "
                       "unix build only. The rules run on a normal form of the MIR (extracted helpers inlined, Option/Result/iterator combinators "
                       "desugared: DESIGN.md §3.9). Rules: " + rules),
        "technique": "static analysis: custom MIR rules (rustc_private driver + " + P.get("technique", "guard-cut / call-graph / value-flow rules") + ")",
    })
na = [{"property_id": p, "reason": NA_REASON.get(p, "no structural clause implemented yet; see DESIGN.md §5")} for p in ALL if p not in E.PROPERTIES]
man = {
    "version": 1,
    "setup_cmd": "cd /verif/engine && CARGO_NET_OFFLINE=true cargo build --release --offline",
    "hooks": {
        "guard": "pistonite_txtpp_verif",
        "enable": "unused: static analysis reads the unmodified source; no hook or instrumentation exists in /repo",
        "baseline_off_cmd": BASELINE,
        "source_commits": [],
        "add_only": True,
    },
    "engines": [{
        "name": "mir-rules",
        "path": "/verif/engine (fact driver, Rust, rustc_private) + /verif/rules (rules, Python 3 stdlib)",
        "serves_properties": [c["property_id"] for c in checks],
        "kind_free_text": "static analysis over type-checked MIR brought into a normal form (helper inlining, combinator desugaring, rename "
                          "re-anchoring): surface (who-may-call), guard-cut (P-cut over the product of the CFG with constant flags, enum "
                          "variants and their payloads), mode-context analysis, leaf provenance, taint, error discipline, table extraction, "
                          "panic inventory",
    }],
    "checks": checks,
    "not_applicable": na,
    "notes": ("Technique family: static analysis only. Every claimed check decides named structural clauses (necessary conditions) "
              "and says so in level_claimed.text and in the evidence ('decided' / 'not_decided'); behavioural clauses that quantify over "
              "runtime values are not decided. /repo carries four unguarded `fix:` commits for genuine defects found by the rules "
              "(see known_findings.json, DESIGN.md §6). Exit codes: 0 held, 1 violation (VIOLATION line), 2 checker broken."),
}
json.dump(man, open(os.path.join(V, "MANIFEST.json"), "w"), indent=1)
print("MANIFEST.json: %d checks, %d not_applicable" % (len(checks), len(na)))
