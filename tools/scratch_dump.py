#!/usr/bin/env python3
"""debug helper: apply a mutant/neutral patch to a scratch copy and dump the MIR of matching functions"""
import sys, os, shutil
V = os.path.dirname(os.path.dirname(os.path.abspath(__file__)))
sys.path.insert(0, os.path.join(V, "rules")); sys.path.insert(0, os.path.join(V, "tools"))
import mutants as MU, engine as E
from mutant_defs import MUTANTS
m = [x for x in MUTANTS if x["id"] == sys.argv[1]][0]
d = MU.make_scratch()
try:
    print(MU.apply_edits(d, m["edits"]))
    P = E.load_progs(root=d)
    for b in P[sys.argv[3] if len(sys.argv) > 3 else "lib"].bodies.values():
        if sys.argv[2] in b.name:
            print(b.dump(live_only=True))
finally:
    shutil.rmtree(d, ignore_errors=True)
