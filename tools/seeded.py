#!/usr/bin/env python3
"""Run the rules against the independently seeded breaking changes kept under /verif/seeded/<id>/ (patch.diff, demo, meta.json).
Each patch is applied to a scratch copy of /repo (mktemp, removed afterwards); facts are re-extracted statically.
usage: tools/seeded.py [--only id1,id2] [--dir /tmp/seed/C06/SEED --prop C06]"""
import json, os, shutil, subprocess, sys
V = os.path.dirname(os.path.dirname(os.path.abspath(__file__)))
sys.path.insert(0, os.path.join(V, "rules")); sys.path.insert(0, os.path.join(V, "tools"))
import mutants as MU


def run_patch(patch, props=None):
    import engine as E, facts as F
    import rules_all  # noqa
    d = MU.make_scratch()
    try:
        r = subprocess.run(["patch", "-p1", "-s", "-i", patch], cwd=d, stdout=subprocess.PIPE, stderr=subprocess.STDOUT, text=True)
        if r.returncode != 0:
            return {"error": "patch does not apply: " + r.stdout[-400:]}
        try:
            progs = E.load_progs(root=d)
        except F.CheckerBroken as e:
            return {"error": "does not compile: " + str(e)[-800:]}
        fired = {}
        for pid in (props or sorted(E.PROPERTIES)):
            ctx = E.run_rules(pid, "quick", progs)
            vs = [o for o in ctx.obligations if o["status"] == "violation"]
            if vs:
                fired[pid] = [{"rule": o["rule"], "key": o["key"], "message": o["message"][:200], "site": (o.get("site") or {}).get("loc")} for o in vs]
        return {"fired": fired}
    finally:
        shutil.rmtree(d, ignore_errors=True)


def main():
    args = sys.argv[1:]
    if "--dir" in args:
        d = args[args.index("--dir") + 1]
        res = run_patch(os.path.join(d, "patch.diff"))
        print(json.dumps(res, indent=1))
        return 0
    only = set(args[args.index("--only") + 1].split(",")) if "--only" in args else None
    root = os.path.join(V, "seeded")
    bad = 0
    for sid in sorted(os.listdir(root)):
        if only and sid not in only:
            continue
        meta = json.load(open(os.path.join(root, sid, "meta.json")))
        res = run_patch(os.path.join(root, sid, "patch.diff"))
        if "error" in res:
            print("%-28s ERROR %s" % (sid, res["error"][:200]))
            bad += 1
            continue
        pid = meta["property"]
        mine = res["fired"].get(pid, [])
        others = {k: sorted({v["rule"] for v in vs}) for k, vs in res["fired"].items() if k != pid}
        status = "caught" if mine else ("caught-by-other" if others else "MISSED")
        print("%-28s %-16s %s rules=%s others=%s" % (sid, status, pid, sorted({v["rule"] for v in mine}), others))
        bad += status == "MISSED"
    return 1 if bad else 0


if __name__ == "__main__":
    sys.exit(main())
