#!/usr/bin/env python3
"""copy a confirmed seeded change into /verif/seeded/<id>/ and write meta.json
usage: register_seed.py <src dir> <id> <property> <change> <needs> <caught_by> <confirm-log-file>"""
import json, os, shutil, sys, re
src, sid, prop, change, needs, caught, log = sys.argv[1:8]
V = os.path.dirname(os.path.dirname(os.path.abspath(__file__)))
d = os.path.join(V, "seeded", sid)
if os.path.exists(os.path.join(d, 'meta.json')):
    sys.exit('refusing to overwrite an existing seeded change: %s' % d)
os.makedirs(d, exist_ok=True)
for f in ("patch.diff", "seeded_demo.rs", "notes.md"):
    if os.path.exists(os.path.join(src, f)):
        shutil.copy(os.path.join(src, f), os.path.join(d, f))
txt = open(log).read()
name = sys.argv[8] if len(sys.argv) > 8 else sid.split("-")[0]
m = re.search(r"RESULT %s\n((?:  .*\n)+)" % re.escape(name), txt)
ran = m.group(1) if m else ""
meta = {
    "id": sid, "property": prop, "change": change, "needs": needs,
    "ran": {
        "commands": ["git apply patch.diff (scratch worktree of /repo HEAD)", "cargo test --offline --workspace --no-fail-fast   (existing suite, with the change)",
                     "cargo test --offline --test seeded_demo   (with the change: must fail)", "git checkout -- src; cargo test --offline --test seeded_demo   (without: must pass)",
                     "tools/seeded.py (rules on the patched scratch copy)"],
        "results": ran.strip().split("\n"),
    },
    "caught_by": caught, "status": "caught" if caught else "missed",
    "origin": "fresh sub-agent given only the property text and a scratch worktree",
}
json.dump(meta, open(os.path.join(d, "meta.json"), "w"), indent=1)
print("registered", sid)
