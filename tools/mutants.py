#!/usr/bin/env python3
"""Checker self-validation (DESIGN §3.6): seeded mutants and neutral patches.

Each entry is a small source edit of /repo (relative to the tree with the three fix: commits) that
still compiles. `expect` names the rules that must fire; neutral patches must fire nothing.
The tool applies each edit to a scratch copy under mktemp (removed afterwards), re-extracts facts
(static, nothing is run) and evaluates the rules.  `--write-patches` regenerates mutants/*.patch.

usage: tools/mutants.py [--only M10,N03] [--props C04,C10] [--write-patches] [--jobs 8] [--json out]
"""
import json
import os
import shutil
import subprocess
import sys
import tempfile
import time
from multiprocessing import Pool

V = os.path.dirname(os.path.dirname(os.path.abspath(__file__)))
sys.path.insert(0, os.path.join(V, "rules"))
sys.path.insert(0, os.path.join(V, "tools"))
REPO = os.environ.get("TXTPP_REPO", "/repo")

from mutant_defs import MUTANTS  # noqa


def make_scratch():
    d = tempfile.mkdtemp(prefix="txtpp-mutant-")
    for name in ("src", "tests", "Cargo.toml", "Cargo.lock", "README.md"):
        s = os.path.join(REPO, name)
        if os.path.isdir(s):
            shutil.copytree(s, os.path.join(d, name))
        elif os.path.exists(s):
            shutil.copy(s, os.path.join(d, name))
    return d


def apply_edits(root, edits):
    for (f, old, new) in edits:
        p = os.path.join(root, f)
        s = open(p).read()
        if s.count(old) != 1:
            return "edit does not apply uniquely to %s (%d matches)" % (f, s.count(old))
        open(p, "w").write(s.replace(old, new))
    return None


def run_one(args):
    m, props = args
    import engine as E
    import facts as F
    import rules_all  # noqa
    d = make_scratch()
    try:
        err = apply_edits(d, m["edits"])
        if err:
            return m["id"], {"error": err}
        try:
            progs = E.load_progs(root=d)
        except F.CheckerBroken as e:
            return m["id"], {"error": "does not compile / extract: %s" % str(e)[-1500:]}
        fired = {}
        for pid in props:
            if pid not in E.PROPERTIES:
                continue
            ctx = E.run_rules(pid, "quick", progs)
            vs = [o for o in ctx.obligations if o["status"] == "violation"]
            if vs:
                fired[pid] = sorted({o["rule"] for o in vs})
                fired.setdefault("_keys", []).extend(o["key"] + " :: " + o["message"][:140] for o in vs)
        return m["id"], {"fired": fired}
    finally:
        shutil.rmtree(d, ignore_errors=True)


def write_patches():
    out = os.path.join(V, "mutants")
    os.makedirs(os.path.join(out, "neutral"), exist_ok=True)
    for m in MUTANTS:
        d = make_scratch()
        try:
            err = apply_edits(d, m["edits"])
            if err:
                print(m["id"], "SKIP", err)
                continue
            chunks = []
            for f in sorted({e[0] for e in m["edits"]}):
                r = subprocess.run(["diff", "-u", "--label", "a/" + f, "--label", "b/" + f, os.path.join(REPO, f), os.path.join(d, f)],
                                   stdout=subprocess.PIPE, text=True)
                chunks.append(r.stdout)
            sub = "neutral" if m["id"].startswith("N") else ""
            with open(os.path.join(out, sub, m["id"] + ".patch"), "w") as fh:
                fh.write("# %s: %s\n# breaks: %s  expected rules: %s\n" % (m["id"], m["what"], ",".join(sorted(m["expect"])) or "-",
                                                                          json.dumps(m["expect"])))
                fh.write("".join(chunks))
        finally:
            shutil.rmtree(d, ignore_errors=True)


def evaluate(results):
    """-> (rows, n_bad).  A mutant passes if every expected (pid, rule) fired; a neutral patch passes if nothing fired."""
    rows = []
    bad = 0
    for m in MUTANTS:
        r = results.get(m["id"])
        if r is None:
            continue
        if "error" in r:
            rows.append((m["id"], "ERROR", r["error"][:300]))
            bad += 1
            continue
        fired = {k: v for k, v in r["fired"].items() if k != "_keys"}
        if m["id"].startswith("N"):
            ok = not fired
            rows.append((m["id"], "silent" if ok else "FALSE-ALARM", json.dumps(fired) if fired else m["what"]))
            if not ok:
                rows.append(("", "", "\n      ".join(r["fired"].get("_keys", [])[:6])))
            bad += not ok
        else:
            missing = []
            for pid, rules in m["expect"].items():
                got = set(fired.get(pid, []))
                for ru in rules:
                    if ru not in got:
                        missing.append("%s/%s" % (pid, ru))
            ok = not missing
            rows.append((m["id"], "caught" if ok else "MISSED", "%s | fired=%s%s" % (m["what"][:70], json.dumps(fired),
                                                                                   " missing=%s" % missing if missing else "")))
            bad += not ok
    return rows, bad


def main():
    args = sys.argv[1:]
    if "--write-patches" in args:
        write_patches()
        return 0
    only = None
    props = None
    jobs = 8
    out = None
    i = 0
    while i < len(args):
        if args[i] == "--only":
            only = set(args[i + 1].split(","))
            i += 1
        elif args[i] == "--props":
            props = args[i + 1].split(",")
            i += 1
        elif args[i] == "--jobs":
            jobs = int(args[i + 1])
            i += 1
        elif args[i] == "--json":
            out = args[i + 1]
            i += 1
        i += 1
    import engine as E
    import rules_all  # noqa
    allp = sorted(E.PROPERTIES)
    todo = [m for m in MUTANTS if not only or m["id"] in only]
    t0 = time.time()
    with Pool(jobs) as pool:
        res = dict(pool.map(run_one, [(m, props or allp) for m in todo]))
    rows, bad = evaluate(res)
    for r in rows:
        print("%-5s %-12s %s" % r)
    print("%d patches, %d not as expected, %.1fs" % (len(todo), bad, time.time() - t0))
    if out:
        json.dump(res, open(out, "w"), indent=1)
    return 1 if bad else 0


if __name__ == "__main__":
    sys.exit(main())
