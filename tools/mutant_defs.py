"""Seeded mutants (M..) and neutral patches (N..) used to validate the rules (DESIGN §3.6 / Appendix B).
Edits are (file, old, new) replacements on the tree with the three fix: commits; `old` must be unique."""

IO = "src/fs/io_context.rs"
PP = "src/core/execute/pp/mod.rs"
EX = "src/core/execute/mod.rs"
SH = "src/fs/shell.rs"
AP = "src/fs/path/abs_path.rs"
PM = "src/fs/path/mod.rs"
MAIN = "src/main.rs"
TAG = "src/core/util/tag_state.rs"
STR = "src/core/util/string.rs"
DEP = "src/core/util/dependency.rs"
DIR = "src/core/execute/pp/directive/mod.rs"
DFROM = "src/core/execute/pp/directive/directive_from.rs"
DADD = "src/core/execute/pp/directive/directive_add_line.rs"
SCAN = "src/core/execute/scan_dir.rs"
RES = "src/core/execute/resolve_inputs.rs"

MUTANTS = []


def M(id, what, edits, expect):
    MUTANTS.append({"id": id, "what": what, "edits": edits, "expect": expect})


# ------------------------------------------------------------------ C06
M("M17", "done/Verify: drop the rem != 0 end check (extended output passes verify)",
  [(IO, """                if *rem != 0 {
                    return Err(make_verify_report!(self, path));
                }
                Ok(())""", """                let _ = (path, rem);
                Ok(())""")],
  {"C06": ["R06.2"]})
M("M18", "CtxOut::new/Verify: create an empty file when the output is missing",
  [(IO, """                if !p.exists() {
                    return Err(Report::new(IOCtx::make_error_with_kind(""", """                if !p.exists() {
                    let _ = File::create(p);
                    return Err(Report::new(IOCtx::make_error_with_kind(""")],
  {"C06": ["R06.1"], "C10": ["R10.4"]})
M("M19", "write_output/Verify: compare lengths only (content differences pass)",
  [(IO, "                if buf != output.as_bytes() {", "                if buf.len() != output.as_bytes().len() {")],
  {"C06": ["R06.2"]})
M("M19b", "CtxOut::new/Verify: missing output is treated as empty instead of an error",
  [(IO, """                if !p.exists() {
                    return Err(Report::new(IOCtx::make_error_with_kind(
                        input_path.to_string(),
                        PpErrorKind::VerifyOutput,
                    ))
                    .attach_printable(format!(
                        "file `{}` does not exist.",
                        normalize_path(&p.display().to_string())
                    )));
                }""", """                if !p.exists() {
                    log::debug!("file `{}` does not exist.", normalize_path(&p.display().to_string()));
                    return Ok(Self::Clean);
                }""")],
  {})  # the Verify context itself stays guarded; this is a behaviour change only visible as Mode->CtxOut table
M("M19c", "write_output/Verify: forget to decrease rem",
  [(IO, "                *rem -= len;\n", "                let _ = len;\n")],
  {"C06": ["R06.2"]})
M("M19d", "CtxOut::new/Verify: rem initialised to 0 instead of the file length",
  [(IO, "                    rem: len,", "                    rem: { let _ = len; 0 },")],
  {"C06": ["R06.3"]})

# ------------------------------------------------------------------ C07
M("M20", "Clean edge of execute_directive also executes Run directives",
  [(PP, """        if let Mode::Clean = self.mode {
            // Ignore error if in clean mode
            let _ = self.execute_in_clean_mode(d);
            return Ok(None);
        }""", """        if let Mode::Clean = self.mode {
            if let DirectiveType::Run = d.directive_type {
                let command = d.args.join(" ");
                let _ = self.shell.run(&command, &self.context.work_dir, &self.context.input_path);
                return Ok(None);
            }
            // Ignore error if in clean mode
            let _ = self.execute_in_clean_mode(d);
            return Ok(None);
        }""")],
  {"C07": ["R07.1"]})
M("M21", "skip the .txtpp temp refusal when cleaning",
  [(PP, "        if PathBuf::from(export_file).is_txtpp_file() {", "        if !is_clean && PathBuf::from(export_file).is_txtpp_file() {")],
  {"C07": ["R07.3"]})
M("M22", "ignore_err_if_cleaning ignores errors in every mode",
  [(PP, "        if self.is_err() && matches!(mode, Mode::Clean) {", "        if self.is_err() && matches!(mode, Mode::Clean | Mode::Build) {")],
  {"C07": ["R07.4"]})
M("M23", "clean branch of write_temp_file resolves with create = true",
  [(IO, "            if let Ok(export_file) = self.work_dir.try_resolve(&p, false) {", "            if let Ok(export_file) = self.work_dir.try_resolve(&p, true) {")],
  {"C07": ["R07.2"], "C10": ["R10.2"]})
M("M23b", "clean removes the output without the exists guard",
  [(IO, """                if p.exists() {
                    fs::remove_file(p)""", """                if true {
                    fs::remove_file(p)""")],
  {"C07": ["R07.2"]})

# ------------------------------------------------------------------ C08 / C09
M("M24", "Build opens the output without truncation",
  [(IO, "                let out = File::create(output_path)", "                let out = fs::OpenOptions::new().write(true).create(true).open(output_path)")],
  {"C08": ["R08.1"]})
M("M25", "reintroduce read_to_string on the existing temp file",
  [(IO, """            let current_content = fs::read(&export_file)""", """            let current_content = fs::read_to_string(&export_file)"""),
   (IO, "            if current_content == contents.as_bytes() {", "            if current_content == contents {")],
  {"C08": ["R08.2"]})
M("M25b", "existing temp content is appended to instead of compared only",
  [(IO, """            if current_content == contents.as_bytes() {
                log::debug!("temp file already exists with same content, skipping");
                return Ok(());
            }""", """            if current_content == contents.as_bytes() {
                log::debug!("temp file already exists with same content, skipping");
                return Ok(());
            }
            if current_content.starts_with(contents.as_bytes()) {
                return Ok(());
            }""")],
  {"C08": ["R08.2"]})
M("M26", "CtxOut::new/InMemoryBuild touches the output with File::create",
  [(IO, """            Mode::InMemoryBuild => Ok(Self::InMemoryBuild {
                out: String::new(),""", """            Mode::InMemoryBuild => Ok(Self::InMemoryBuild {
                out: { let _ = File::create(output_path); String::new() },""")],
  {"C09": ["R09.2"]})
M("M27", "Cli::apply_to: needed selects Mode::Build",
  [(MAIN, """                config.mode = if self.needed {
                    Mode::InMemoryBuild
                } else {
                    Mode::Build
                };""", """                config.mode = if self.needed {
                    Mode::Build
                } else {
                    Mode::InMemoryBuild
                };""")],
  {"C09": ["R09.4"]})
M("M28", "drop the temp skip-if-same",
  [(IO, """            if current_content == contents.as_bytes() {
                log::debug!("temp file already exists with same content, skipping");
                return Ok(());
            }""", """            if current_content == contents.as_bytes() {
                log::debug!("temp file already exists with same content, rewriting anyway");
            }""")],
  {"C09": ["R09.3"]})
M("M28b", "needed mode writes when the content is EQUAL (inverted comparison)",
  [(IO, "                    if current_content == out.as_bytes() {", "                    if current_content != out.as_bytes() {")],
  {"C09": ["R09.1"]})
M("M28c", "needed mode: unconditional write after the compare",
  [(IO, """                    if current_content == out.as_bytes() {
                        log::debug!("output file already exists with same content, skipping");
                        return Ok(());
                    }""", """                    if current_content == out.as_bytes() {
                        log::debug!("output file already exists with same content, skipping");
                    }""")],
  {"C09": ["R09.1"]})
M("M28d", "-N short flag renamed",
  [(MAIN, "    #[arg(short = 'N', long)]\n    needed: bool,", "    #[arg(short = 'M', long)]\n    needed: bool,")],
  {"C09": ["R09.4"]})

# ------------------------------------------------------------------ C10
M("M29", "on create failure remove output.with_extension(\"tmp\")",
  [(IO, """                let out = File::create(output_path)
                    .change_context_lazy(|| {""", """                let out = File::create(output_path)
                    .map_err(|e| { let _ = fs::remove_file(output_path.as_ref().with_extension("tmp")); e })
                    .change_context_lazy(|| {""")],
  {"C10": ["R10.2"]})
M("M30", "create_dir_all(parent) before writing a temp target",
  [(IO, """        fs::write(&export_file, contents)
            .change_context_lazy(|| make_error!(self, PpErrorKind::WriteFile))""", """        if let Some(parent) = export_file.as_path().parent() {
            let _ = fs::create_dir_all(parent);
        }
        fs::write(&export_file, contents)
            .change_context_lazy(|| make_error!(self, PpErrorKind::WriteFile))""")],
  {"C10": ["R10.1"]})
M("M30b", "temp target resolved against the process cwd instead of the source directory",
  [(IO, """        let export_file = self.work_dir.try_resolve(&p, true).map_err(|e| {""", """        let cwd = AbsPath::create_base(PathBuf::from(".")).map_err(|e| {
            e.change_context(make_error!(self, PpErrorKind::WriteFile))
        })?;
        let export_file = cwd.try_resolve(&p, true).map_err(|e| {""")],
  {"C10": ["R10.2"]})
M("M30c", "std::env::set_current_dir before running a command",
  [(SH, "        log::debug!(\"shell command `{command}`\");", "        log::debug!(\"shell command `{command}`\");\n        let _ = std::env::set_current_dir(work_dir.as_path());")],
  {"C10": ["R10.3"]})
M("M01", "include resolves with create = true (a missing include is silently created)",
  [(PP, "                    .try_resolve(&arg, false)", "                    .try_resolve(&arg, true)")],
  {"C10": ["R10.2"]})

# ------------------------------------------------------------------ C04
M("M10", "let _ = out.flush() in done/Build",
  [(IO, """            CtxOut::Build { path, out } => out
                .flush()
                .change_context_lazy(|| make_error!(self, PpErrorKind::WriteFile))
                .attach_printable_lazy(|| format!("could not write to `{}`", path.display())),
            CtxOut::InMemoryBuild { path, out } => {
                if path.as_path().exists() {""", """            CtxOut::Build { path, out } => {
                let _ = (path, out.flush());
                Ok(())
            }
            CtxOut::InMemoryBuild { path, out } => {
                if path.as_path().exists() {""")],
  {"C04": ["R04.1"]})
M("M10b", "flush result dropped via .ok()",
  [(IO, """            CtxOut::Build { path, out } => out
                .flush()
                .change_context_lazy(|| make_error!(self, PpErrorKind::WriteFile))
                .attach_printable_lazy(|| format!("could not write to `{}`", path.display())),
            CtxOut::InMemoryBuild { path, out } => {
                if path.as_path().exists() {""", """            CtxOut::Build { path, out } => {
                out.flush().ok();
                let _ = path;
                Ok(())
            }
            CtxOut::InMemoryBuild { path, out } => {
                if path.as_path().exists() {""")],
  {"C04": ["R04.1"]})
M("M11", "let _ = out.write_all(..) in write_output/Build",
  [(IO, """            CtxOut::Build { path, out } => out
                .write_all(output.as_bytes())
                .change_context_lazy(|| make_error!(self, PpErrorKind::WriteFile))
                .attach_printable_lazy(|| format!("cannot write to `{}`", path.display())),""", """            CtxOut::Build { path, out } => {
                let _ = path;
                let _ = out.write_all(output.as_bytes());
                Ok(())
            }""")],
  {"C04": ["R04.1"]})
M("M12", "Shell::run returns Ok(stdout) whatever the exit status",
  [(SH, "        if result.status.success() {", "        if result.status.success() || result.status.code().is_some() {")],
  {"C04": ["R04.3"]})
M("M13", "main: Err(_) => ExitCode::SUCCESS",
  [(MAIN, "        Err(_) => ExitCode::FAILURE,", "        Err(_) => ExitCode::SUCCESS,")],
  {"C04": ["R04.5"]})
M("M14", "coordinator: if let Ok(dir) = result for ScanDir (scan errors ignored)",
  [(EX, """                    let directory = result.map_err(|e| {
                        self.progress.add_done_quiet(1);
                        e.change_context(TxtppError)
                            .attach_printable("cannot scan directory")
                    })?;
                    let _ = self.progress.add_total(directory.subdirs.len());
                    for file in directory.files {
                        self.execute_file(file, true)?;
                    }
                    for dir in directory.subdirs {
                        self.execute_directory(dir, self.config.recursive);
                    }""", """                    if let Ok(directory) = result {
                        let _ = self.progress.add_total(directory.subdirs.len());
                        for file in directory.files {
                            self.execute_file(file, true)?;
                        }
                        for dir in directory.subdirs {
                            self.execute_directory(dir, self.config.recursive);
                        }
                    }""")],
  {"C04": ["R04.1"]})
M("M15", "fs::write(..).ok() in done/InMemoryBuild",
  [(IO, """                fs::write(path.as_path(), out)
                    .change_context_lazy(|| make_error!(self, PpErrorKind::WriteFile))
                    .attach_printable_lazy(|| {
                        format!("could not write output file: `{}`", path.display())
                    })""", """                fs::write(path.as_path(), out).ok();
                Ok(())""")],
  {"C04": ["R04.1"]})
M("M15b", "a failed Preprocess result is logged and skipped by the coordinator",
  [(EX, """                    let preprocess_result = result.map_err(|e| {
                        self.progress.add_done_quiet(1);
                        e.change_context(TxtppError)
                    })?;""", """                    let preprocess_result = match result {
                        Ok(r) => r,
                        Err(e) => {
                            log::error!("{e:?}");
                            continue;
                        }
                    };""")],
  {"C04": ["R04.1"]})
M("M15c", "txtpp() swallows the error after printing it",
  [(EX, """        Err(e) => {
            eprintln!("{:?}", e);
            Err(e)
        }""", """        Err(e) => {
            eprintln!("{:?}", e);
            Ok(())
        }""")],
  {"C04": ["R04.4"]})
M("M15d", "Txtpp::run returns Ok after printing the failure status",
  [(EX, """            runtime.progress.has_error = true;
        }

        result""", """            runtime.progress.has_error = true;
        }
        let _ = &result;

        Ok(())""")],
  {"C04": ["R04.4"]})
M("M15e", "unreadable source line is skipped (lines().flatten())",
  [(IO, """        let line = self.input.next().map(|line| {
            line.change_context_lazy(|| make_error!(self, PpErrorKind::ReadFile))
                .attach_printable("cannot read next line")
        });""", """        let line = self.input.next().map(|line| {
            Ok(line.unwrap_or_default())
        });""")],
  {"C04": ["R04.1"]})
M("M15f", "Drop drains results before joining the pool",
  [(EX, """        self.threadpool.join();
        // wait for all workers to finish sending their last results, which we will ignore""", """        // wait for all workers to finish sending their last results, which we will ignore""")],
  {"C04": ["R04.6"]})
M("M15g", "remove_file error ignored outside clean mode (write_temp_file tolerance widened)",
  [(IO, """        if let CtxOut::Clean { .. } = self.out {
            if let Ok(export_file) = self.work_dir.try_resolve(&p, false) {""", """        if matches!(self.out, CtxOut::Clean { .. } | CtxOut::Verify { .. }) {
            if let Ok(export_file) = self.work_dir.try_resolve(&p, false) {""")],
  {"C04": ["R04.1"]})

# ------------------------------------------------------------------ C18
M("M51", "fs::read_to_string(include).unwrap() inside a worker",
  [(PP, """                let output = std::fs::read_to_string(&include_file)
                    .change_context_lazy(|| self.context.make_error(PpErrorKind::Directive))
                    .attach_printable_lazy(|| {
                        format!("could not read include file: `{include_file}`")
                    })?;""", """                let output = std::fs::read_to_string(&include_file).unwrap();""")],
  {"C18": ["R18.1"]})
M("M52", "inject_tags: drop the overlap `continue` (overlapping tags slice backwards)",
  [(TAG, """            if *i < last_end {
                continue;
            }
""", "")],
  {"C18": ["R18.1"]})
M("M53", "write_output/Verify: drop the rem < len check (u64 underflow on a truncated output)",
  [(IO, """                if *rem < len {
                    log::debug!("not enough content to verify: need {len}, remaining {rem}");
                    return Err(make_verify_report!(self, path));
                }
""", "")],
  {"C18": ["R18.1"], "C06": ["R06.2"]})
M("M54", "drop the zero-thread guard",
  [(EX, """        if config.num_threads == 0 {
            return Err(Report::new(TxtppError)
                .attach_printable("the number of threads must be at least 1"));
        }
""", "")],
  {"C18": ["R18.2"]})
M("M55", "add_line: continuation accepted without the leading-whitespace check (slice past a shorter line)",
  [(DADD, "        if line.starts_with(&self.whitespaces) {", "        if line.starts_with(&self.whitespaces) || line.trim().is_empty() {")],
  {"C18": ["R18.1"]})
M("M56", "add_line: space-continuation compares trimmed prefix length (index may split a char / exceed the line)",
  [(DADD, """line.starts_with(&" ".repeat(self.prefix.len()))""", """line.starts_with(&" ".repeat(self.prefix.trim_end().len()))""")],
  {"C18": ["R18.1"]})
M("M57", "Directive Display shows the second argument",
  [(DIR, """            format!("{} ...", self.args[0])""", """            format!("{} {} ...", self.args[0], self.args[1])""")],
  {})   # args[1] exists when len != 1 ... unless len == 0; the reviewed entry is about non-emptiness only: not caught, documented
M("M58", "detect_from: prefix cut at a char count instead of the byte index",
  [(DFROM, """            Some(i) => (&line[i..], &line[..i]),""", """            Some(i) => (&line[i..], &line[..line[..i].chars().count()]),""")],
  {"C18": ["R18.1"]})
M("M59", "notify_finish decrements without the <= 1 test",
  [(DEP, """            if *count <= 1 {
                self.out_edge_counts.remove(&depender);
                output.insert(depender);
            } else {
                *count -= 1;
            }""", """            *count -= 1;
            if *count == 0 {
                self.out_edge_counts.remove(&depender);
                output.insert(depender);
            }""")],
  {"C18": ["R18.1"]})
M("M60", "worker unwraps the preprocess result before sending",
  [(EX, """            let result = preprocess(&shell, &file, mode, is_first_pass, trailing_newline);
            send.send(TaskResult::Preprocess(result))""", """            let result = preprocess(&shell, &file, mode, is_first_pass, trailing_newline);
            let result = Ok(result.unwrap());
            send.send(TaskResult::Preprocess(result))""")],
  {"C18": ["R18.1"]})
M("M61", "get_line_ending_from_buf: look at buf[1] when len == 1",
  [("src/fs/line_ending.rs", """        1 => {
            if buf[0] == b'\\n' {""", """        1 => {
            if buf[1] == b'\\n' {""")],
  {"C18": ["R18.1"]})

# ------------------------------------------------------------------ C02 / C03 / C05
M("M04", "reschedule the depender also when add_dependency is true (runs before its dependencies finish)",
  [(EX, """                                for dep in deps {
                                    self.execute_file(dep, true)?;
                                }""", """                                for dep in deps {
                                    self.execute_file(dep, true)?;
                                }
                                self.execute_file(input, false)?;""")],
  {"C02": ["R02.1"]})
M("M05", "collect-deps gate: drop the final 'already collecting -> None' (commands after a dependency run early)",
  [(PP, """        if let PpMode::CollectDeps(_) = self.pp_mode {
            return Ok(None);
        }
        Ok(Some(d))""", """        Ok(Some(d))""")],
  {"C02": ["R02.2"]})
M("M05b", "include of a .txtpp-backed file is executed right away when found in the first pass",
  [(PP, """                    PpMode::FirstPassExecute => {
                        self.pp_mode = PpMode::CollectDeps(vec![p_abs]);
                    }
                    _ => unreachable!(),
                }
                return Ok(None);""", """                    PpMode::FirstPassExecute => {
                        self.pp_mode = PpMode::CollectDeps(vec![p_abs]);
                        return Ok(Some(d));
                    }
                    _ => unreachable!(),
                }
                return Ok(None);""")],
  {"C02": ["R02.2"]})
M("M06", "build PpResult::Ok first, then let _ = self.context.done()",
  [(PP, """        self.context.done()?;

        Ok(PpResult::Ok(self.input_file))""", """        let r = Ok(PpResult::Ok(self.input_file));
        let _ = self.context.done();
        r""")],
  {"C02": ["R02.5"], "C04": ["R04.1"]})
M("M06b", "run directive executed before the collect-deps gate",
  [(PP, """        let d = match self.execute_in_collect_deps_mode(d)? {
            Some(d) => d,
            None => return Ok(None),
        };
""", """        if let DirectiveType::Run = d.directive_type {
            let command = d.args.join(" ");
            let _ = self.shell.run(&command, &self.context.work_dir, &self.context.input_path);
        }
        let d = match self.execute_in_collect_deps_mode(d)? {
            Some(d) => d,
            None => return Ok(None),
        };
""")],
  {"C02": ["R02.3"]})
M("M06c", "lines are written to the output even while collecting dependencies",
  [(PP, """            if self.pp_mode.is_execute() {
                if let Some(x) = to_write {""", """            if self.pp_mode.is_execute() || has_tail {
                if let Some(x) = to_write {""")],
  {"C02": ["R02.4"]})
M("M06d", "worker shares the dedup set through an Arc<Mutex<..>> upvar",
  [(EX, """        let send = self.send.clone();
        let shell = self.shell.clone();""", """        let send = self.send.clone();
        let shared = std::sync::Arc::new(std::sync::Mutex::new(self.files.clone()));
        let shell = self.shell.clone();"""),
   (EX, """            let result = preprocess(&shell, &file, mode, is_first_pass, trailing_newline);""", """            let _n = shared.lock().map(|s| s.len()).unwrap_or(0);
            let result = preprocess(&shell, &file, mode, is_first_pass, trailing_newline);""")],
  {"C02": ["R02.6"]})
M("M07", "drop the files.insert first-pass dedup",
  [(EX, """            if !self.files.insert(file.clone()) {
                return Ok(());
            }""", """            let _ = self.files.insert(file.clone());""")],
  {"C03": ["R03.5"]})
M("M08", "share_base skips make_abs for absolute paths (no canonicalisation: two identities for one file)",
  [(AP, """        Ok(Self {
            b: self.b.clone(),
            p: Self::make_abs(p)?,
        })""", """        Ok(Self {
            b: self.b.clone(),
            p: if p.is_absolute() && p.exists() { p } else { Self::make_abs(p)? },
        })""")],
  {"C03": ["R03.6"]})
M("M09", "worker closure logs an Err result instead of sending it",
  [(EX, """            let result = preprocess(&shell, &file, mode, is_first_pass, trailing_newline);
            send.send(TaskResult::Preprocess(result))
                .expect("cannot send result")""", """            let result = preprocess(&shell, &file, mode, is_first_pass, trailing_newline);
            if result.is_err() {
                log::error!("preprocess failed");
                return;
            }
            send.send(TaskResult::Preprocess(result))
                .expect("cannot send result")""")],
  {"C03": ["R03.1"], "C18": ["R18.3"]})
M("M09b", "execute_file returns early for already-clean targets after counting the task",
  [(EX, """        let send = self.send.clone();
        let shell = self.shell.clone();""", """        if file_target.is_empty() {
            return Ok(());
        }
        let send = self.send.clone();
        let shell = self.shell.clone();""")],
  {"C03": ["R03.2"]})
M("M09c", "coordinator leaves the loop as soon as the channel is empty once",
  [(EX, """                    if self.progress.is_done() {
                        break;
                    }""", """                    if self.progress.is_done() || file_count > 0 {
                        break;
                    }""")],
  {"C03": ["R03.4"]})
M("M09d", "AbsPath equality also compares the base",
  [(AP, """    #[derivative(PartialEq = "ignore", Hash = "ignore")]
    b: PathBuf,""", """    #[derivative(Hash = "ignore")]
    b: PathBuf,""")],
  {"C03": ["R03.6"]})
M("M16", "drop the leftover-graph (cycle) check",
  [(EX, """        if !remaining.is_empty() {
            return Err(Report::new(TxtppError)
                .attach_printable("Circular dependencies are found:")
                .attach_printable(print_dep_map(&remaining)));
        }""", """        if !remaining.is_empty() {
            log::warn!("Circular dependencies are found: {}", print_dep_map(&remaining));
        }""")],
  {"C05": ["R05.1"]})

# ------------------------------------------------------------------ C17
M("M48", "current_dir(work_dir.to_string()) again (base-relative rendering; the pre-fix defect F1)",
  [(SH, ".current_dir(normalize_path(&work_dir.as_path().display().to_string()))", ".current_dir(work_dir.to_string())")],
  {"C17": ["R17.1"]})
M("M48b", "commands run in the base directory instead of the source directory",
  [(PP, ".run(&command, &self.context.work_dir, &self.context.input_path)", ".run(&command, &self.input_file, &self.context.input_path)")],
  {"C17": ["R17.1"]})
M("M49", "run arguments joined with a newline",
  [(PP, """                let command = d.args.join(" ");
                let output = self""", """                let command = d.args.join("\\n");
                let output = self""")],
  {"C17": ["R17.2"]})
M("M49b", "command split into separate arguments",
  [(SH, "            .arg(command)\n", "            .args(command.split(' '))\n")],
  {"C17": ["R17.2"]})
M("M49c", "stderr appended to the directive output",
  [(SH, "            let output = String::from_utf8_lossy(&result.stdout).to_string();", "            let output = format!(\"{}{}\", String::from_utf8_lossy(&result.stdout), String::from_utf8_lossy(&result.stderr));")],
  {"C17": ["R17.2"]})
M("M49d", "TXTPP_FILE no longer exported",
  [(SH, "            .env(TXTPP_FILE, file)\n", "")],
  {"C17": ["R17.2"]})
M("M50", "main: drop the TXTPP_FILE guard",
  [(MAIN, """    if let Ok(f) = env::var(TXTPP_FILE) {
        if !f.is_empty() {
            eprintln!("Cannot run txtpp as a subcommand!");
            return ExitCode::FAILURE;
        }
    }
""", """    if let Ok(f) = env::var(TXTPP_FILE) {
        if !f.is_empty() {
            eprintln!("Cannot run txtpp as a subcommand!");
        }
    }
""")],
  {"C17": ["R17.4"]})
M("M50b", "default shell changed to bash -c",
  [(SH, """        Self::new("sh -c")""", """        Self::new("bash -c")""")],
  {"C17": ["R17.2"]})

# ------------------------------------------------------------------ C12 / C13 / C16
M("M34", "forward raw directive output when the indentation is empty (bypasses line-ending normalisation)",
  [(PP, """                        if self.tag_state.try_store(&raw_output).is_err() {
                            Some(self.format_directive_output(""", """                        if self.tag_state.try_store(&raw_output).is_err() {
                            if whitespaces.is_empty() {
                                Some(raw_output)
                            } else {
                            Some(self.format_directive_output("""),
   (PP, """                                raw_output.ends_with('\\n'),
                            ))
                        } else {""", """                                raw_output.ends_with('\\n'),
                            ))
                            }
                        } else {""")],
  {"C12": ["R12.1"]})
M("M35", "final newline written as a literal \\n",
  [(PP, """        if add_newline_before_next_output && trailing_newline {
            self.context.write_output(self.context.line_ending)?;""", """        if add_newline_before_next_output && trailing_newline {
            self.context.write_output("\\n")?;""")],
  {"C12": ["R12.1"], "C13": ["R13.1"]})
M("M36", "inject_tags pushes the stored value without replace_line_ending",
  [(TAG, "            injected_output.push_str(&value.replace_line_ending(line_ending, false));", "            injected_output.push_str(value);\n            let _ = line_ending;")],
  {"C12": ["R12.1", "R12.3"]})
M("M37", "raw_output.split('\\n') instead of .lines() (keeps \\r of CRLF output)",
  [(PP, "                                raw_output.lines(),", "                                raw_output.split('\\n'),")],
  {"C12": ["R12.3"]})
M("M37b", "temp content joined with a literal \\n",
  [(PP, """        let contents = self.format_directive_output("", args.iter().skip(1), false);""", """        let contents = args.iter().skip(1).cloned().collect::<Vec<_>>().join("\\n");""")],
  {"C12": ["R12.1"]})
M("M37c", "line ending sniffed from the output file instead of the source",
  [(IO, """        let line_ending = input_file.get_line_ending().map_err(|e| {""", """        let line_ending = input_file.trim_txtpp().unwrap_or_default().get_line_ending().map_err(|e| {""")],
  {"C12": ["R12.2"]})
M("M37d", "replace_line_ending joins with a fixed \\n",
  [(STR, """                result.push_str(line);
                result.push_str(line_ending);""", """                result.push_str(line);
                result.push_str("\\n");""")],
  {"C12": ["R12.3"]})
M("M38", "store trailing_newline in Pp and use it for temp content",
  [(PP, """    pp_mode: PpMode,
    execute_tail_line: Option<String>,
}""", """    pp_mode: PpMode,
    execute_tail_line: Option<String>,
    trailing_newline: bool,
}"""),
   (PP, """            execute_tail_line: None,
        }
        .run_internal(trailing_newline)""", """            execute_tail_line: None,
            trailing_newline,
        }
        .run_internal(trailing_newline)"""),
   (PP, """        let contents = self.format_directive_output("", args.iter().skip(1), false);""", """        let tn = self.trailing_newline;
        let contents = self.format_directive_output("", args.iter().skip(1), !tn);""")],
  {"C13": ["R13.2"]})
M("M38b", "trailing_newline also suppresses separators inside the loop",
  [(PP, """                    if add_newline_before_next_output {
                        self.context.write_output(self.context.line_ending)?;
                    }""", """                    if add_newline_before_next_output && trailing_newline {
                        self.context.write_output(self.context.line_ending)?;
                    }""")],
  {"C13": ["R13.1"]})
M("M39", "BuildFlags::apply_to drops the negation",
  [(MAIN, "        config.trailing_newline = !self.no_trailing_newline;", "        config.trailing_newline = self.no_trailing_newline;")],
  {"C13": ["R13.3"]})
M("M46", "write arm trims its arguments",
  [(PP, """            DirectiveType::Write => Some(d.args.join("\\n")),""", """            DirectiveType::Write => Some(d.args.iter().map(|a| a.trim().to_string()).collect::<Vec<_>>().join("\\n")),""")],
  {"C16": ["R16.3"]})
M("M47", "ordinary line is trim_end()ed before writing",
  [(PP, """                    let line = if self.pp_mode.is_execute() {
                        self.tag_state.inject_tags(&line, self.context.line_ending)
                    } else {
                        line
                    };""", """                    let line = if self.pp_mode.is_execute() {
                        self.tag_state.inject_tags(line.trim_end(), self.context.line_ending)
                    } else {
                        line
                    };""")],
  {"C16": ["R16.2"]})
M("M47b", "directive output is run through tag injection as well",
  [(PP, """                            Some(self.format_directive_output(
                                &whitespaces,
                                raw_output.lines(),
                                raw_output.ends_with('\\n'),
                            ))""", """                            let formatted = self.format_directive_output(
                                &whitespaces,
                                raw_output.lines(),
                                raw_output.ends_with('\\n'),
                            );
                            let formatted = formatted.strip_suffix('\\n').unwrap_or(&formatted).to_string();
                            Some(self.tag_state.inject_tags(&formatted, self.context.line_ending))""")],
  {"C16": ["R16.1"]})
M("M47c", "write output is pushed back as the tail line (re-parsed as a directive)",
  [(PP, """                    let has_tail = if line.is_some() {
                        self.execute_tail_line = line;
                        true""", """                    let has_tail = if line.is_some() {
                        self.execute_tail_line = directive_output.clone().or(line);
                        true""")],
  {"C16": ["R16.1"]})

# ------------------------------------------------------------------ C01 / C11 / C14 / C15
M("M02", "drop the prefix-less multi-line check",
  [(PP, """                            if d.directive_type.supports_multi_line() && d.prefix.is_empty() {""", """                            if d.directive_type.supports_multi_line() && d.prefix.is_empty() && false {""")],
  {"C01": ["R01.3"], "C15": ["R15.3"]})
M("M03", "after directive also reads the file (effect in a no-effect arm)",
  [(PP, """            DirectiveType::Empty | DirectiveType::After => {
                // do nothing (consume the line)
                None
            }""", """            DirectiveType::Empty => None,
            DirectiveType::After => {
                let arg = d.args.into_iter().next().unwrap_or_default();
                let _ = std::fs::read_to_string(self.context.work_dir.as_path().join(arg));
                None
            }""")],
  {"C01": ["R01.1"]})
M("M03b", "indentation taken from the prefix instead of the leading whitespace",
  [(PP, "                    let whitespaces = d.whitespaces.clone();", "                    let whitespaces = d.prefix.clone();")],
  {"C01": ["R01.2"]})
M("M03c", "tag directive output is also emitted (tag arm yields Some)",
  [(PP, """                        .attach_printable(format!("could not create tag: `{tag_name}`"))
                })?;
                None""", """                        .attach_printable(format!("could not create tag: `{tag_name}`"))
                })?;
                Some(String::new())""")],
  {"C01": ["R01.1"]})
M("M03d", "temp files also echo their content into the output via a second write_output call",
  [(PP, """        let contents = self.format_directive_output("", args.iter().skip(1), false);
        self.context.write_temp_file(export_file, &contents)""", """        let contents = self.format_directive_output("", args.iter().skip(1), false);
        if contents.len() > 1 << 30 {
            self.context.write_output(&contents)?;
        }
        self.context.write_temp_file(export_file, &contents)""")],
  {"C01": ["R01.4"]})
M("M31", "scan_dir: drop `&& recursive`",
  [(SCAN, "        } else if path.is_dir() && recursive {", "        } else if path.is_dir() {\n            let _ = recursive;")],
  {"C11": ["R11.1"]})
M("M31b", "nested scans always recurse (recursive flag lost after the first level)",
  [(EX, """                    for dir in directory.subdirs {
                        self.execute_directory(dir, self.config.recursive);""", """                    for dir in directory.subdirs {
                        self.execute_directory(dir, true);""")],
  {"C11": ["R11.1"]})
M("M32", "resolve_inputs: silently skip a missing target",
  [(RES, """            } else {
                return Err(Report::new(PathError::from(&input_path)).attach_printable(
                    "file does not exist and corresponding txtpp file not found.",
                ));
            }""", """            } else {
                log::warn!("{}", Report::new(PathError::from(&input_path)).attach_printable(
                    "file does not exist and corresponding txtpp file not found.",
                ));
            }""")],
  {"C11": ["R11.3"]})
M("M32b", "scan_dir schedules every regular file",
  [(SCAN, """            if path.is_txtpp_file() {
                let path_abs = dir.share_base(path)?;
                directory.files.push(path_abs);
            }""", """            if path.is_txtpp_file() || path.extension().is_none() {
                let path_abs = dir.share_base(path)?;
                directory.files.push(path_abs);
            }""")],
  {"C11": ["R11.2"]})
M("M40", "inject_tags: drop sort_by (substitution order follows HashMap iteration)",
  [(TAG, """        // sort by index
        to_inject.sort_by(|a, b| a.0.cmp(&b.0));
        let mut injected_output""", """        let mut injected_output""")],
  {"C14": ["R14.1"]})
M("M41", "create: drop one starts_with direction",
  [(TAG, "            if k.starts_with(tag) || tag.starts_with(k) {", "            if k.starts_with(tag) {")],
  {"C14": ["R14.2"]})
M("M41b", "create: a listening tag is silently replaced",
  [(TAG, """        if let Some(old_tag) = &self.listening {
            return Err(Report::new(TagStateError).attach_printable(format!(
                "Cannot create new tag `{tag}` when old tag `{old_tag}` is still listening."
            )));
        }""", """        if let Some(old_tag) = &self.listening {
            log::warn!("Cannot create new tag `{tag}` when old tag `{old_tag}` is still listening.");
        }""")],
  {"C14": ["R14.2"]})
M("M41c", "stored tag output is ALSO written to the file",
  [(PP, """                        if self.tag_state.try_store(&raw_output).is_err() {
                            Some(self.format_directive_output(""", """                        if self.tag_state.try_store(&raw_output).is_err() || raw_output.len() > 1 << 20 {
                            Some(self.format_directive_output(""")],
  {"C14": ["R14.3"]})
M("M41d", "unused tags at end of file are accepted",
  [(PP, "        if self.tag_state.has_tags() && !matches!(self.mode, Mode::Clean) {", "        if self.tag_state.has_tags() && matches!(self.mode, Mode::Verify) {")],
  {"C14": ["R14.4"]})
M("M41e", "has_tags ignores a tag that is still listening",
  [(TAG, "        self.listening.is_some() || !self.stored.is_empty()", "        !self.stored.is_empty()")],
  {"C14": ["R14.4"]})
M("M43", "supports_multi_line no longer excludes After",
  [(DIR, "            DirectiveType::After | DirectiveType::Include | DirectiveType::Tag", "            DirectiveType::Include | DirectiveType::Tag")],
  {"C15": ["R15.2"]})
M("M44", "detect_from uses rfind(TXTPP_HASH) (the LAST marker counts)",
  [(DFROM, "        let (line, prefix) = match line.find(TXTPP_HASH) {", "        let (line, prefix) = match line.rfind(TXTPP_HASH) {")],
  {"C15": ["R15.4"]})
M("M45", "name/argument split on any whitespace",
  [(DFROM, "match directive_name.split_once(' ') {", "match directive_name.split_once(char::is_whitespace) {")],
  {"C15": ["R15.1"]})
M("M45b", "directive names matched case-insensitively",
  [(DIR, """        match value {
            "" => Ok(DirectiveType::Empty),""", """        match value.to_lowercase().as_str() {
            "" => Ok(DirectiveType::Empty),""")],
  {})   # equality is still exact on the lowered string; the rule looks at the table only: documented miss (value-level)
M("M45c", "an extra alias `exec` for run",
  [(DIR, """            "run" => Ok(DirectiveType::Run),""", """            "run" | "exec" => Ok(DirectiveType::Run),""")],
  {"C15": ["R15.1"]})
M("M45d", "add_line appends before checking supports_multi_line",
  [(DADD, """        if !self.directive_type.supports_multi_line() {
            return Err(());
        }
        if line.starts_with(&self.whitespaces) {""", """        if !self.directive_type.supports_multi_line() && !line.is_empty() {
            return Err(());
        }
        if line.starts_with(&self.whitespaces) {""")],
  {"C15": ["R15.2"]})

# ------------------------------------------------------------------ neutral patches: behaviour-preserving edits, every rule must stay silent
M("N01", "rename locals in write_temp_file",
  [(IO, """        let export_file = self.work_dir.try_resolve(&p, true).map_err(|e| {
            e.change_context(make_error!(self, PpErrorKind::WriteFile))
                .attach_printable(format!("could not resolve temp file: `{}`", p.display()))
        })?;
        if export_file.as_path().is_dir() {
            return Err(Report::new(make_error!(self, PpErrorKind::WriteFile))
                .attach_printable(format!("cannot write to directory: `{export_file}`")));
        }
        // Check if the temp file already exists and has the same content
        if export_file.as_path().exists() {
            let current_content = fs::read(&export_file)
                .change_context_lazy(|| make_error!(self, PpErrorKind::ReadFile))
                .attach_printable_lazy(|| {
                    format!("could not read existing temp file: `{export_file}`")
                })?; // early return because if we can't read it, we probably can't write it either
            if current_content == contents.as_bytes() {
                log::debug!("temp file already exists with same content, skipping");
                return Ok(());
            }
        }

        fs::write(&export_file, contents)
            .change_context_lazy(|| make_error!(self, PpErrorKind::WriteFile))
            .attach_printable_lazy(|| format!("could not write temp file: `{export_file}`"))""", """        let target = self.work_dir.try_resolve(&p, true).map_err(|e| {
            e.change_context(make_error!(self, PpErrorKind::WriteFile))
                .attach_printable(format!("could not resolve temp file: `{}`", p.display()))
        })?;
        if target.as_path().is_dir() {
            return Err(Report::new(make_error!(self, PpErrorKind::WriteFile))
                .attach_printable(format!("cannot write to directory: `{target}`")));
        }
        // Check if the temp file already exists and has the same content
        if target.as_path().exists() {
            let old = fs::read(&target)
                .change_context_lazy(|| make_error!(self, PpErrorKind::ReadFile))
                .attach_printable_lazy(|| {
                    format!("could not read existing temp file: `{target}`")
                })?; // early return because if we can't read it, we probably can't write it either
            if old == contents.as_bytes() {
                log::debug!("temp file already exists with same content, skipping");
                return Ok(());
            }
        }

        fs::write(&target, contents)
            .change_context_lazy(|| make_error!(self, PpErrorKind::WriteFile))
            .attach_printable_lazy(|| format!("could not write temp file: `{target}`"))""")],
  {})
M("N02", "hoist the .txtpp refusal into a helper fn + `?`",
  [(PP, """        if PathBuf::from(export_file).is_txtpp_file() {
            return Err(Report::new(self.context.make_error(PpErrorKind::Directive))
                .attach_printable(format!(
                "invalid temp directive: export file path cannot be a txtpp file: `{export_file}`"
            )));
        }
""", """        self.ensure_not_txtpp(export_file)?;
"""),
   (PP, """    fn format_directive_output(
        &mut self,""", """    fn ensure_not_txtpp(&self, export_file: &str) -> Result<(), PpError> {
        if PathBuf::from(export_file).is_txtpp_file() {
            return Err(Report::new(self.context.make_error(PpErrorKind::Directive))
                .attach_printable(format!(
                "invalid temp directive: export file path cannot be a txtpp file: `{export_file}`"
            )));
        }
        Ok(())
    }

    fn format_directive_output(
        &mut self,""")],
  {})
M("N03", "matches!(self.mode, Mode::Clean) -> self.mode == Mode::Clean",
  [(PP, "        if self.tag_state.has_tags() && !matches!(self.mode, Mode::Clean) {", "        if self.tag_state.has_tags() && self.mode != Mode::Clean {"),
   (PP, "        if self.is_err() && matches!(mode, Mode::Clean) {", "        if self.is_err() && *mode == Mode::Clean {")],
  {})
M("N04", "fs::write -> File::create + write_all in done/InMemoryBuild",
  [(IO, """                fs::write(path.as_path(), out)
                    .change_context_lazy(|| make_error!(self, PpErrorKind::WriteFile))""", """                File::create(path.as_path())
                    .and_then(|mut f| f.write_all(out.as_bytes()))
                    .change_context_lazy(|| make_error!(self, PpErrorKind::WriteFile))""")],
  {})
M("N05", "if let <-> match in execute_directive / execute_in_clean_mode",
  [(PP, """        if let Mode::Clean = self.mode {
            // Ignore error if in clean mode
            let _ = self.execute_in_clean_mode(d);
            return Ok(None);
        }""", """        match self.mode {
            Mode::Clean => {
                // Ignore error if in clean mode
                let _ = self.execute_in_clean_mode(d);
                return Ok(None);
            }
            _ => {}
        }"""),
   (PP, """        if let DirectiveType::Temp = d.directive_type {
            self.execute_directive_temp(d.args, true)?;
        }
        Ok(())""", """        match d.directive_type {
            DirectiveType::Temp => self.execute_directive_temp(d.args, true),
            _ => Ok(()),
        }""")],
  {})
M("N06", "reorder independent statements in IOCtx::new (work_dir before output)",
  [(IO, """        let out = CtxOut::new(mode, &input_path, &output_path)?;

        let work_dir = input_file.parent().map_err(|e| {
            e.change_context(Self::make_error_with_kind(
                input_path.clone(),
                PpErrorKind::OpenFile,
            ))
            .attach_printable(format!(
                "cannot get working directory for input file: {}",
                input_file
            ))
        })?;
""", """        let work_dir = input_file.parent().map_err(|e| {
            e.change_context(Self::make_error_with_kind(
                input_path.clone(),
                PpErrorKind::OpenFile,
            ))
            .attach_printable(format!(
                "cannot get working directory for input file: {}",
                input_file
            ))
        })?;

        let out = CtxOut::new(mode, &input_path, &output_path)?;
""")],
  {})
M("N07", "trim_matches(char::is_whitespace) -> trim()",
  [(DFROM, "arg.trim_matches(char::is_whitespace)", "arg.trim()")],
  {})
M("N08", "an extra cosmetic status line in the coordinator",
  [(EX, """        let mut dep_mgr = DepManager::new();""", """        let _ = self.progress.print_status(verbs::USING, "dependency manager", Color::Yellow, true);
        let mut dep_mgr = DepManager::new();""")],
  {})
M("N09", "`?` -> explicit match in Pp::run_internal (done)",
  [(PP, """        self.context.done()?;

        Ok(PpResult::Ok(self.input_file))""", """        match self.context.done() {
            Ok(()) => {}
            Err(e) => return Err(e),
        }

        Ok(PpResult::Ok(self.input_file))""")],
  {})
M("N10", "an extra log::debug! in the worker closure",
  [(EX, """            let result = preprocess(&shell, &file, mode, is_first_pass, trailing_newline);
            send.send(TaskResult::Preprocess(result))""", """            let result = preprocess(&shell, &file, mode, is_first_pass, trailing_newline);
            log::debug!("task for {file} finished, ok = {}", result.is_ok());
            send.send(TaskResult::Preprocess(result))""")],
  {})
M("N11", "extract the ThreadPool::execute call into a spawn_task helper",
  [(EX, """        self.threadpool.execute(move || {
            let result = preprocess(&shell, &file, mode, is_first_pass, trailing_newline);
            send.send(TaskResult::Preprocess(result))
                .expect("cannot send result")
        });
        Ok(())
    }
}""", """        self.spawn_task(send, shell, file, mode, is_first_pass, trailing_newline);
        Ok(())
    }

    fn spawn_task(
        &self,
        send: mpsc::Sender<TaskResult>,
        shell: Arc<Shell>,
        file: AbsPath,
        mode: Mode,
        is_first_pass: bool,
        trailing_newline: bool,
    ) {
        self.threadpool.execute(move || {
            let result = preprocess(&shell, &file, mode, is_first_pass, trailing_newline);
            send.send(TaskResult::Preprocess(result))
                .expect("cannot send result")
        });
    }
}""")],
  {})
M("N12", "File::create -> equivalent truncating OpenOptions chain (Build output)",
  [(IO, "                let out = File::create(output_path)", "                let out = fs::OpenOptions::new().write(true).create(true).truncate(true).open(output_path)")],
  {})
M("N13", "inline execute_in_clean_mode into execute_directive",
  [(PP, """            // Ignore error if in clean mode
            let _ = self.execute_in_clean_mode(d);
            return Ok(None);""", """            // Ignore error if in clean mode
            if let DirectiveType::Temp = d.directive_type {
                let _ = self.execute_directive_temp(d.args, true);
            }
            return Ok(None);""")],
  {})
M("N15", "`*rem < len` -> `len > *rem`; `buf != x` -> `!(buf == x)`",
  [(IO, "                if *rem < len {", "                if len > *rem {"),
   (IO, "                if buf != output.as_bytes() {", "                if !(buf == output.as_bytes()) {")],
  {})
M("N17", "different error message and an extra attach_printable context on the flush error",
  [(IO, """                .attach_printable_lazy(|| format!("could not write to `{}`", path.display())),""", """                .attach_printable_lazy(|| format!("flushing `{}` failed", path.display()))
                .attach_printable("is the disk full?"),""")],
  {})
M("N20", "swap the is_dir / exists checks order is kept but exists computed once into a local",
  [(IO, """        if export_file.as_path().exists() {
            let current_content = fs::read(&export_file)""", """        let already_there = export_file.as_path().exists();
        if already_there {
            let current_content = fs::read(&export_file)""")],
  {})
M("N22", "first-pass dedup with contains() + insert()",
  [(EX, """            if !self.files.insert(file.clone()) {
                return Ok(());
            }""", """            if self.files.contains(&file) {
                return Ok(());
            }
            self.files.insert(file.clone());""")],
  {})
M("N25", "Shell::run: early return on failure instead of if/else",
  [(SH, """        if result.status.success() {
            let output = String::from_utf8_lossy(&result.stdout).to_string();
            log::debug!("shell output `{output}`");
            Ok(output)
        } else {
            let exit_code = match result.status.code() {
                Some(code) => code.to_string(),
                None => "unknown".to_string(),
            };
            Err(
                Report::new(ShellError::ExecuteError).attach_printable(format!(
                    "Subcommand `{}` failed with exit code {}: {}",
                    command,
                    exit_code,
                    String::from_utf8_lossy(&result.stderr)
                )),
            )
        }""", """        if !result.status.success() {
            let exit_code = match result.status.code() {
                Some(code) => code.to_string(),
                None => "unknown".to_string(),
            };
            return Err(
                Report::new(ShellError::ExecuteError).attach_printable(format!(
                    "Subcommand `{}` failed with exit code {}: {}",
                    command,
                    exit_code,
                    String::from_utf8_lossy(&result.stderr)
                )),
            );
        }
        let output = String::from_utf8_lossy(&result.stdout).to_string();
        log::debug!("shell output `{output}`");
        Ok(output)""")],
  {})
M("N26", "main: match on env::var with a guard instead of nested ifs",
  [(MAIN, """    if let Ok(f) = env::var(TXTPP_FILE) {
        if !f.is_empty() {
            eprintln!("Cannot run txtpp as a subcommand!");
            return ExitCode::FAILURE;
        }
    }""", """    match env::var(TXTPP_FILE) {
        Ok(f) if !f.is_empty() => {
            eprintln!("Cannot run txtpp as a subcommand!");
            return ExitCode::FAILURE;
        }
        _ => {}
    }""")],
  {})
M("N27", "num_threads guard written as `< 1`",
  [(EX, "        if config.num_threads == 0 {", "        if config.num_threads < 1 {")],
  {})
M("N28", "coordinator: `while let`-free loop kept, but add_done moved into a helper method",
  [(EX, """            let _ = self.progress.add_done(1);

            match data {""", """            self.count_done();

            match data {"""),
   (EX, """    fn execute_directory(&mut self, dir: AbsPath, recursive: bool) {""", """    fn count_done(&mut self) {
        let _ = self.progress.add_done(1);
    }

    fn execute_directory(&mut self, dir: AbsPath, recursive: bool) {""")],
  {})

# ------------------------------------------------------------------ deeper-structure rules (R02.7 R03.7 R04.7 R11.6 R12.4 R14.6 R15.5)
M("M70", "add_dependency records an edge even for a finished dependency (depender waits forever / lost wake-up)",
  [(DEP, """            if self.finished.contains(dependency) {
                continue;
            }
""", "")],
  {"C02": ["R02.7"]})
M("M71", "notify_finish releases a depender as soon as ANY dependency finishes",
  [(DEP, "            if *count <= 1 {", "            if *count <= 2 {")],
  {"C02": ["R02.7"]})
M("M72", "notify_finish forgets to record the finished file when it has no dependers",
  [(DEP, """        self.finished.insert(finished.clone());
        // Get all dependers of finished
        let mut output = HashSet::new();
        let in_edges = match self.in_edges.remove(finished) {
            Some(in_edges) => in_edges,
            None => return output,
        };""", """        // Get all dependers of finished
        let mut output = HashSet::new();
        let in_edges = match self.in_edges.remove(finished) {
            Some(in_edges) => in_edges,
            None => return output,
        };
        self.finished.insert(finished.clone());""")],
  {"C02": ["R02.7"]})
M("M73", "Progress::is_done uses >= (an over-count ends the loop early)",
  [("src/core/util/progress.rs", "        self.done_count == self.total_count", "        self.done_count >= self.total_count")],
  {"C03": ["R03.7"]})
M("M74", "add_done_quiet-style bug: add_total adds to done_count",
  [("src/core/util/progress.rs", """        self.total_count += count;
        self.update_progress()""", """        self.done_count += count;
        self.update_progress()""")],
  {"C03": ["R03.7"]})
M("M75", "a disconnected channel just ends the loop",
  [(EX, """                    return Err(Report::new(TxtppError)
                        .attach_printable("workers are disconnected unexpectedly."));""", """                    log::error!("workers are disconnected unexpectedly.");
                    break;""")],
  {"C04": ["R04.7"]})
M("M76", "line ending table returns a bare CR for a CR-terminated first line",
  [("src/fs/line_ending.rs", """            if buf[len - 1] == b'\\n' {
                if buf[len - 2] == b'\\r' {
                    CRLF
                } else {
                    LF
                }
            } else {
                OS_LINE_ENDING
            }""", """            if buf[len - 1] == b'\\n' {
                if buf[len - 2] == b'\\r' {
                    CRLF
                } else {
                    LF
                }
            } else if buf[len - 1] == b'\\r' {
                "\\r"
            } else {
                OS_LINE_ENDING
            }""")],
  {"C12": ["R12.4"]})
M("M77", "try_store keeps listening after storing (the next directive overwrites the tag)",
  [(TAG, """                self.stored.insert(tag.clone(), content.to_string());
                self.listening = None;
                Ok(())""", """                self.stored.insert(tag.clone(), content.to_string());
                Ok(())""")],
  {"C14": ["R14.6"]})
M("M78", "inject_tags does not remove the substituted tag",
  [(TAG, """            last_end = i + key.len();
            to_remove.push(key.to_string());""", """            last_end = i + key.len();
            if value.is_empty() {
                to_remove.push(key.to_string());
            }""")],
  {"C14": ["R14.6"]})
M("M79", "inject_tags locates the LAST occurrence of a tag",
  [(TAG, "            .filter_map(|(k, v)| output.find(k).map(|i| (i, k, v)))", "            .filter_map(|(k, v)| output.rfind(k).map(|i| (i, k, v)))")],
  {"C14": ["R14.6"]})
M("M80", "add_line: the spaces continuation form is dropped",
  [(DADD, """            if line.starts_with(&self.prefix) || line.starts_with(&" ".repeat(self.prefix.len())) {""", """            if line.starts_with(&self.prefix) {""")],
  {"C15": ["R15.5"]})
M("M81", "add_line: continuation arguments are no longer right-trimmed",
  [(DADD, """                    line[self.prefix.len()..]
                        .trim_end_matches(char::is_whitespace)
                        .to_string(),""", """                    line[self.prefix.len()..]
                        .to_string(),""")],
  {"C15": ["R15.5"]})
M("M82", "is_txtpp_file only looks at the last extension (foo.txtpp.ext no longer a source)",
  [(PM, """                // check if the second extension is txtpp
                let mut p = self.clone();
                p.set_extension("");
                match p.extension() {
                    Some(ext) => ext == TXTPP_EXT,
                    None => false,
                }""", """                false""")],
  {"C11": ["R11.6"]})
M("N30", "add_line: starts_with + slice -> strip_prefix (equivalent)",
  [(DADD, """        if line.starts_with(&self.whitespaces) {
            let line = &line[self.whitespaces.len()..];""", """        if let Some(line) = line.strip_prefix(self.whitespaces.as_str()) {""")],
  {})
M("N31", "clean-mode handling moved from execute_directive into the line loop, tail line still re-queued",
  [(PP, """                IterDirectiveResult::Execute(d, line) => {
                    let whitespaces = d.whitespaces.clone();""", """                IterDirectiveResult::Execute(d, line) => {
                    if let Mode::Clean = self.mode {
                        // Errors are ignored in clean mode
                        let _ = self.execute_in_clean_mode(d);
                        self.execute_tail_line = line;
                        continue;
                    }
                    let whitespaces = d.whitespaces.clone();"""),
   (PP, """        if let Mode::Clean = self.mode {
            // Ignore error if in clean mode
            let _ = self.execute_in_clean_mode(d);
            return Ok(None);
        }
        let d = match self.execute_in_collect_deps_mode(d)? {""", """        let d = match self.execute_in_collect_deps_mode(d)? {""")],
  {})
M("M83", "clean-mode handling moved into the line loop and the terminating line is dropped (seeded by an independent agent: C07)",
  [(PP, """                IterDirectiveResult::Execute(d, line) => {
                    let whitespaces = d.whitespaces.clone();""", """                IterDirectiveResult::Execute(d, line) => {
                    if let Mode::Clean = self.mode {
                        // Errors are ignored in clean mode
                        let _ = self.execute_in_clean_mode(d);
                        continue;
                    }
                    let whitespaces = d.whitespaces.clone();"""),
   (PP, """        if let Mode::Clean = self.mode {
            // Ignore error if in clean mode
            let _ = self.execute_in_clean_mode(d);
            return Ok(None);
        }
        let d = match self.execute_in_collect_deps_mode(d)? {""", """        let d = match self.execute_in_collect_deps_mode(d)? {""")],
  {"C16": ["R16.4"], "C07": ["R07.5"], "C01": ["R01.5"]})
M("M84", "DepManager: an edge to an already tracked dependency is recorded but not counted (seeded by an independent agent: C02)",
  [(DEP, """            let dependers = self.in_edges.entry(dependency.clone()).or_default();
            // add depender -> dependency edge
            if dependers.insert(depender.clone()) {
                *dependency_count += 1;
            }
            added = true;""", """            added = true;
            if let Some(dependers) = self.in_edges.get_mut(dependency) {
                dependers.insert(depender.clone());
                continue;
            }
            self.in_edges
                .insert(dependency.clone(), HashSet::from([depender.clone()]));
            *dependency_count += 1;""")],
  {"C02": ["R02.8"]})

# ------------------------------------------------------------------ R01.6 pending-newline skeleton
M("M85", "pending newline is set even when the directive had a tail line (doubles a separator / joins wrongly)",
  [(PP, "                    add_newline_before_next_output = !has_tail;", "                    add_newline_before_next_output = true;\n                    let _ = has_tail;")],
  {"C01": ["R01.6"]})
M("M86", "separator written unconditionally before every chunk",
  [(PP, """                    if add_newline_before_next_output {
                        self.context.write_output(self.context.line_ending)?;
                    }""", """                    if add_newline_before_next_output || has_tail {
                        self.context.write_output(self.context.line_ending)?;
                    }""")],
  {"C01": ["R01.6"]})
M("M87", "has_tail reported although the terminating line was not re-queued",
  [(PP, """                    let has_tail = if line.is_some() {
                        self.execute_tail_line = line;
                        true
                    } else {
                        false
                    };""", """                    let has_tail = if line.is_some() {
                        self.execute_tail_line = line;
                        true
                    } else {
                        directive_output.is_none()
                    };""")],
  {"C01": ["R01.6"]})
M("N40", "module io_context renamed to ioc (via #[path]); all def paths under fs::io_context change",
  [("src/fs/mod.rs", "mod io_context;\npub use io_context::*;", "#[path = \"io_context.rs\"]\nmod ioc;\npub use ioc::*;")],
  {})
M("N41", "modules tag_state / dependency / progress renamed (via #[path])",
  [("src/core/util/mod.rs", "mod dependency;\npub use dependency::*;\nmod progress;\npub use progress::*;", "#[path = \"dependency.rs\"]\nmod depgraph;\npub use depgraph::*;\n#[path = \"progress.rs\"]\nmod prog;\npub use prog::*;"),
   ("src/core/util/mod.rs", "mod tag_state;\npub use tag_state::*;", "#[path = \"tag_state.rs\"]\nmod tags;\npub use tags::*;")],
  {})
M("N42", "module abs_path renamed (via #[path]); AbsPath and TXTPP_EXT move",
  [("src/fs/path/mod.rs", "mod abs_path;\npub use abs_path::*;", "#[path = \"abs_path.rs\"]\nmod absolute;\npub use absolute::*;")],
  {})
M("M88", "remove_txtpp re-attaches the extension with set_extension again (the pre-fix defect F4: a.b.txtpp.c -> a.c)",
  [(PM, """            let mut name = p.into_os_string();
            name.push(".");
            name.push(self_ext);
            p = PathBuf::from(name);""", """            p.set_extension(self_ext);""")],
  {"C11": ["R11.7"]})
M("M89", "remove_txtpp strips one extension too many for foo.ext.txtpp sources",
  [(PM, """        let mut p = self.clone();
        p.set_extension("");
        if matches!(p.extension(), Some(ext) if ext == TXTPP_EXT) {""", """        let mut p = self.clone();
        p.set_extension("");
        if self.to_string_lossy().len() > 4096 {
            p.set_extension("");
        }
        if matches!(p.extension(), Some(ext) if ext == TXTPP_EXT) {""")],
  {"C11": ["R11.7"]})
M("N43", "remove_txtpp appends the extension via add-by-format (OsString built with with_capacity + push)",
  [(PM, """            let mut name = p.into_os_string();
            name.push(".");""", """            let mut name = OsString::with_capacity(p.as_os_str().len() + 1 + self_ext.len());
            name.push(p.as_os_str());
            name.push(".");""")],
  {})

# ------------------------------------------------------------------ more neutral refactors (implementation-shape robustness)
M("N50", "inject_tags removes the substituted tags with retain over a set of used keys",
  [(TAG, """        for key in to_remove {
            self.stored.remove(&key);
        }""", """        self.stored.retain(|k, _| !to_remove.contains(k));""")],
  {})
M("N52", "notify_finish with inverted branches (count > 1 -> decrement, else release)",
  [(DEP, """            if *count <= 1 {
                self.out_edge_counts.remove(&depender);
                output.insert(depender);
            } else {
                *count -= 1;
            }""", """            if *count > 1 {
                *count -= 1;
            } else {
                self.out_edge_counts.remove(&depender);
                output.insert(depender);
            }""")],
  {})
M("N53", "add_dependency: nested if instead of continue",
  [(DEP, """            if self.finished.contains(dependency) {
                continue;
            }
            let dependers = self.in_edges.entry(dependency.clone()).or_default();
            // add depender -> dependency edge
            if dependers.insert(depender.clone()) {
                *dependency_count += 1;
            }
            added = true;""", """            if !self.finished.contains(dependency) {
                let dependers = self.in_edges.entry(dependency.clone()).or_default();
                // add depender -> dependency edge
                if dependers.insert(depender.clone()) {
                    *dependency_count += 1;
                }
                added = true;
            }""")],
  {})
M("N54", "line processor: pending-newline flag renamed, has_tail computed with Option::is_some() bound first",
  [(PP, "        let mut add_newline_before_next_output = false;", "        let mut pending_newline = false;"),
   (PP, """                    if add_newline_before_next_output {
                        self.context.write_output(self.context.line_ending)?;
                    }
                    add_newline_before_next_output = !has_tail;""", """                    if pending_newline {
                        self.context.write_output(self.context.line_ending)?;
                    }
                    pending_newline = !has_tail;"""),
   (PP, "        if add_newline_before_next_output && trailing_newline {", "        if pending_newline && trailing_newline {")],
  {})
M("N56", "supports_multi_line as an explicit match",
  [(DIR, """        !matches!(
            self,
            DirectiveType::After | DirectiveType::Include | DirectiveType::Tag
        )""", """        match self {
            DirectiveType::After | DirectiveType::Include | DirectiveType::Tag => false,
            _ => true,
        }""")],
  {})
M("N57", "detect_from: directive name taken with strip_prefix(TXTPP_HASH) after the find",
  [(DFROM, "        let directive_name = &line[TXTPP_HASH.len()..];", "        let directive_name = line.strip_prefix(TXTPP_HASH).unwrap_or(line);")],
  {})
M("N58", "verify compares slices: buf.as_slice() != output.as_bytes()",
  [(IO, "                if buf != output.as_bytes() {", "                if buf.as_slice() != output.as_bytes() {")],
  {})
M("N60", "execute_file counts the task after computing the display name (still before the spawn)",
  [(EX, """        let _ = self.progress.add_total(1);
        let file_target = file.trim_txtpp().map_err(|e| {
            e.change_context(TxtppError)
                .attach_printable("cannot trim txtpp extension")
        })?;""", """        let file_target = file.trim_txtpp().map_err(|e| {
            e.change_context(TxtppError)
                .attach_printable("cannot trim txtpp extension")
        })?;
        let _ = self.progress.add_total(1);""")],
  {})
M("N61", "try_store written with if let + take()",
  [(TAG, """        match &self.listening {
            Some(tag) => {
                self.stored.insert(tag.clone(), content.to_string());
                self.listening = None;
                Ok(())
            }
            None => Err(()),
        }""", """        if let Some(tag) = self.listening.take() {
            self.stored.insert(tag, content.to_string());
            Ok(())
        } else {
            Err(())
        }""")],
  {})
M("N62", "Shell::run builds the Command in steps (let mut cmd) instead of one chain",
  [(SH, """        let result = Command::new(&self.exe)
            .current_dir(normalize_path(&work_dir.as_path().display().to_string()))
            .args(&self.args)
            .arg(command)
            .env(TXTPP_FILE, file)
            .output()""", """        let mut cmd = Command::new(&self.exe);
        cmd.current_dir(normalize_path(&work_dir.as_path().display().to_string()));
        cmd.args(&self.args);
        cmd.arg(command);
        cmd.env(TXTPP_FILE, file);
        let result = cmd
            .output()""")],
  {})
M("N63", "scan_dir: early `continue` style instead of nested ifs",
  [(SCAN, """        if path.is_file() {
            if path.is_txtpp_file() {
                let path_abs = dir.share_base(path)?;
                directory.files.push(path_abs);
            }
        } else if path.is_dir() && recursive {
            let path_abs = dir.share_base(path)?;
            directory.subdirs.push(path_abs);
        }""", """        if path.is_file() {
            if !path.is_txtpp_file() {
                continue;
            }
            let path_abs = dir.share_base(path)?;
            directory.files.push(path_abs);
            continue;
        }
        if !recursive || !path.is_dir() {
            continue;
        }
        let path_abs = dir.share_base(path)?;
        directory.subdirs.push(path_abs);""")],
  {})
M("N64", "done(): InMemoryBuild arm restructured with an `up_to_date` bool",
  [(IO, """                if path.as_path().exists() {
                    let current_content = fs::read(path.as_path())
                        .change_context_lazy(|| make_error!(self, PpErrorKind::ReadFile))
                        .attach_printable_lazy(|| {
                            format!("could not read existing output file: `{}`", path.display())
                        })?; // early return because if we can't read it, we probably can't write it either
                    if current_content == out.as_bytes() {
                        log::debug!("output file already exists with same content, skipping");
                        return Ok(());
                    }
                }""", """                let up_to_date = if path.as_path().exists() {
                    let current_content = fs::read(path.as_path())
                        .change_context_lazy(|| make_error!(self, PpErrorKind::ReadFile))
                        .attach_printable_lazy(|| {
                            format!("could not read existing output file: `{}`", path.display())
                        })?; // early return because if we can't read it, we probably can't write it either
                    current_content == out.as_bytes()
                } else {
                    false
                };
                if up_to_date {
                    log::debug!("output file already exists with same content, skipping");
                    return Ok(());
                }""")],
  {})
M("M90", "Txtpp::run no longer sets has_error after a failure (Drop spins forever: the failed result was counted twice)",
  [(EX, """            runtime.progress.has_error = true;
        }""", """        }""")],
  {"C18": ["R18.4"]})
M("M91", "Drop ignores has_error when draining",
  [(EX, "                    if self.progress.is_done() || self.progress.has_error {", "                    if self.progress.is_done() {")],
  {"C18": ["R18.4"]})
M("M92", "coordinator waits with a blocking recv() when the channel is empty",
  [(EX, """                    // no data available, wait for a bit
                    std::thread::sleep(std::time::Duration::from_millis(100));
                    continue;
                }
                Err(TryRecvError::Disconnected) => {
                    // workers are disconnected unexpectedly""", """                    // no data available, wait for the next result
                    if let Ok(extra) = self.recv.recv() {
                        let _ = extra;
                    }
                    continue;
                }
                Err(TryRecvError::Disconnected) => {
                    // workers are disconnected unexpectedly""")],
  {"C18": ["R18.4"]})
M("N65", "format_directive_output as an explicit loop with a `first` flag (correct separator placement)",
  [(PP, """        let mut output = raw_output
            .map(|s| format!("{whitespaces}{line}", line = s.as_ref()))
            .collect::<Vec<_>>()
            .join(self.context.line_ending);""", """        let mut output = String::new();
        let mut first = true;
        for line in raw_output {
            if !first {
                output.push_str(self.context.line_ending);
            }
            first = false;
            output.push_str(whitespaces);
            output.push_str(line.as_ref());
        }""")],
  {})
M("M93", "format_directive_output as a loop that places separators by testing the accumulated output (leading blank lines vanish; seeded by an independent agent: C01)",
  [(PP, """        let mut output = raw_output
            .map(|s| format!("{whitespaces}{line}", line = s.as_ref()))
            .collect::<Vec<_>>()
            .join(self.context.line_ending);""", """        let mut output = String::new();
        for line in raw_output {
            if !output.is_empty() {
                output.push_str(self.context.line_ending);
            }
            output.push_str(whitespaces);
            output.push_str(line.as_ref());
        }""")],
  {"C12": ["R12.3"]})
M("N66", "add_line: continuation argument via strip_prefix forms (prefix once / spaces) instead of slicing",
  [(DADD, """            if line.starts_with(&self.prefix) || line.starts_with(&" ".repeat(self.prefix.len())) {
                self.args.push(
                    line[self.prefix.len()..]
                        .trim_end_matches(char::is_whitespace)
                        .to_string(),
                );
                return Ok(());
            }""", """            let arg = line
                .strip_prefix(self.prefix.as_str())
                .or_else(|| line.strip_prefix(" ".repeat(self.prefix.len()).as_str()));
            if let Some(arg) = arg {
                self.args
                    .push(arg.trim_end_matches(char::is_whitespace).to_string());
                return Ok(());
            }""")],
  {})
M("M94", "add_line strips the prefix repeatedly (trim_start_matches): escaped lines starting with the prefix lose characters (seeded by an independent agent: C16)",
  [(DADD, """                    line[self.prefix.len()..]
                        .trim_end_matches(char::is_whitespace)""", """                    line.trim_start_matches(self.prefix.as_str())
                        .trim_end_matches(char::is_whitespace)""")],
  {"C15": ["R15.5"]})

# ------------------------------------------------------------------ delegated rules: the same mutants must also fire them
def _also(mid, extra):
    for m in MUTANTS:
        if m["id"] == mid:
            for p, rs in extra.items():
                m["expect"].setdefault(p, [])
                for r in rs:
                    if r not in m["expect"][p]:
                        m["expect"][p].append(r)


_also("M34", {"C01": ["R01.7"], "C16": ["R16.2"]})
_also("M93", {"C01": ["R01.8"]})
_also("M44", {"C16": ["R16.5"]})
_also("M94", {"C16": ["R16.6"]})
_also("M81", {"C16": ["R16.6"]})
_also("M12", {"C17": ["R17.3"]})
_also("M47b", {"C14": ["R14.5"]})
_also("M47c", {"C14": ["R14.5"]})
_also("M07", {"C11": ["R11.4"]})
_also("M08", {"C11": ["R11.4"]})
_also("M04", {"C05": ["R05.2"]})
_also("M09b", {"C05": ["R05.3"]})
_also("M09c", {"C05": ["R05.3"]})
_also("M05", {"C08": ["R08.3"]})
_also("M06b", {"C08": ["R08.3"]})
_also("M10", {"C04": ["R04.2"]})
_also("M11", {"C04": ["R04.2"]})
_also("M15", {"C04": ["R04.2"]})
_also("M37b", {"C12": ["R12.5"]})
_also("M83", {"C16": ["R16.4"]})

M("M95", "a self-dependency found while collecting is reported at once as a worker error (seeded by an independent agent: C05)",
  [(PP, """                match &mut self.pp_mode {
                    PpMode::CollectDeps(deps) => {""", """                if p_abs == self.input_file {
                    return Err(
                        Report::new(self.context.make_error(PpErrorKind::Directive))
                            .attach_printable(format!("`{arg}` is the output of this file. A file cannot depend on its own output.")),
                    );
                }
                match &mut self.pp_mode {
                    PpMode::CollectDeps(deps) => {""")],
  {"C05": ["R05.4"]})
M("M96", "existing temp file read with take(contents.len()) before the comparison (prefix compare; seeded by an independent agent: C08)",
  [(IO, """            let current_content = fs::read(&export_file)
                .change_context_lazy(|| make_error!(self, PpErrorKind::ReadFile))""", """            let mut current_content = Vec::new();
            File::open(&export_file)
                .and_then(|f| f.take(contents.len() as u64).read_to_end(&mut current_content))
                .change_context_lazy(|| make_error!(self, PpErrorKind::ReadFile))""")],
  {"C08": ["R08.2"]})
M("M97", "clean also resolves include dependencies (dependency collection in Clean mode)",
  [(PP, """        if let Mode::Clean = self.mode {
            // Ignore error if in clean mode
            let _ = self.execute_in_clean_mode(d);
            return Ok(None);
        }""", """        if let Mode::Clean = self.mode {
            if let DirectiveType::Include = d.directive_type {
                let _ = self.execute_in_collect_deps_mode(d);
                return Ok(None);
            }
            // Ignore error if in clean mode
            let _ = self.execute_in_clean_mode(d);
            return Ok(None);
        }""")],
  {"C11": ["R11.5"], "C07": ["R07.1"]})
M("M98", "only Preprocess results are counted as done (directory scans never complete: hang)",
  [(EX, """            let _ = self.progress.add_done(1);

            match data {
                TaskResult::ScanDir(result) => {""", """            match data {
                TaskResult::ScanDir(result) => {"""),
   (EX, """                TaskResult::Preprocess(result) => {
                    let preprocess_result = result.map_err(|e| {""", """                TaskResult::Preprocess(result) => {
                    let _ = self.progress.add_done(1);
                    let preprocess_result = result.map_err(|e| {""")],
  {"C03": ["R03.3"]})

# ------------------------------------------------------------------ R12.7 (decision structure of the line-ending sniffer)
M("M99", "sniffer answers CRLF whenever the last but one byte is \\r (the last byte is not looked at first)",
  [("src/fs/line_ending.rs", """            if buf[len - 1] == b'\\n' {
                if buf[len - 2] == b'\\r' {
                    CRLF
                } else {
                    LF
                }
            } else {
                OS_LINE_ENDING
            }""", """            if buf[len - 2] == b'\\r' {
                CRLF
            } else if buf[len - 1] == b'\\n' {
                LF
            } else {
                OS_LINE_ENDING
            }""")],
  {"C12": ["R12.7"]})
M("M100", "sniffer compares the FIRST two bytes with \\r\\n instead of the last two",
  [("src/fs/line_ending.rs", """                if buf[len - 2] == b'\\r' {""", """                if buf[0] == b'\\r' {""")],
  {"C12": ["R12.7"]})
M("M101", "sniffer: the LF answer comes first (a line ending in \\r\\n is answered LF)",
  [("src/fs/line_ending.rs", """            if buf[len - 1] == b'\\n' {
                if buf[len - 2] == b'\\r' {
                    CRLF
                } else {
                    LF
                }
            } else {
                OS_LINE_ENDING
            }""", """            if buf[len - 1] == b'\\n' {
                LF
            } else if buf[len - 2] == b'\\r' {
                CRLF
            } else {
                OS_LINE_ENDING
            }""")],
  {"C12": ["R12.7"]})
M("N67", "sniffer written with ends_with on the first line's bytes",
  [("src/fs/line_ending.rs", """    match len {
        0 => OS_LINE_ENDING,
        1 => {
            if buf[0] == b'\\n' {
                LF
            } else {
                OS_LINE_ENDING
            }
        }
        _ => {
            if buf[len - 1] == b'\\n' {
                if buf[len - 2] == b'\\r' {
                    CRLF
                } else {
                    LF
                }
            } else {
                OS_LINE_ENDING
            }
        }
    }""", """    let line = &buf[..len];
    if line.ends_with(b"\\r\\n") {
        CRLF
    } else if line.ends_with(b"\\n") {
        LF
    } else {
        OS_LINE_ENDING
    }""")],
  {})
M("N68", "sniffer written with slice patterns",
  [("src/fs/line_ending.rs", """    match len {
        0 => OS_LINE_ENDING,
        1 => {
            if buf[0] == b'\\n' {
                LF
            } else {
                OS_LINE_ENDING
            }
        }
        _ => {
            if buf[len - 1] == b'\\n' {
                if buf[len - 2] == b'\\r' {
                    CRLF
                } else {
                    LF
                }
            } else {
                OS_LINE_ENDING
            }
        }
    }""", """    match &buf[..len] {
        [.., b'\\r', b'\\n'] => CRLF,
        [.., b'\\n'] => LF,
        _ => OS_LINE_ENDING,
    }""")],
  {})

# ------------------------------------------------------------------ CLI plumbing (src/main.rs)
M("M102", "the verify subcommand selects Mode::Build (txtpp verify rewrites files)",
  [(MAIN, """                config.mode = Mode::Verify;""", """                config.mode = Mode::Build;""")],
  {"C06": ["R06.4"]})
M("M103", "the clean subcommand selects Mode::Verify",
  [(MAIN, """                config.mode = Mode::Clean;""", """                config.mode = Mode::Verify;""")],
  {"C06": ["R06.4"], "C07": ["R07.9"]})
M("M104", "--recursive is inverted on its way into Config",
  [(MAIN, """        config.recursive = self.recursive;""", """        config.recursive = !self.recursive;""")],
  {"C11": ["R11.11"]})
M("M105", "the positional inputs are replaced by the current directory when more than one is given",
  [(MAIN, """        config.inputs = self.inputs.clone();""", """        config.inputs = if self.inputs.len() > 1 { vec![".".to_string()] } else { self.inputs.clone() };""")],
  {"C11": ["R11.11"]})

