//! txtpp-facts: a rustc_private driver that dumps the type-checked program (MIR at
//! mir-opt-level 0 plus ADT tables) of every workspace crate it compiles as one JSON
//! fact file per rustc process.  It runs nothing and decides nothing: the rules live in
//! /verif/rules (Python).  Injected through RUSTC_WORKSPACE_WRAPPER (argv[1] = real rustc).
#![feature(rustc_private)]
#![allow(clippy::all)]

extern crate rustc_abi;
extern crate rustc_driver;
extern crate rustc_hir;
extern crate rustc_interface;
extern crate rustc_middle;
extern crate rustc_span;

use rustc_driver::{Callbacks, Compilation};
use rustc_hir::def::DefKind;
use rustc_hir::def_id::DefId;
use rustc_interface::interface::Compiler;
use rustc_middle::mir::{self, Operand, Place, ProjectionElem, Rvalue, StatementKind, TerminatorKind};
use rustc_middle::ty::print::{with_no_trimmed_paths, with_resolve_crate_name};

macro_rules! np {
    ($e:expr) => {
        with_no_trimmed_paths!(with_resolve_crate_name!($e))
    };
}
use rustc_middle::ty::{self, Ty, TyCtxt};
use rustc_span::Span;
use std::fmt::Write as _;

// ---------------------------------------------------------------- tiny JSON
enum J {
    Null,
    Bool(bool),
    Num(i128),
    Str(String),
    Arr(Vec<J>),
    Obj(Vec<(&'static str, J)>),
}
fn s<T: Into<String>>(x: T) -> J {
    J::Str(x.into())
}
fn n<T: TryInto<i128>>(x: T) -> J {
    J::Num(x.try_into().ok().unwrap_or(-1))
}
fn opt(x: Option<J>) -> J {
    x.unwrap_or(J::Null)
}
impl J {
    fn write(&self, out: &mut String) {
        match self {
            J::Null => out.push_str("null"),
            J::Bool(b) => out.push_str(if *b { "true" } else { "false" }),
            J::Num(i) => {
                let _ = write!(out, "{}", i);
            }
            J::Str(st) => {
                out.push('"');
                for c in st.chars() {
                    match c {
                        '"' => out.push_str("\\\""),
                        '\\' => out.push_str("\\\\"),
                        '\n' => out.push_str("\\n"),
                        '\r' => out.push_str("\\r"),
                        '\t' => out.push_str("\\t"),
                        c if (c as u32) < 0x20 => {
                            let _ = write!(out, "\\u{:04x}", c as u32);
                        }
                        c => out.push(c),
                    }
                }
                out.push('"');
            }
            J::Arr(v) => {
                out.push('[');
                for (i, x) in v.iter().enumerate() {
                    if i > 0 {
                        out.push(',');
                    }
                    x.write(out);
                }
                out.push(']');
            }
            J::Obj(v) => {
                out.push('{');
                for (i, (k, x)) in v.iter().enumerate() {
                    if i > 0 {
                        out.push(',');
                    }
                    let _ = write!(out, "\"{}\":", k);
                    x.write(out);
                }
                out.push('}');
            }
        }
    }
}

// ---------------------------------------------------------------- extraction
struct Cx<'tcx> {
    tcx: TyCtxt<'tcx>,
}

fn ty_str<'tcx>(t: Ty<'tcx>) -> String {
    np!(format!("{}", t))
}

impl<'tcx> Cx<'tcx> {
    fn path(&self, d: DefId) -> String {
        np!(self.tcx.def_path_str(d))
    }

    /// definition path (crate name + the path of the definition itself): the same for an item seen from its own crate and from a
    /// crate that reaches it through a re-export
    fn dp(&self, d: DefId) -> String {
        format!("{}{}", self.tcx.crate_name(d.krate), self.tcx.def_path(d).to_string_no_crate_verbose())
    }

    fn span(&self, sp: Span) -> J {
        let sm = self.tcx.sess.source_map();
        // the call-site span in user code when the span comes from a macro expansion
        let user = sp.source_callsite();
        let lo = sm.lookup_char_pos(user.lo());
        let file = format!("{}", lo.file.name.prefer_remapped_unconditionally());
        let mac = if sp.from_expansion() {
            match sp.ctxt().outer_expn_data().macro_def_id {
                Some(d) => s(self.path(d)),
                None => s(format!("{:?}", sp.ctxt().outer_expn_data().kind)),
            }
        } else {
            J::Null
        };
        // every macro of the expansion backtrace, innermost first (`cfg` inside `debug_assert`): only where there is more than one
        let macs: Vec<J> = if sp.from_expansion() {
            sp.macro_backtrace().filter_map(|e| e.macro_def_id.map(|d| s(self.path(d)))).collect()
        } else {
            vec![]
        };
        let mut o = vec![
            ("file", s(file)),
            ("line", n(lo.line)),
            ("col", n(lo.col.0 + 1)),
            ("exp", J::Bool(sp.from_expansion())),
            ("macro", mac),
        ];
        if macs.len() > 1 {
            o.push(("macros", J::Arr(macs)));
        }
        J::Obj(o)
    }

    /// peeled ADT def path of a type (through refs, Box is an ADT itself)
    fn ty_info(&self, t: Ty<'tcx>) -> Vec<(&'static str, J)> {
        let mut v = vec![("ty", s(ty_str(t)))];
        let p = t.peel_refs();
        match p.kind() {
            ty::Adt(def, _) => v.push(("adt", s(self.path(def.did())))),
            ty::Closure(d, _) => v.push(("closure", s(self.path(*d)))),
            ty::FnDef(d, _) => v.push(("fndef", s(self.path(*d)))),
            _ => {}
        }
        v
    }

    fn place(&self, body: &mir::Body<'tcx>, pl: &Place<'tcx>) -> J {
        let mut proj = vec![];
        for (i, elem) in pl.projection.iter().enumerate() {
            let base = mir::PlaceRef { local: pl.local, projection: &pl.projection[..i] };
            let bty = base.ty(&body.local_decls, self.tcx);
            let j = match elem {
                ProjectionElem::Deref => J::Obj(vec![("k", s("deref"))]),
                ProjectionElem::Field(f, fty) => {
                    let mut o = vec![("k", s("field")), ("i", n(f.as_usize())), ("fty", s(ty_str(fty)))];
                    match bty.ty.kind() {
                        ty::Adt(def, _) => {
                            o.push(("owner", s(self.path(def.did()))));
                            let vi = bty.variant_index.unwrap_or(rustc_abi::FIRST_VARIANT);
                            if def.is_enum() {
                                o.push(("variant", s(def.variant(vi).name.to_string())));
                                o.push(("vi", n(vi.as_usize())));
                            }
                            if vi.as_usize() < def.variants().len() {
                                let var = def.variant(vi);
                                if f.as_usize() < var.fields.len() {
                                    o.push(("name", s(var.fields[f].name.to_string())));
                                }
                            }
                        }
                        ty::Closure(d, _) => {
                            o.push(("owner", s(self.path(*d))));
                            o.push(("upvar", J::Bool(true)));
                        }
                        ty::Tuple(_) => o.push(("owner", s("(tuple)"))),
                        _ => o.push(("owner", s(ty_str(bty.ty)))),
                    }
                    J::Obj(o)
                }
                ProjectionElem::Index(l) => J::Obj(vec![("k", s("index")), ("l", n(l.as_usize()))]),
                ProjectionElem::ConstantIndex { offset, min_length, from_end } => J::Obj(vec![
                    ("k", s("constindex")),
                    ("offset", n(offset)),
                    ("min", n(min_length)),
                    ("from_end", J::Bool(from_end)),
                ]),
                ProjectionElem::Subslice { from, to, from_end } => J::Obj(vec![
                    ("k", s("subslice")),
                    ("from", n(from)),
                    ("to", n(to)),
                    ("from_end", J::Bool(from_end)),
                ]),
                ProjectionElem::Downcast(name, vi) => J::Obj(vec![
                    ("k", s("downcast")),
                    ("vi", n(vi.as_usize())),
                    ("variant", opt(name.map(|x| s(x.to_string())))),
                    ("owner", match bty.ty.kind() {
                        ty::Adt(def, _) => s(self.path(def.did())),
                        _ => J::Null,
                    }),
                ]),
                _ => J::Obj(vec![("k", s("other"))]),
            };
            proj.push(j);
        }
        J::Obj(vec![("l", n(pl.local.as_usize())), ("p", J::Arr(proj))])
    }

    fn resolve(&self, owner: DefId, d: DefId, args: ty::GenericArgsRef<'tcx>) -> Option<ty::Instance<'tcx>> {
        let env = ty::TypingEnv::post_analysis(self.tcx, owner);
        // generic (non-monomorphic) arguments may make resolution ambiguous: that is fine
        match std::panic::catch_unwind(std::panic::AssertUnwindSafe(|| {
            ty::Instance::try_resolve(self.tcx, env, d, args).ok().flatten()
        })) {
            Ok(x) => x,
            Err(_) => None,
        }
    }

    fn fn_ref(&self, owner: DefId, d: DefId, args: ty::GenericArgsRef<'tcx>) -> Vec<(&'static str, J)> {
        let mut o = vec![
            ("path", s(self.path(d))),
            ("full", s(np!(self.tcx.def_path_str_with_args(d, args)))),
            ("krate", s(self.tcx.crate_name(d.krate).to_string())),
            ("local", J::Bool(d.is_local())),
        ];
        if let Some(inst) = self.resolve(owner, d, args) {
            let rd = inst.def_id();
            o.push(("rpath", s(self.path(rd))));
            o.push(("rfull", s(np!(self.tcx.def_path_str_with_args(rd, inst.args)))));
            o.push(("rkrate", s(self.tcx.crate_name(rd.krate).to_string())));
            o.push(("rlocal", J::Bool(rd.is_local())));
            // a function of the sibling crate of the same package (the library as seen from the binary): its definition path, which
            // does not depend on the re-export it was named through
            if !rd.is_local() && self.tcx.crate_name(rd.krate) == self.tcx.crate_name(rustc_hir::def_id::LOCAL_CRATE) {
                o.push(("rdp", s(self.dp(rd))));
            }
            let shim = !matches!(inst.def, ty::InstanceKind::Item(_));
            o.push(("shim", J::Bool(shim)));
        }
        // generic args as type strings (first few), e.g. the Self type of a trait method
        let targs: Vec<J> = args.iter().filter_map(|a| a.as_type()).map(|t| J::Obj(self.ty_info(t))).collect();
        o.push(("targs", J::Arr(targs)));
        // tuple-variant / tuple-struct constructors used as functions (`.map(Some)`): which aggregate they build
        if let DefKind::Ctor(of, _) = self.tcx.def_kind(d) {
            let (adt_did, vi) = match of {
                rustc_hir::def::CtorOf::Variant => {
                    let adt_did = self.tcx.parent(self.tcx.parent(d));
                    let adt = self.tcx.adt_def(adt_did);
                    (adt_did, adt.variant_index_with_ctor_id(d).as_usize())
                }
                rustc_hir::def::CtorOf::Struct => (self.tcx.parent(d), 0usize),
            };
            let adt = self.tcx.adt_def(adt_did);
            let v = adt.variant(rustc_abi::VariantIdx::from_usize(vi));
            o.push(("ctor", J::Obj(vec![
                ("adt", s(self.path(adt_did))),
                ("vi", J::Num(vi as i128)),
                ("variant", s(v.name.to_string())),
                ("fields", J::Arr(v.fields.iter().map(|f| s(f.name.to_string())).collect())),
            ])));
        }
        o
    }

    fn operand(&self, owner: DefId, body: &mir::Body<'tcx>, op: &Operand<'tcx>) -> J {
        match op {
            Operand::Copy(p) => J::Obj(vec![("k", s("copy")), ("pl", self.place(body, p))]),
            Operand::Move(p) => J::Obj(vec![("k", s("move")), ("pl", self.place(body, p))]),
            Operand::Constant(c) => {
                let cty = c.const_.ty();
                let mut o = vec![("k", s("const")), ("v", s(np!(format!("{}", c.const_)))), ("ty", s(ty_str(cty)))];
                if let ty::FnDef(d, a) = cty.kind() {
                    o.push(("fn", J::Obj(self.fn_ref(owner, *d, a))));
                }
                if let ty::Closure(d, _) = cty.kind() {
                    o.push(("closure", s(self.path(*d))));
                }
                // evaluate named constants (TXTPP_HASH, verbs::*, …) to their value
                if let mir::Const::Unevaluated(uv, _) = c.const_ {
                    o.push(("named", s(self.path(uv.def))));
                    let env = ty::TypingEnv::post_analysis(self.tcx, owner);
                    if let Ok(val) = c.const_.eval(self.tcx, env, c.span) {
                        let ev = mir::Const::Val(val, cty);
                        o.push(("ev", s(np!(format!("{}", ev)))));
                        if let Some(v) = self.enum_ref_variant(val, cty) {
                            o.push(("enum_variant", s(v)));
                        }
                        if let Some(v) = self.ref_ref_str(val, cty) {
                            o.push(("ev", s(format!("{:?}", v))));
                        }
                    }
                }
                if let mir::Const::Val(val, _) = c.const_ {
                    if let Some(v) = self.enum_ref_variant(val, cty) {
                        o.push(("enum_variant", s(v)));
                    }
                }
                J::Obj(o)
            }
            _ => J::Obj(vec![("k", s("runtime_checks"))]),
        }
    }

    /// `&Enum::Variant` promoted constants of field-less crate enums: name of the variant
    fn enum_ref_variant(&self, val: mir::ConstValue, ty: Ty<'tcx>) -> Option<String> {
        let inner = match ty.kind() {
            ty::Ref(_, t, _) => *t,
            _ => return None,
        };
        let def = match inner.kind() {
            ty::Adt(d, _) if d.is_enum() && d.did().is_local() => *d,
            _ => return None,
        };
        if !def.variants().iter().all(|v| v.fields.is_empty()) {
            return None;
        }
        let ptr = match val {
            mir::ConstValue::Scalar(rustc_middle::mir::interpret::Scalar::Ptr(p, _)) => p,
            _ => return None,
        };
        let (prov, off) = ptr.prov_and_relative_offset();
        let alloc = match self.tcx.global_alloc(prov.alloc_id()) {
            rustc_middle::mir::interpret::GlobalAlloc::Memory(m) => m,
            _ => return None,
        };
        let a = alloc.inner();
        let start = off.bytes() as usize;
        let size = a.len() - start;
        if size == 0 || size > 8 {
            return None;
        }
        let bytes = a.inspect_with_uninit_and_ptr_outside_interpreter(start..start + size);
        let mut v: u128 = 0;
        for (i, b) in bytes.iter().enumerate() {
            v |= (*b as u128) << (8 * i);
        }
        for (vi, var) in def.variants().iter_enumerated() {
            if def.discriminant_for_variant(self.tcx, vi).val == v {
                return Some(var.name.to_string());
            }
        }
        None
    }

    /// promoted `&&str` constants (e.g. the right-hand side of `ext == TXTPP_EXT`): the string
    fn ref_ref_str(&self, val: mir::ConstValue, ty: Ty<'tcx>) -> Option<String> {
        let inner = match ty.kind() {
            ty::Ref(_, t, _) => *t,
            _ => return None,
        };
        match inner.kind() {
            ty::Ref(_, t, _) if t.is_str() => {}
            _ => return None,
        }
        let ptr = match val {
            mir::ConstValue::Scalar(rustc_middle::mir::interpret::Scalar::Ptr(p, _)) => p,
            _ => return None,
        };
        let (prov, off) = ptr.prov_and_relative_offset();
        let alloc = match self.tcx.global_alloc(prov.alloc_id()) {
            rustc_middle::mir::interpret::GlobalAlloc::Memory(m) => m,
            _ => return None,
        };
        let a = alloc.inner();
        let start = off.bytes() as usize;
        if a.len() < start + 16 {
            return None;
        }
        let raw = a.inspect_with_uninit_and_ptr_outside_interpreter(start..start + 16);
        let mut inner_off: u64 = 0;
        let mut len: u64 = 0;
        for i in 0..8 {
            inner_off |= (raw[i] as u64) << (8 * i);
            len |= (raw[8 + i] as u64) << (8 * i);
        }
        let mut target = None;
        for (o, p) in a.provenance().ptrs().iter() {
            if o.bytes() as usize == start {
                target = Some(p.alloc_id());
            }
        }
        let talloc = match self.tcx.global_alloc(target?) {
            rustc_middle::mir::interpret::GlobalAlloc::Memory(m) => m,
            _ => return None,
        };
        let ta = talloc.inner();
        let (b, e) = (inner_off as usize, (inner_off + len) as usize);
        if e > ta.len() {
            return None;
        }
        let bytes = ta.inspect_with_uninit_and_ptr_outside_interpreter(b..e);
        String::from_utf8(bytes.to_vec()).ok()
    }

    fn rvalue(&self, owner: DefId, body: &mir::Body<'tcx>, rv: &Rvalue<'tcx>) -> J {
        match rv {
            Rvalue::Use(op, _) => J::Obj(vec![("k", s("use")), ("op", self.operand(owner, body, op))]),
            Rvalue::Repeat(op, _) => J::Obj(vec![("k", s("repeat")), ("op", self.operand(owner, body, op))]),
            Rvalue::Ref(_, bk, p) => J::Obj(vec![
                ("k", s("ref")),
                ("mut", J::Bool(matches!(bk, mir::BorrowKind::Mut { .. }))),
                ("pl", self.place(body, p)),
            ]),
            Rvalue::RawPtr(_, p) => J::Obj(vec![("k", s("rawptr")), ("pl", self.place(body, p))]),
            Rvalue::Cast(ck, op, t) => J::Obj(vec![
                ("k", s("cast")),
                ("ck", s(format!("{:?}", ck))),
                ("op", self.operand(owner, body, op)),
                ("ty", s(ty_str(*t))),
            ]),
            Rvalue::BinaryOp(bop, ab) => J::Obj(vec![
                ("k", s("binop")),
                ("op", s(format!("{:?}", bop))),
                ("a", self.operand(owner, body, &ab.0)),
                ("b", self.operand(owner, body, &ab.1)),
            ]),
            Rvalue::UnaryOp(uop, a) => J::Obj(vec![
                ("k", s("unop")),
                ("op", s(format!("{:?}", uop))),
                ("a", self.operand(owner, body, a)),
            ]),
            Rvalue::Discriminant(p) => {
                let pty = p.ty(&body.local_decls, self.tcx).ty;
                let mut o = vec![("k", s("discriminant")), ("pl", self.place(body, p))];
                o.extend(self.ty_info(pty));
                J::Obj(o)
            }
            Rvalue::Aggregate(kind, ops) => {
                let agg = match &**kind {
                    mir::AggregateKind::Array(_) => J::Obj(vec![("k", s("array"))]),
                    mir::AggregateKind::Tuple => J::Obj(vec![("k", s("tuple"))]),
                    mir::AggregateKind::Adt(d, vi, _, _, _) => {
                        let def = self.tcx.adt_def(*d);
                        let var = def.variant(*vi);
                        J::Obj(vec![
                            ("k", s("adt")),
                            ("adt", s(self.path(*d))),
                            ("vi", n(vi.as_usize())),
                            ("variant", s(var.name.to_string())),
                            ("fields", J::Arr(var.fields.iter().map(|f| s(f.name.to_string())).collect())),
                        ])
                    }
                    mir::AggregateKind::Closure(d, _) => J::Obj(vec![("k", s("closure")), ("def", s(self.path(*d)))]),
                    _ => J::Obj(vec![("k", s("other"))]),
                };
                J::Obj(vec![
                    ("k", s("aggregate")),
                    ("agg", agg),
                    ("ops", J::Arr(ops.iter().map(|o| self.operand(owner, body, o)).collect())),
                ])
            }
            Rvalue::CopyForDeref(p) => J::Obj(vec![("k", s("copyforderef")), ("pl", self.place(body, p))]),
            Rvalue::ThreadLocalRef(d) => J::Obj(vec![("k", s("tls")), ("def", s(self.path(*d)))]),
            _ => J::Obj(vec![("k", s("other"))]),
        }
    }

    fn body(&self, did: DefId) -> J {
        let tcx = self.tcx;
        let ldid = did.expect_local();
        let body: &mir::Body<'tcx> = tcx.optimized_mir(did);
        let kind = tcx.def_kind(did);
        let mut o: Vec<(&'static str, J)> = vec![
            ("name", s(self.path(did))),
            ("dp", s(self.dp(did))),
            ("kind", s(format!("{:?}", kind))),
            ("span", self.span(tcx.def_span(did))),
            ("arg_count", n(body.arg_count)),
        ];
        if kind == DefKind::Closure {
            let parent = tcx.typeck_root_def_id(did);
            o.push(("root", s(self.path(parent))));
            o.push(("parent", s(self.path(tcx.parent(did)))));
            let cty = tcx.type_of(did).instantiate_identity().skip_norm_wip();
            if let ty::Closure(_, a) = cty.kind() {
                let ups: Vec<J> = a.as_closure().upvar_tys().iter().map(|t| J::Obj(self.ty_info(t))).collect();
                o.push(("upvars", J::Arr(ups)));
            }
        } else {
            // visibility and "is this a trait impl method" for entry-point discovery
            if matches!(kind, DefKind::Fn | DefKind::AssocFn) {
                o.push(("vis", s(format!("{:?}", tcx.visibility(did)))));
            }
            if let Some(impl_did) = tcx.impl_of_assoc(did) {
                if let Some(tr) = tcx.impl_opt_trait_ref(impl_did) {
                    let tr = tr.instantiate_identity().skip_norm_wip();
                    o.push(("impl_trait", s(self.path(tr.def_id))));
                    o.push(("impl_self", s(ty_str(tr.self_ty()))));
                }
            }
        }
        // is the item (or an ancestor module) under #[cfg(test)] / #[test]?  -> crate-level flag only
        let _ = ldid;

        // locals
        let mut names: Vec<Option<String>> = vec![None; body.local_decls.len()];
        for vdi in &body.var_debug_info {
            if let mir::VarDebugInfoContents::Place(p) = &vdi.value {
                if p.projection.is_empty() {
                    names[p.local.as_usize()] = Some(vdi.name.to_string());
                }
            }
        }
        let mut locals = vec![];
        for (l, d) in body.local_decls.iter_enumerated() {
            let mut lo = self.ty_info(d.ty);
            if let Some(nm) = &names[l.as_usize()] {
                lo.push(("name", s(nm.clone())));
            }
            let _ = d;
            locals.push(J::Obj(lo));
        }
        o.push(("locals", J::Arr(locals)));
        // upvar debug names (closure captured variables)
        let mut upnames = vec![];
        for vdi in &body.var_debug_info {
            if let mir::VarDebugInfoContents::Place(p) = &vdi.value {
                if !p.projection.is_empty() {
                    upnames.push(J::Obj(vec![("name", s(vdi.name.to_string())), ("pl", self.place(body, p))]));
                }
            }
        }
        o.push(("debug_places", J::Arr(upnames)));

        // blocks
        let mut blocks = vec![];
        for (_bb, data) in body.basic_blocks.iter_enumerated() {
            let mut stmts = vec![];
            for st in &data.statements {
                match &st.kind {
                    StatementKind::Assign(b) => {
                        let (pl, rv) = &**b;
                        stmts.push(J::Obj(vec![
                            ("k", s("assign")),
                            ("lhs", self.place(body, pl)),
                            ("rv", self.rvalue(did, body, rv)),
                            ("span", self.span(st.source_info.span)),
                        ]));
                    }
                    StatementKind::SetDiscriminant { place, variant_index } => {
                        stmts.push(J::Obj(vec![
                            ("k", s("setdiscr")),
                            ("lhs", self.place(body, place)),
                            ("vi", n(variant_index.as_usize())),
                            ("span", self.span(st.source_info.span)),
                        ]));
                    }
                    _ => {}
                }
            }
            let term = data.terminator();
            let sp = self.span(term.source_info.span);
            let unwind_bb = |u: &mir::UnwindAction| match u {
                mir::UnwindAction::Cleanup(b) => n(b.as_usize()),
                _ => J::Null,
            };
            let t = match &term.kind {
                TerminatorKind::Goto { target } => J::Obj(vec![("k", s("goto")), ("t", n(target.as_usize())), ("span", sp)]),
                TerminatorKind::SwitchInt { discr, targets } => {
                    let dty = discr.ty(&body.local_decls, tcx);
                    let mut vals = vec![];
                    let mut tgts = vec![];
                    for (v, t) in targets.iter() {
                        vals.push(n(v));
                        tgts.push(n(t.as_usize()));
                    }
                    J::Obj(vec![
                        ("k", s("switch")),
                        ("discr", self.operand(did, body, discr)),
                        ("dty", s(ty_str(dty))),
                        ("vals", J::Arr(vals)),
                        ("targets", J::Arr(tgts)),
                        ("otherwise", n(targets.otherwise().as_usize())),
                        ("span", sp),
                    ])
                }
                TerminatorKind::Return => J::Obj(vec![("k", s("return")), ("span", sp)]),
                TerminatorKind::Unreachable => J::Obj(vec![("k", s("unreachable")), ("span", sp)]),
                TerminatorKind::UnwindResume => J::Obj(vec![("k", s("resume")), ("span", sp)]),
                TerminatorKind::UnwindTerminate(_) => J::Obj(vec![("k", s("terminate")), ("span", sp)]),
                TerminatorKind::Drop { place, target, unwind, .. } => {
                    let pty = place.ty(&body.local_decls, tcx).ty;
                    let mut v = vec![
                        ("k", s("drop")),
                        ("pl", self.place(body, place)),
                        ("t", n(target.as_usize())),
                        ("unwind", unwind_bb(unwind)),
                        ("span", sp),
                    ];
                    v.extend(self.ty_info(pty));
                    J::Obj(v)
                }
                TerminatorKind::Call { func, args, destination, target, unwind, fn_span, .. } => {
                    let mut v = vec![("k", s("call"))];
                    match func.const_fn_def() {
                        Some((d, a)) => v.push(("callee", J::Obj(self.fn_ref(did, d, a)))),
                        None => v.push(("callee_op", self.operand(did, body, func))),
                    }
                    let fty = func.ty(&body.local_decls, tcx);
                    v.push(("fty", s(ty_str(fty))));
                    v.push(("args", J::Arr(args.iter().map(|a| self.operand(did, body, &a.node)).collect())));
                    let atys: Vec<J> = args.iter().map(|a| J::Obj(self.ty_info(a.node.ty(&body.local_decls, tcx)))).collect();
                    v.push(("arg_tys", J::Arr(atys)));
                    v.push(("dest", self.place(body, destination)));
                    v.push(("dest_ty", s(ty_str(destination.ty(&body.local_decls, tcx).ty))));
                    v.push(("t", opt(target.map(|b| n(b.as_usize())))));
                    v.push(("unwind", unwind_bb(unwind)));
                    v.push(("span", sp));
                    v.push(("fn_span", self.span(*fn_span)));
                    J::Obj(v)
                }
                TerminatorKind::Assert { cond, expected, msg, target, unwind } => {
                    let (mk, mops): (String, Vec<J>) = match &**msg {
                        mir::AssertKind::BoundsCheck { len, index } => (
                            "BoundsCheck".into(),
                            vec![self.operand(did, body, len), self.operand(did, body, index)],
                        ),
                        mir::AssertKind::Overflow(op, a, b) => (
                            format!("Overflow({:?})", op),
                            vec![self.operand(did, body, a), self.operand(did, body, b)],
                        ),
                        mir::AssertKind::OverflowNeg(a) => ("OverflowNeg".into(), vec![self.operand(did, body, a)]),
                        mir::AssertKind::DivisionByZero(a) => ("DivisionByZero".into(), vec![self.operand(did, body, a)]),
                        mir::AssertKind::RemainderByZero(a) => ("RemainderByZero".into(), vec![self.operand(did, body, a)]),
                        mir::AssertKind::MisalignedPointerDereference { .. } => ("MisalignedPointerDereference".into(), vec![]),
                        mir::AssertKind::NullPointerDereference => ("NullPointerDereference".into(), vec![]),
                        mir::AssertKind::InvalidEnumConstruction(_) => ("InvalidEnumConstruction".into(), vec![]),
                        _ => ("Other".into(), vec![]),
                    };
                    J::Obj(vec![
                        ("k", s("assert")),
                        ("cond", self.operand(did, body, cond)),
                        ("expected", J::Bool(*expected)),
                        ("msg", s(mk)),
                        ("mops", J::Arr(mops)),
                        ("t", n(target.as_usize())),
                        ("unwind", unwind_bb(unwind)),
                        ("span", sp),
                    ])
                }
                TerminatorKind::FalseEdge { real_target, .. } => J::Obj(vec![("k", s("goto")), ("t", n(real_target.as_usize())), ("span", sp)]),
                TerminatorKind::FalseUnwind { real_target, .. } => J::Obj(vec![("k", s("goto")), ("t", n(real_target.as_usize())), ("span", sp)]),
                other => J::Obj(vec![("k", s("other")), ("dbg", s(format!("{:?}", other))), ("span", sp)]),
            };
            blocks.push(J::Obj(vec![("cleanup", J::Bool(data.is_cleanup)), ("stmts", J::Arr(stmts)), ("term", t)]));
        }
        o.push(("blocks", J::Arr(blocks)));
        J::Obj(o)
    }

    fn adts(&self) -> J {
        let tcx = self.tcx;
        let mut out = vec![];
        for ld in tcx.hir_crate_items(()).definitions() {
            let did = ld.to_def_id();
            if !matches!(tcx.def_kind(did), DefKind::Struct | DefKind::Enum | DefKind::Union) {
                continue;
            }
            let def = tcx.adt_def(did);
            let mut vars = vec![];
            for (vi, var) in def.variants().iter_enumerated() {
                let discr = if def.is_enum() {
                    def.discriminant_for_variant(tcx, vi).val as i128
                } else {
                    0
                };
                let fields: Vec<J> = var
                    .fields
                    .iter()
                    .map(|f| {
                        let fty = tcx.type_of(f.did).instantiate_identity().skip_norm_wip();
                        let mut fo = vec![("name", s(f.name.to_string())), ("vis", s(format!("{:?}", f.vis)))];
                        fo.extend(self.ty_info(fty));
                        J::Obj(fo)
                    })
                    .collect();
                vars.push(J::Obj(vec![
                    ("name", s(var.name.to_string())),
                    ("vi", n(vi.as_usize())),
                    ("discr", J::Num(discr)),
                    ("fields", J::Arr(fields)),
                ]));
            }
            out.push(J::Obj(vec![
                ("path", s(self.path(did))),
                ("kind", s(format!("{:?}", tcx.def_kind(did)))),
                ("vis", s(format!("{:?}", tcx.visibility(did)))),
                ("variants", J::Arr(vars)),
                ("span", self.span(tcx.def_span(did))),
            ]));
        }
        J::Arr(out)
    }

    fn consts(&self) -> J {
        let tcx = self.tcx;
        let mut out = vec![];
        for ld in tcx.hir_crate_items(()).definitions() {
            let did = ld.to_def_id();
            if !matches!(tcx.def_kind(did), DefKind::Const { .. }) {
                continue;
            }
            // only free / associated named constants with no generics
            if tcx.generics_of(did).count() != 0 {
                continue;
            }
            let cty = tcx.type_of(did).instantiate_identity().skip_norm_wip();
            let val = match tcx.const_eval_poly(did) {
                Ok(v) => np!(format!("{}", mir::Const::Val(v, cty))),
                Err(_) => "?".to_string(),
            };
            out.push(J::Obj(vec![("path", s(self.path(did))), ("ty", s(ty_str(cty))), ("value", s(val))]));
        }
        J::Arr(out)
    }
}

struct Cb;
impl Callbacks for Cb {
    fn after_analysis<'tcx>(&mut self, _c: &Compiler, tcx: TyCtxt<'tcx>) -> Compilation {
        let dir = match std::env::var("TXTPP_FACTS_DIR") {
            Ok(d) if !d.is_empty() => d,
            _ => return Compilation::Continue,
        };
        let cx = Cx { tcx };
        let krate = tcx.crate_name(rustc_hir::def_id::LOCAL_CRATE).to_string();
        let ctypes: Vec<String> = tcx.crate_types().iter().map(|c| format!("{:?}", c)).collect();
        let is_test = tcx.sess.opts.test;
        let src_file = std::env::args().find(|a| a.ends_with(".rs")).unwrap_or_default();
        let mut bodies = vec![];
        for ld in tcx.hir_body_owners() {
            let did = ld.to_def_id();
            if !matches!(tcx.def_kind(did), DefKind::Fn | DefKind::AssocFn | DefKind::Closure) {
                continue;
            }
            bodies.push(cx.body(did));
        }
        let nb = bodies.len();
        let cfgs: Vec<J> = tcx
            .sess
            .opts
            .cg
            .target_feature
            .split(',')
            .filter(|x| !x.is_empty())
            .map(|x| s(x.to_string()))
            .collect();
        let root = J::Obj(vec![
            ("schema", n(1)),
            ("crate", s(krate.clone())),
            ("crate_types", J::Arr(ctypes.iter().map(|c| s(c.clone())).collect())),
            ("is_test", J::Bool(is_test)),
            ("src", s(src_file.clone())),
            ("n_bodies", n(nb)),
            ("target_features", J::Arr(cfgs)),
            ("adts", cx.adts()),
            ("consts", cx.consts()),
            ("bodies", J::Arr(bodies)),
        ]);
        let mut out = String::new();
        root.write(&mut out);
        let kind = if src_file.ends_with("lib.rs") {
            "lib"
        } else if ctypes.iter().any(|c| c == "Executable") {
            "bin"
        } else {
            "lib"
        };
        let file = format!(
            "{}/{}-{}{}-{}.json",
            dir,
            krate,
            kind,
            if is_test { "-test" } else { "" },
            std::process::id()
        );
        // one write per process
        std::fs::write(&file, out).expect("txtpp-facts: cannot write fact file");
        Compilation::Continue
    }
}

fn main() {
    let mut args: Vec<String> = std::env::args().collect();
    // RUSTC_WORKSPACE_WRAPPER: argv[1] is the path of the real rustc
    if args.len() > 1 && (args[1].ends_with("rustc") || args[1].contains("/rustc")) {
        args.remove(1);
    }
    rustc_driver::run_compiler(&args, &mut Cb);
}
