"""registers every property's rules"""
import rules_io      # noqa  C06 C07 C08 C09 C10
import rules_sched   # noqa  C02 C03 C05
import rules_err     # noqa  C04
import rules_panic   # noqa  C18
import rules_run     # noqa  C17
import rules_text    # noqa  C12 C13 C16
import rules_dir     # noqa  C01 C11 C14 C15
