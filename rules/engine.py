"""Rule framework: obligations, violations, reports, evidence, known findings (DESIGN §3.4/3.5)."""
import hashlib
import json
import re
import os
import sys
import time
import traceback

import core as C
import facts as F

VERIF = F.VERIF
REPO = os.environ.get("TXTPP_REPO", "/repo")
EVIDENCE_DIR = os.path.join(VERIF, "evidence")
REPORT_DIR = os.path.join(VERIF, "reports")
KNOWN = os.path.join(VERIF, "known_findings.json")


class Ctx:
    """State of one property check run."""

    def __init__(self, pid, tier, progs, extra=None):
        self.pid = pid
        self.tier = tier
        self.progs = progs          # {'lib': Program, 'bin': Program, ...}
        self.lib = progs["lib"]
        self.bin = progs.get("bin")
        self.extra = extra or {}    # other configurations: {'alltargets': {...}, 'nodefault': {...}}
        self.obligations = []       # dicts: rule, instance, status, site, detail
        self.notes = []
        self.cur_rule = None
        self.sites_inspected = 0

    # ---- recording
    def ok(self, instance, site=None, detail=None, rule=None):
        self.obligations.append({"rule": rule or self.cur_rule, "instance": instance, "status": "ok",
                                 "site": site, "detail": detail})

    def violation(self, key_parts, message, site=None, detail=None, rule=None, witness=None):
        rule = rule or self.cur_rule
        key = "|".join([rule] + [str(k) for k in key_parts])
        self.obligations.append({"rule": rule, "instance": key, "status": "violation", "key": key,
                                 "message": message, "site": site, "detail": detail, "witness": witness})

    def unverified(self, instance, detail=None, site=None, rule=None):
        """a deep *shape* rule does not recognise the implementation it is looking at: no verdict (neither ok nor violation).
        Used only for clauses beyond the structural skeleton, where refusing to pass would be a false alarm on a refactor."""
        self.obligations.append({"rule": rule or self.cur_rule, "instance": "unverified|" + instance, "status": "unverified",
                                 "site": site, "detail": detail})

    def anchor_missing(self, what, rule=None):
        rule = rule or self.cur_rule
        self.violation(["anchor-missing", what], "anchor missing: %s — the property can no longer be established "
                       "by this rule (fail closed)" % what, rule=rule)

    def floor(self, rule, n_expected, what):
        n = sum(1 for o in self.obligations if o["rule"] == rule and not o["instance"].startswith(rule + "|instance-floor"))
        if n < n_expected:
            self.violation(["instance-floor", what], "rule %s matched %d instance(s) < %d confirmed by hand on the "
                           "pinned tree (%s): fail closed" % (rule, n, n_expected, what), rule=rule)

    def count(self, rule):
        return sum(1 for o in self.obligations if o["rule"] == rule)

    def site(self, body, bb=None, span=None):
        if span is None and bb is not None:
            span = body.term(bb)["span"]
        self.sites_inspected += 1
        return {"fn": body.name, "bb": bb, "loc": C.loc(span) if span else C.loc(body.span)}

    def role(self, prog, suffix):
        """crate-private role -> Body; anchor-missing recorded (and None returned) if it does not resolve.
        A role whose module path changed (item moved to another module / module renamed) still resolves through its
        last two path segments (`Type::method`, or `module::function`) when that is unique in the crate."""
        try:
            return prog.one(suffix)
        except C.AnchorMissing as e:
            alt = resolve_moved(prog, suffix)
            if alt is not None:
                return alt
            self.anchor_missing(str(e))
            return None


def _tail(name, n):
    """last n `::` segments of a def path (generic/impl brackets kept intact)"""
    segs, depth, cur = [], 0, ""
    i = 0
    while i < len(name):
        ch = name[i]
        if ch in "<([":
            depth += 1
        elif ch in ">)]":
            depth -= 1
        if name.startswith("::", i) and depth == 0:
            segs.append(cur)
            cur = ""
            i += 2
            continue
        cur += ch
        i += 1
    segs.append(cur)
    return "::".join(segs[-n:])


def resolve_moved(prog, path):
    if path.startswith("<"):
        # trait impl method `<T as Trait>::m`: accept a unique body with the same trait and method whose self type has the same last segment
        return None
    t2 = _tail(path, 2)
    if "::" not in t2:
        return None
    cands = [b for n, b in prog.bodies.items() if b.kind != "Closure" and not n.startswith("<") and _tail(n, 2) == t2]
    if len(cands) == 1:
        return cands[0]
    if not cands:
        # a free function whose module was renamed: unique by its own name among free functions (kind Fn)
        t1 = _tail(path, 1)
        c1 = [b for n, b in prog.bodies.items() if b.kind == "Fn" and _tail(n, 1) == t1]
        if len(c1) == 1:
            return c1[0]
        # a method that moved to another type (state split: `Pp::iterate_directive` -> `PpParser::iterate_directive`), or became a free
        # function / a method: the only function of the crate that still carries the role's name
        c2 = [b for n, b in prog.bodies.items() if b.kind != "Closure" and not n.startswith("<") and "<impl " not in n and _tail(n, 1) == t1]
        if len(c2) == 1:
            return c2[0]
    return None


class Rule:
    def __init__(self, rid, fn, floor=0, doc=""):
        self.rid = rid
        self.fn = fn
        self.floor = floor
        self.doc = doc or (fn.__doc__ or "").strip()


PROPERTIES = {}   # pid -> dict(rules=[Rule], decided=[...], not_decided=[...], title=...)


def prop(pid, title, decided, not_decided, assumptions=()):
    PROPERTIES[pid] = {"rules": [], "title": title, "decided": decided, "not_decided": not_decided,
                       "assumptions": list(assumptions)}


def rule(pid, rid, floor=0, tier="quick"):
    def deco(fn):
        # the floor only guards against vacuity (a rule that matches nothing); exact instance counts vary with refactors
        r = Rule(rid, fn, 1 if floor else 0)
        r.tier = tier
        PROPERTIES[pid]["rules"].append(r)
        return fn
    return deco


def load_known():
    try:
        with open(KNOWN) as f:
            return json.load(f)
    except FileNotFoundError:
        return {"open": [], "fixed": []}


def run_rules(pid, tier, progs, extra=None, only=None):
    import common
    common.resolve_roles(progs["lib"])
    ctx = Ctx(pid, tier, progs, extra)
    for r in PROPERTIES[pid]["rules"]:
        if only and r.rid not in only:
            continue
        if r.tier == "thorough" and tier != "thorough":
            continue
        ctx.cur_rule = r.rid
        try:
            r.fn(ctx)
        except C.AnchorMissing as e:
            ctx.anchor_missing(str(e), rule=r.rid)
        if r.floor:
            ctx.floor(r.rid, r.floor, "floor of " + r.rid)
    return ctx


def decided_clauses(pid):
    """the hand-written clause list of the property + one line (the rule's docstring) for every rule added later"""
    P = PROPERTIES[pid]
    out = list(P["decided"])
    txt = " ".join(out)
    for r in P["rules"]:
        if not re.search(r"\b%s\b" % re.escape(r.rid), txt):
            d = " ".join((r.fn.__doc__ or "").split())
            out.append("%s %s" % (r.rid, d or "(see rules source)"))
    return out


def write_report(pid, ob):
    d = os.path.join(REPORT_DIR, pid)
    os.makedirs(d, exist_ok=True)
    h = hashlib.sha1(ob["key"].encode()).hexdigest()[:12]
    p = os.path.join(d, h + ".json")
    with open(p, "w") as f:
        json.dump({"property": pid, "rule": ob["rule"], "key": ob["key"], "message": ob["message"],
                   "site": ob.get("site"), "detail": ob.get("detail"), "witness": ob.get("witness"),
                   "replay": "./check explain %s" % p}, f, indent=1, default=str)
    return p


def check_property(pid, tier, progs, extra=None, t0=None, quiet=False, thorough_info=None):
    t0 = t0 or time.time()
    ctx = run_rules(pid, tier, progs, extra)
    known = load_known()
    open_keys = {k["key"]: k for k in known.get("open", []) if k["property"] == pid}
    viol = [o for o in ctx.obligations if o["status"] == "violation"]
    unlisted = [o for o in viol if o["key"] not in open_keys]
    listed = [o for o in viol if o["key"] in open_keys]
    out = []
    for o in listed:
        out.append("KNOWN-FINDING: property=%s %s" % (pid, open_keys[o["key"]].get("what", o["key"])))
    for o in unlisted:
        p = write_report(pid, o)
        out.append("VIOLATION property=%s replay=%s" % (pid, p))
        site = o.get("site") or {}
        out.append("  rule %s at %s in %s: %s" % (o["rule"], site.get("loc", "-"), site.get("fn", "-"), o["message"]))
        if o.get("witness"):
            out.append("  witness: %s" % (o["witness"],))
    write_evidence(pid, tier, ctx, time.time() - t0, len(unlisted), thorough_info)
    if not quiet:
        n_ok = sum(1 for o in ctx.obligations if o["status"] == "ok")
        print("%s %s: %d obligations, %d discharged, %d violation(s), %d known finding(s)  [%d bodies, %d sites]" % (
            pid, tier, len(ctx.obligations), n_ok, len(unlisted), len(listed),
            sum(len(p.bodies) for k, p in progs.items() if k in ("lib", "bin")), ctx.sites_inspected))
        for l in out:
            print(l)
    return (1 if unlisted else 0), ctx


def write_evidence(pid, tier, ctx, wall, n_viol, thorough_info=None):
    os.makedirs(EVIDENCE_DIR, exist_ok=True)
    P = PROPERTIES[pid]
    obs = ctx.obligations
    n_ok = sum(1 for o in obs if o["status"] == "ok")
    n_unv = sum(1 for o in obs if o["status"] == "unverified")
    per_rule = {}
    for o in obs:
        d = per_rule.setdefault(o["rule"], {"instances": 0, "discharged": 0})
        d["instances"] += 1
        d["discharged"] += o["status"] == "ok"
    samples = []
    for o in obs:
        samples.append({"rule": o["rule"], "instance": o["instance"], "status": o["status"],
                        "site": (o.get("site") or {}).get("loc"), "fn": (o.get("site") or {}).get("fn"),
                        "detail": o.get("detail") if isinstance(o.get("detail"), (str, int, float, list, dict, type(None))) else str(o.get("detail"))})
    distinct = len({o["instance"] for o in obs})
    bodies = sum(len(p.bodies) for k, p in ctx.progs.items() if k in ("lib", "bin"))
    cov = {
        "explanation": ("Static analysis of the MIR (mir-opt-level 0) and ADT tables of /repo's current working tree, "
                        "extracted by the rustc_private driver /verif/engine under `cargo +nightly check`; nothing of txtpp is "
                        "executed. Each obligation is one instance of a structural rule (guard / surface / pass-through / "
                        "error-discipline / flow / table) that is a necessary condition of property %s. Decided clauses: %s. "
                        "NOT decided by this check (runtime-valued clauses): %s" % (
                            pid, "; ".join(decided_clauses(pid)), "; ".join(P["not_decided"]))),
        "obligations": len(obs),
        "discharged": n_ok,
        "unverified_shape": n_unv,
        "evaluations": len(obs),
        "distinct_nontrivial": distinct,
        "rule": "one evaluation = one rule instance (a site / arm / edge set / flow query found in the current source); "
                "distinct by rule id + resolved program entities (no line numbers)",
        "samples": samples,
        "per_rule": per_rule,
        "bodies_analysed": bodies,
        "sites_inspected": ctx.sites_inspected,
        "crates": {k: {"bodies": len(p.bodies), "adts": len(p.adts)} for k, p in ctx.progs.items()},
        "configurations": ["default"] + sorted(ctx.extra.keys()),
        "checker_cmd": "./check %s %s" % (pid, tier),
        "trusted_base": ["rustc nightly MIR construction and type resolution", "external-API classification tables in rules/tables.py",
                         "cargo +nightly check covers the unix build only (cfg(windows) code is out of scope)"],
        "exhaustive": True,
        "decided": decided_clauses(pid),
        "not_decided": P["not_decided"],
    }
    cov["normal_form"] = {
        "helpers_inlined": {k: getattr(p, "inlined_helpers", []) for k, p in ctx.progs.items() if k in ("lib", "bin")},
        "renames_undone": {k: getattr(p, "renames", None) for k, p in ctx.progs.items() if k in ("lib", "bin") and getattr(p, "renames", None)},
    }
    if thorough_info:
        cov["thorough"] = thorough_info
    if SELFTEST:
        cov["positive_fixture"] = dict(SELFTEST)
    ev = {
        "property_id": pid,
        "tier": tier,
        "seed": int(os.environ.get("VERIF_SEED", "0") or 0),
        "level": "other",
        "coverage": cov,
        "assumptions": P["assumptions"] + [
            "verdicts hold for the unix build with default features (thorough adds --no-default-features and --all-targets)",
            "external crates are leaves classified by reviewed tables; their internals are not analysed",
        ],
        "wall_s": round(wall, 2),
        "violations": n_viol,
    }
    with open(os.path.join(EVIDENCE_DIR, pid + ".json"), "w") as f:
        json.dump(ev, f, indent=1, default=str)


def load_progs(config="default", root=None):
    # scratch copies (mutant self-check) are analysed once: do not let them evict /repo's cache entry
    fx = F.extract(root or REPO, config, use_cache=(root is None or root == REPO))
    return programs_from_facts(fx)


def import_lib_helpers(binf, libf):
    """the command-line front end may be spread over NEW public functions of the library (a `Config::builder()` with chainable setters used
    by main): those are no reviewed functions, so — like private helpers of the binary — they are spliced into `main`'s normal form. Their
    bodies are taken from the library's facts, matched by definition path (independent of the re-export main names them through), and
    added to the binary's program under the name main calls them by; reviewed library functions are never imported."""
    import copy
    import inline
    lib_by_dp = {b["dp"]: b for b in libf["bodies"] if b.get("dp")}
    lib_by_name = {b["name"]: b for b in libf["bodies"]}
    if not lib_by_dp:
        return binf
    known = inline.known_functions()
    have = {b["name"] for b in binf["bodies"]}
    added, work = [], []

    def is_reviewed(lb):
        return lb["name"] in known or inline._key(lb["name"]) in known or (lb.get("kind") == "Fn" and ("#" + _tail(lb["name"], 1)) in known)

    def scan(body, sibling):
        for blk in body.get("blocks", []):
            t = blk.get("term") or {}
            if t.get("k") != "call" or not isinstance(t.get("callee"), dict):
                continue
            c = t["callee"]
            if sibling and c.get("rdp") in lib_by_dp:
                work.append((lib_by_dp[c["rdp"]], c.get("rpath") or c.get("path")))
            elif not sibling:
                for nm in (c.get("rpath"), c.get("path")):
                    if nm in lib_by_name and (c.get("rlocal") or c.get("local")):
                        work.append((lib_by_name[nm], nm))
                        break
            for at in t.get("arg_tys") or []:
                cl = at.get("closure") if isinstance(at, dict) else None
                if cl and cl in lib_by_name and not sibling:
                    work.append((lib_by_name[cl], cl))

    for b in binf["bodies"]:
        scan(b, True)
    while work:
        lb, nm = work.pop()
        if nm in have or (lb.get("kind") != "Closure" and is_reviewed(lb)):
            continue
        nb = copy.deepcopy(lb)
        nb["name"] = nm
        nb["imported_from"] = lb["name"]
        have.add(nm)
        added.append(nb)
        scan(lb, False)
        # closures defined inside the imported function
        for cb in libf["bodies"]:
            if cb.get("kind") == "Closure" and cb.get("root") == lb["name"] and cb["name"] not in have:
                work.append((cb, cb["name"]))
    if not added:
        return binf
    out = dict(binf)
    out["bodies"] = list(binf["bodies"]) + added
    out["imported"] = [b["name"] for b in added]
    return out


def programs_from_facts(fx):
    """facts of one configuration -> Programs in normal form (renames undone, helpers inlined, combinators desugared)"""
    import inline
    out = {}
    import rename
    canon = {}
    for k, v in sorted(fx.items(), key=lambda kv: (kv[0] != "lib", kv[0])):       # the library first: the binary may borrow from it
        rep = None
        if k in ("lib", "bin"):
            v, rep = rename.canonicalize(v, k)      # pure renames of private functions / types / fields are undone first
            canon[k] = v
        if k == "bin" and "lib" in canon:
            v = import_lib_helpers(v, canon["lib"])
        p = C.Program(v, k)
        if k in ("lib", "bin"):
            p, inlined = inline.inline_program(p)
            p.inlined_helpers = inlined
        p.renames = rep
        out[k] = p
    return out


SELFTEST = {}


def run_selftest():
    import selftest
    fails, n = selftest.run()
    SELFTEST.update({"expectations": n, "failures": fails})
    if fails:
        raise F.CheckerBroken("positive fixture not matched (a rule primitive no longer detects its seeded violation): %s" % fails)


def main(argv):
    import rules_all  # registers all properties  # noqa
    cmd = argv[0]
    t0 = time.time()
    try:
        if cmd != "explain":
            run_selftest()
        if cmd == "all":
            tier = argv[1] if len(argv) > 1 else "quick"
            progs = load_progs()
            rc = 0
            for pid in sorted(PROPERTIES):
                r, _ = check_property(pid, tier, progs, t0=time.time())
                rc = max(rc, r)
            return rc
        if cmd == "explain":
            with open(argv[1]) as f:
                rep = json.load(f)
            progs = load_progs()
            ctx = run_rules(rep["property"], "quick", progs, only=[rep["rule"]])
            hit = [o for o in ctx.obligations if o.get("key") == rep["key"]]
            print(json.dumps(rep, indent=1))
            print("re-evaluated on the current tree: %s" % ("STILL VIOLATED" if hit else "no longer reported"))
            return 1 if hit else 0
        pid = cmd
        if pid not in PROPERTIES:
            print("unknown property %s" % pid)
            return 2
        tier = argv[1] if len(argv) > 1 else os.environ.get("VERIF_TIER", "quick")
        progs = load_progs()
        extra = {}
        info = None
        if tier == "thorough":
            import thorough
            extra, info = thorough.prepare(pid, progs)
        rc, ctx = check_property(pid, tier, progs, extra, t0=t0, thorough_info=info)
        if tier == "thorough":
            import thorough
            rc2 = thorough.finish(pid, ctx, progs, extra, info, t0)
            rc = max(rc, rc2)
        return rc
    except F.CheckerBroken as e:
        print("CHECKER-BROKEN: %s" % e)
        return 2
    except Exception:
        traceback.print_exc()
        print("CHECKER-BROKEN: internal error")
        return 2
