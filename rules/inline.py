"""Helper inlining: normalise away *extracted helpers*.

A refactor that extracts part of a function into a new private helper (or a directly-called local closure) changes no behaviour
but hides guards, sites and value flow from intra-procedural rules.  inline_program() rebuilds the program with every call to an
**unknown** crate-local function — one that is not in rules/known_functions.json, the frozen list of the functions the rules were
written against — replaced by a renamed copy of the callee's MIR (arguments assigned to parameter locals, `return` turned into an
assignment of the destination + goto).  Directly called local closures (`Fn::call(&c, (a, b))` resolved to a closure body of the
crate) are inlined the same way.  Known functions are never inlined: they are the anchors (roles) the rules refer to.
Bounded: depth <= 4, no recursion, callee <= 400 blocks.
"""
import copy
import json
import os

import core as C

MAX_DEPTH = 4
MAX_BLOCKS = 400

_KNOWN = None


def known_functions():
    global _KNOWN
    if _KNOWN is None:
        p = os.path.join(os.path.dirname(os.path.abspath(__file__)), "known_functions.json")
        try:
            names = json.load(open(p))
        except OSError:
            names = []
        import engine
        # free functions are also known by their own name (a renamed module must not turn them into "helpers")
        free = {"#" + engine._tail(n, 1) for n in names if not n.startswith("<") and "::<impl" not in n}
        _KNOWN = set(names) | {_key(n) for n in names} | free
    return _KNOWN


def _key(name):
    """module-move tolerant key: last two path segments (outside generic brackets)"""
    import engine
    return "~" + engine._tail(name, 2) if not name.startswith("<") else name


def is_helper(body):
    if body.kind == "Closure":
        return False
    if body.j.get("impl_trait"):
        return False
    k = known_functions()
    if body.name in k or _key(body.name) in k:
        return False
    import engine
    if body.kind == "Fn" and ("#" + engine._tail(body.name, 1)) in k:
        return False
    return True


def _remap_place(pl, off):
    q = {"l": pl["l"] + off, "p": []}
    for e in pl["p"]:
        if e["k"] == "index":
            e2 = dict(e)
            e2["l"] = e["l"] + off
            q["p"].append(e2)
        else:
            q["p"].append(e)
    return q


def _remap_op(op, off):
    if op is None:
        return None
    if op.get("k") in ("copy", "move"):
        o = dict(op)
        o["pl"] = _remap_place(op["pl"], off)
        return o
    return op


def _remap_rv(rv, off):
    r = dict(rv)
    for key in ("op", "a", "b"):
        if isinstance(r.get(key), dict):
            r[key] = _remap_op(r[key], off)
    if "pl" in r:
        r["pl"] = _remap_place(r["pl"], off)
    if "ops" in r:
        r["ops"] = [_remap_op(o, off) for o in r["ops"]]
    return r


def _remap_block(blk, off, boff):
    nb = {"cleanup": blk["cleanup"], "stmts": [], "term": None, "inl": True}
    for st in blk["stmts"]:
        s2 = dict(st)
        s2["lhs"] = _remap_place(st["lhs"], off)
        if st["k"] == "assign":
            s2["rv"] = _remap_rv(st["rv"], off)
        nb["stmts"].append(s2)
    t = dict(blk["term"])
    k = t["k"]
    for key in ("t", "otherwise", "unwind"):
        if isinstance(t.get(key), int):
            t[key] = t[key] + boff
    if k == "switch":
        t["targets"] = [x + boff for x in t["targets"]]
        t["discr"] = _remap_op(t["discr"], off)
    elif k == "call":
        t["args"] = [_remap_op(a, off) for a in t["args"]]
        t["dest"] = _remap_place(t["dest"], off)
        if "callee_op" in t:
            t["callee_op"] = _remap_op(t["callee_op"], off)
    elif k == "drop":
        t["pl"] = _remap_place(t["pl"], off)
    elif k == "assert":
        t["cond"] = _remap_op(t["cond"], off)
        t["mops"] = [_remap_op(o, off) for o in t.get("mops", [])]
    nb["term"] = t
    return nb


def _target(prog, t, helpers):
    """the crate-local body a call terminator should be replaced by, or None"""
    for n in C.callee_names(t):
        b = prog.bodies.get(n)
        if b is None:
            continue
        if b.kind == "Closure":
            # direct call of a local closure value: Fn::call / FnMut::call_mut / FnOnce::call_once resolved to the closure body
            return b, True
        if n in helpers:
            return b, False
    return None, False


def inline_body(prog, body, helpers):
    bj = body.j
    blocks = copy.deepcopy(bj["blocks"])
    locals_ = list(bj["locals"])
    depth = [0] * len(blocks)
    stack = [()] * len(blocks)
    changed = False
    i = 0
    while i < len(blocks):
        blk = blocks[i]
        t = blk["term"]
        if t["k"] == "call" and not blk["cleanup"] and depth[i] < MAX_DEPTH:
            cb, is_closure = _target(prog, t, helpers)
            if cb is not None and cb.name != body.name and cb.name not in stack[i] and len(cb.blocks) <= MAX_BLOCKS:
                off = len(locals_)
                boff = len(blocks)
                locals_ += cb.locals
                setup = []
                args = t["args"]
                sp = t["span"]
                if is_closure and len(args) == 2 and cb.arg_count != 2:
                    # rust-call ABI: (env, (a, b, ..)) -> params _1 = env, _2.. = tuple fields
                    setup.append({"k": "assign", "lhs": {"l": off + 1, "p": []}, "rv": {"k": "use", "op": args[0]}, "span": sp})
                    tp = C.op_place(args[1])
                    for k in range(cb.arg_count - 1):
                        if tp is None:
                            break
                        fld = {"k": "field", "i": k, "owner": "(tuple)", "fty": cb.locals[2 + k]["ty"]}
                        setup.append({"k": "assign", "lhs": {"l": off + 2 + k, "p": []},
                                      "rv": {"k": "use", "op": {"k": "move", "pl": {"l": tp["l"], "p": tp["p"] + [fld]}}}, "span": sp})
                else:
                    for k, a in enumerate(args[:cb.arg_count]):
                        setup.append({"k": "assign", "lhs": {"l": off + 1 + k, "p": []}, "rv": {"k": "use", "op": a}, "span": sp})
                new = [_remap_block(b, off, boff) for b in cb.blocks]
                for nb in new:
                    if nb["term"]["k"] == "return":
                        nb["stmts"].append({"k": "assign", "lhs": t["dest"], "rv": {"k": "use", "op": {"k": "move", "pl": {"l": off, "p": []}}},
                                            "span": nb["term"]["span"]})
                        if t.get("t") is not None:
                            nb["term"] = {"k": "goto", "t": t["t"], "span": nb["term"]["span"]}
                        else:
                            nb["term"] = {"k": "unreachable", "span": nb["term"]["span"]}
                blk["stmts"] = blk["stmts"] + setup
                blk["term"] = {"k": "goto", "t": boff, "span": sp, "inlined_call": C.callee_name(t)}
                blocks += new
                depth += [depth[i] + 1] * len(new)
                stack += [stack[i] + (cb.name,)] * len(new)
                changed = True
        i += 1
    if not changed:
        return None
    nj = dict(bj)
    nj["blocks"] = blocks
    nj["locals"] = locals_
    return nj


def inline_program(prog):
    helpers = {n for n, b in prog.bodies.items() if is_helper(b)}
    has_closure_calls = False
    for b in prog.bodies.values():
        for bb, t in b.calls(live_only=False):
            for n in C.callee_names(t):
                tb = prog.bodies.get(n)
                if tb is not None and tb.kind == "Closure":
                    has_closure_calls = True
    if not helpers and not has_closure_calls:
        return prog, []
    new_bodies = []
    for n, b in prog.bodies.items():
        nj = inline_body(prog, b, helpers)
        new_bodies.append(nj if nj is not None else b.j)
    facts2 = dict(prog.facts)
    facts2["bodies"] = new_bodies
    p2 = C.Program(facts2, prog.label)
    # helpers that are no longer mentioned anywhere disappear from the program (they live on inside their callers)
    still = set()
    for b in p2.bodies.values():
        if b.name in helpers:
            continue
        for kind, bb, names, obj in C.body_mentions(b):
            for nm in names:
                if nm in helpers:
                    still.add(nm)
    drop = {h for h in helpers if h not in still}
    if drop:
        # closures defined inside a dropped helper now belong to the function the helper was inlined into
        host = {}
        for j in new_bodies:
            for blk in j["blocks"]:
                ic = blk["term"].get("inlined_call")
                if ic in drop and ic not in host and j["name"] not in drop:
                    host[ic] = j["name"]
        out = []
        for j in new_bodies:
            if j["name"] in drop:
                continue
            if j.get("kind") == "Closure" and j.get("root") in drop:
                j = dict(j)
                h = host.get(j["root"])
                if h:
                    if j.get("parent") == j["root"]:
                        j["parent"] = h
                    j["root"] = h
            out.append(j)
        facts2["bodies"] = out
        p2 = C.Program(facts2, prog.label)
    return p2, sorted(helpers)
