"""Helper inlining: normalise away *extracted helpers*.

A refactor that extracts part of a function into a new private helper (or a directly-called local closure) changes no behaviour
but hides guards, sites and value flow from intra-procedural rules.  inline_program() rebuilds the program with every call to an
**unknown** crate-local function — one that is not in rules/known_functions.json, the frozen list of the functions the rules were
written against — replaced by a renamed copy of the callee's MIR (arguments assigned to parameter locals, `return` turned into an
assignment of the destination + goto).  Directly called local closures (`Fn::call(&c, (a, b))` resolved to a closure body of the
crate) are inlined the same way.  Known functions are never inlined: they are the anchors (roles) the rules refer to.
Bounded: depth <= 4, no recursion, callee <= 400 blocks.
"""
import copy
import re
import json
import os

import core as C

MAX_DEPTH = 6
MAX_BLOCKS = 400

_KNOWN = None


def known_functions():
    global _KNOWN
    if _KNOWN is None:
        p = os.path.join(os.path.dirname(os.path.abspath(__file__)), "known_functions.json")
        try:
            names = json.load(open(p))
        except OSError:
            names = []
        import engine
        # free functions are also known by their own name (a renamed module must not turn them into "helpers")
        free = {"#" + engine._tail(n, 1) for n in names if not n.startswith("<") and "::<impl" not in n}
        _KNOWN = set(names) | {_key(n) for n in names} | free
    return _KNOWN


def _key(name):
    """module-move tolerant key: last two path segments (outside generic brackets)"""
    import engine
    return "~" + engine._tail(name, 2) if not name.startswith("<") else name


CONVERSION_TRAITS = ("std::convert::From", "std::convert::Into", "std::convert::TryFrom", "std::convert::TryInto", "std::str::FromStr",
                     "std::convert::AsRef", "std::ops::Deref", "std::borrow::Borrow", "std::default::Default")


def is_helper(body):
    if body.kind == "Closure":
        return False
    if body.j.get("impl_trait") and not str(body.j.get("impl_trait")).startswith(body.prog.facts.get("crate", "txtpp") + "::"):
        # impls of foreign traits are reached through the trait's users (fmt, Drop ..): never spliced — except hand-written conversion
        # impls of the command-line front end (`impl From<&Flags> for Config`), which are called directly where the Config is built
        it = str(body.j.get("impl_trait"))
        if getattr(body.prog, "label", None) == "bin":
            if not (not body.span.get("exp") and it.startswith(("std::convert::From", "std::convert::Into", "std::default::Default"))):
                return False
        elif not (not body.span.get("exp") and it.startswith(CONVERSION_TRAITS)):
            # .. and, in the library, hand-written conversion impls that are NOT reviewed functions (a new `impl FromStr for DirectiveType`
            # that the reviewed `TryFrom<&str>` now delegates to, a new `Deref for AbsPath`): they are called directly (or through
            # `str::parse` / `into` / `try_into`, see _target) and are the new home of code the rules are stated on
            return False
    if getattr(body.prog, "label", None) == "bin":
        # the command-line front end has one anchor, `main`: how the flags reach Config is read off main's normal form, whichever
        # methods / builder functions the plumbing is spread over
        import engine as _e
        return _e._tail(body.name, 1) != "main"
    k = known_functions()
    if body.name in k or _key(body.name) in k:
        return False
    import engine
    if body.kind == "Fn" and ("#" + engine._tail(body.name, 1)) in k:
        return False
    # a reviewed function that moved to another type or became a free function / method (state split) keeps its role when it is
    # the only function of the program that still carries the name and the reviewed one is gone
    if not body.name.startswith("<") and "<impl " not in body.name:
        t1 = engine._tail(body.name, 1)
        prog = body.prog
        moved = getattr(prog, "_moved_roles", None)
        if moved is None:
            by_last = {}
            for n, b in prog.bodies.items():
                if b.kind != "Closure" and not n.startswith("<") and "<impl " not in n:
                    by_last.setdefault(engine._tail(n, 1), []).append(n)
            known_last = {}
            for n in k:
                if not n.startswith(("~", "#", "<")) and "<impl " not in n:
                    known_last.setdefault(engine._tail(n, 1), []).append(n)
            moved = {last for last, ns in by_last.items() if len(ns) == 1 and len(known_last.get(last, [])) == 1
                     and known_last[last][0] not in prog.bodies}
            prog._moved_roles = moved
        if t1 in moved:
            return False
    return True


def _remap_place(pl, off):
    q = {"l": pl["l"] + off, "p": []}
    for e in pl["p"]:
        if e["k"] == "index":
            e2 = dict(e)
            e2["l"] = e["l"] + off
            q["p"].append(e2)
        else:
            q["p"].append(e)
    return q


def _remap_op(op, off):
    if op is None:
        return None
    if op.get("k") in ("copy", "move"):
        o = dict(op)
        o["pl"] = _remap_place(op["pl"], off)
        return o
    return op


def _remap_rv(rv, off):
    r = dict(rv)
    for key in ("op", "a", "b"):
        if isinstance(r.get(key), dict):
            r[key] = _remap_op(r[key], off)
    if "pl" in r:
        r["pl"] = _remap_place(r["pl"], off)
    if "ops" in r:
        r["ops"] = [_remap_op(o, off) for o in r["ops"]]
    return r


def _remap_block(blk, off, boff):
    nb = {"cleanup": blk["cleanup"], "stmts": [], "term": None, "inl": True}
    for st in blk["stmts"]:
        s2 = dict(st)
        s2["lhs"] = _remap_place(st["lhs"], off)
        if st["k"] == "assign":
            s2["rv"] = _remap_rv(st["rv"], off)
        nb["stmts"].append(s2)
    t = dict(blk["term"])
    k = t["k"]
    for key in ("t", "otherwise", "unwind"):
        if isinstance(t.get(key), int):
            t[key] = t[key] + boff
    if k == "switch":
        t["targets"] = [x + boff for x in t["targets"]]
        t["discr"] = _remap_op(t["discr"], off)
    elif k == "call":
        t["args"] = [_remap_op(a, off) for a in t["args"]]
        t["dest"] = _remap_place(t["dest"], off)
        if "callee_op" in t:
            t["callee_op"] = _remap_op(t["callee_op"], off)
    elif k == "drop":
        t["pl"] = _remap_place(t["pl"], off)
    elif k == "assert":
        t["cond"] = _remap_op(t["cond"], off)
        t["mops"] = [_remap_op(o, off) for o in t.get("mops", [])]
    nb["term"] = t
    return nb


def _target(prog, t, helpers):
    """the crate-local body a call terminator should be replaced by, or None"""
    for n in C.callee_names(t):
        b = prog.bodies.get(n)
        if b is None:
            continue
        if b.kind == "Closure":
            # direct call of a local closure value: Fn::call / FnMut::call_mut / FnOnce::call_once resolved to the closure body
            return b, True
        if n in helpers:
            return b, False
    # `x.into()` through std's blanket `impl<T, U: From<T>> Into<U> for T`: the crate's own `impl From<T> for U`, when it is a helper
    if "<T as std::convert::Into<U>>::into" in C.callee_names(t):
        ta = t["callee"].get("targs") or []
        if len(ta) == 2:
            for n in helpers:
                b = prog.bodies.get(n)
                if b is not None and str(b.j.get("impl_trait", "")).startswith("std::convert::From") and b.arg_count == 1 and \
                        b.locals[1]["ty"] == ta[0]["ty"] and b.locals[0]["ty"] == ta[1]["ty"]:
                    return b, False
    # `s.parse::<T>()` is `<T as FromStr>::from_str(s)`; `x.try_into()` is the crate's `impl TryFrom<T> for U`
    names = C.callee_names(t)
    ta = t["callee"].get("targs") or []
    if "std::str::<impl str>::parse" in names and len(ta) >= 1:
        for n in helpers:
            b = prog.bodies.get(n)
            if b is not None and str(b.j.get("impl_trait", "")).startswith("std::str::FromStr") and b.arg_count == 1 and \
                    n.startswith("<%s as " % ta[0]["ty"]):
                return b, False
    if "<T as std::convert::TryInto<U>>::try_into" in names and len(ta) == 2:
        for n in helpers:
            b = prog.bodies.get(n)
            if b is not None and str(b.j.get("impl_trait", "")).startswith("std::convert::TryFrom") and b.arg_count == 1 and \
                    b.locals[1]["ty"] == ta[0]["ty"] and n.startswith("<%s as " % ta[1]["ty"]):
                return b, False
    return None, False


# ------------------------------------------------------------------ combinator desugaring
#
# `r.map_err(|e| ..)`, `o.ok_or_else(|| ..)`, `it.try_for_each(|x| ..)` ... are the library spelling of a `match` / a `for` loop.
# When the callable is a closure of this crate (or a plain fn item) the call is replaced by that match / loop with the closure body
# spliced in, so that rules see one normal form whichever spelling the source uses.  name -> template id
COMBINATORS = {
    "std::option::Option::<T>::map": "o_map", "std::option::Option::<T>::and_then": "o_and_then",
    "std::option::Option::<T>::unwrap_or_else": "o_unwrap_or_else", "std::option::Option::<T>::ok_or_else": "o_ok_or_else",
    "std::option::Option::<T>::map_or": "o_map_or", "std::option::Option::<T>::map_or_else": "o_map_or_else",
    "std::option::Option::<T>::or_else": "o_or_else", "std::option::Option::<T>::is_some_and": "o_is_some_and",
    "std::option::Option::<T>::is_none_or": "o_is_none_or", "std::option::Option::<T>::filter": "o_filter",
    "std::result::Result::<T, E>::map": "r_map", "std::result::Result::<T, E>::map_err": "r_map_err",
    "std::result::Result::<T, E>::and_then": "r_and_then", "std::result::Result::<T, E>::or_else": "r_or_else",
    "std::result::Result::<T, E>::unwrap_or_else": "r_unwrap_or_else", "std::result::Result::<T, E>::map_or": "r_map_or",
    "std::result::Result::<T, E>::map_or_else": "r_map_or_else", "std::result::Result::<T, E>::is_ok_and": "r_is_ok_and",
    "std::result::Result::<T, E>::is_err_and": "r_is_err_and",
    "std::result::Result::<T, E>::inspect_err": "r_inspect_err", "std::result::Result::<T, E>::inspect": "r_inspect",
    "std::option::Option::<T>::inspect": "o_inspect",
    "std::bool::<impl bool>::then": "b_then", "std::bool::<impl bool>::then_some": "b_then_some",
    "std::iter::Iterator::for_each": "i_for_each", "std::iter::Iterator::try_for_each": "i_try_for_each",
    "std::iter::Iterator::any": "i_any", "std::iter::Iterator::all": "i_all", "std::iter::Iterator::find": "i_find",
    "std::iter::Iterator::find_map": "i_find_map",
}
OPT, RES, CF = "std::option::Option", "std::result::Result", "std::ops::ControlFlow"
VAR = {(OPT, 0): "None", (OPT, 1): "Some", (RES, 0): "Ok", (RES, 1): "Err", (CF, 0): "Continue", (CF, 1): "Break"}
UNKNOWN_TY = {"ty": "_"}


class Splicer:
    def __init__(self, prog, body, helpers):
        self.prog, self.body, self.helpers = prog, body, helpers
        self.blocks = copy.deepcopy(body.j["blocks"])
        self.locals = list(body.j["locals"])
        self.depth = [0] * len(self.blocks)
        self.stack = [()] * len(self.blocks)
        self.changed = False
        self.consumed = set()      # closures spliced in through a combinator template

    # ---- construction helpers
    def new_local(self, tyinfo):
        self.locals.append(dict(tyinfo))
        return len(self.locals) - 1

    def new_block(self, like, span):
        self.blocks.append({"cleanup": False, "stmts": [], "term": {"k": "unreachable", "span": span}, "inl": True, "syn": True})
        self.depth.append(self.depth[like])
        self.stack.append(self.stack[like])
        return len(self.blocks) - 1

    def assign(self, bb, lhs, rv, span):
        self.blocks[bb]["stmts"].append({"k": "assign", "lhs": lhs, "rv": rv, "span": span})

    def goto(self, bb, t, span):
        self.blocks[bb]["term"] = {"k": "goto", "t": t, "span": span}

    @staticmethod
    def L(l):
        return {"l": l, "p": []}

    @staticmethod
    def mv(pl):
        return {"k": "move", "pl": pl}

    @staticmethod
    def payload(pl, adt, vi, fty="_"):
        v = VAR[(adt, vi)]
        return {"l": pl["l"], "p": pl["p"] + [{"k": "downcast", "vi": vi, "variant": v, "owner": adt},
                                              {"k": "field", "i": 0, "fty": fty, "owner": adt, "variant": v, "vi": vi, "name": "0"}]}

    @staticmethod
    def agg(adt, vi, ops):
        return {"k": "aggregate", "agg": {"k": "adt", "adt": adt, "vi": vi, "variant": VAR[(adt, vi)], "fields": ["0"] if ops else []}, "ops": ops}

    def switch_enum(self, bb, pl, adt, t0, t1, span):
        d = self.new_local({"ty": "isize"})
        self.assign(bb, self.L(d), {"k": "discriminant", "pl": pl, "ty": adt + "<_>", "adt": adt}, span)
        dead = self.new_block(bb, span)
        self.blocks[bb]["term"] = {"k": "switch", "discr": self.mv(self.L(d)), "dty": "isize", "vals": [0, 1], "targets": [t0, t1],
                                   "otherwise": dead, "span": span}

    def switch_bool(self, bb, op, t_false, t_true, span):
        self.blocks[bb]["term"] = {"k": "switch", "discr": op, "dty": "bool", "vals": [0], "targets": [t_false], "otherwise": t_true, "span": span}

    # ---- callables
    def callable(self, op, tyinfo):
        """('closure', body) | ('fn', fnref) | None"""
        c = (tyinfo or {}).get("closure")
        if c and c in self.prog.bodies:
            cb = self.prog.bodies[c]
            if len(cb.blocks) <= MAX_BLOCKS:
                return ("closure", cb)
            return None
        if op.get("k") == "const" and op.get("fn"):
            return ("fn", op["fn"])
        return None

    def invoke(self, bb, cal, fop, arg_ops, dest, nxt, span):
        """make block bb call `cal` with arg_ops, store the result in dest and continue at nxt"""
        kind, x = cal
        if kind == "fn" and x.get("ctor"):
            # `.map(Some)` / `.map(Wrapper)`: a constructor used as a function builds the aggregate
            c = x["ctor"]
            self.assign(bb, dest, {"k": "aggregate", "agg": {"k": "adt", "adt": C.norm(c["adt"]), "vi": c["vi"], "variant": c["variant"],
                                                              "fields": c["fields"]}, "ops": arg_ops}, span)
            self.goto(bb, nxt, span)
            return
        if kind == "fn":
            self.blocks[bb]["term"] = {"k": "call", "callee": x, "args": arg_ops, "arg_tys": [UNKNOWN_TY] * len(arg_ops), "dest": dest,
                                       "dest_ty": "_", "t": nxt, "unwind": None, "span": span, "fn_span": span, "fty": "_"}
            return
        cb = x
        self.consumed.add(cb.name)
        off = len(self.locals)
        boff = len(self.blocks)
        self.locals += cb.locals
        env_ty = cb.locals[1]["ty"] if len(cb.locals) > 1 else ""
        fpl = op_place_(fop)
        if fpl is not None:
            if env_ty.startswith("&"):
                rv = {"k": "ref", "mut": env_ty.startswith("&mut"), "pl": fpl}
            else:
                rv = {"k": "use", "op": fop}
            self.assign(bb, self.L(off + 1), rv, span)
        for k, a in enumerate(arg_ops[:max(cb.arg_count - 1, 0)]):
            self.assign(bb, self.L(off + 2 + k), {"k": "use", "op": a}, span)
        new = [_remap_block(b, off, boff) for b in cb.blocks]
        for nb in new:
            if nb["term"]["k"] == "return":
                nb["stmts"].append({"k": "assign", "lhs": dest, "rv": {"k": "use", "op": self.mv(self.L(off))}, "span": nb["term"]["span"]})
                nb["term"] = {"k": "goto", "t": nxt, "span": nb["term"]["span"]}
        self.blocks[bb]["term"] = {"k": "goto", "t": boff, "span": span, "inlined_closure": cb.name}
        self.blocks += new
        self.depth += [self.depth[bb] + 1] * len(new)
        self.stack += [self.stack[bb] + (cb.name,)] * len(new)

    # ---- templates
    def try_combinator(self, i):
        blk = self.blocks[i]
        t = blk["term"]
        tpl = None
        for n in C.callee_names(t):
            tpl = tpl or COMBINATORS.get(n)
        if tpl is None or t.get("t") is None or not t["args"]:
            return False
        args, atys, span, dest, exit_ = t["args"], t.get("arg_tys") or [], t["span"], t["dest"], t["t"]
        if tpl == "b_then_some":
            # `c.then_some(v)`: Some(v) on the true edge, None on the false edge (v is evaluated either way: it already is an operand)
            if len(args) != 2 or t.get("t") is None:
                return False
            bt, bf = self.new_block(i, span), self.new_block(i, span)
            self.switch_bool(i, args[0], bf, bt, span)
            self.assign(bf, dest, self.agg(OPT, 0, []), span); self.goto(bf, exit_, span)
            self.assign(bt, dest, self.agg(OPT, 1, [args[1]]), span); self.goto(bt, exit_, span)
            self.changed = True
            return True
        s = op_place_(args[0])
        if s is None:
            return False
        n_f = {"o_map_or_else": 2, "r_map_or_else": 2}.get(tpl, 1)
        if len(args) < 1 + n_f + (1 if tpl in ("o_map_or", "r_map_or") else 0):
            return False
        fidx = list(range(len(args) - n_f, len(args)))
        cals = []
        for k in fidx:
            c = self.callable(args[k], atys[k] if k < len(atys) else None)
            if c is None or (c[0] == "closure" and (c[1].name == self.body.name or c[1].name in self.stack[i])):
                return False
            cals.append(c)
        f, fop = cals[-1], args[fidx[-1]]
        dty = {"ty": t.get("dest_ty", "_")}
        dadt = next((a for a in (OPT, RES, CF) if dty["ty"].startswith(a + "<")), None)
        if dadt:
            dty["adt"] = dadt
        if tpl == "i_try_for_each" and dadt is None:
            return False
        L, mv, pay, agg = self.L, self.mv, self.payload, self.agg
        nb = lambda: self.new_block(i, span)
        call_stmt_free = dict(blk)      # the original block keeps its statements; only the terminator is replaced

        def ret_ty(c):
            if c[0] == "closure":
                return c[1].locals[0]
            # `map::<U, F>` / `map_err::<F, O>` / `ok_or_else::<E, F>` / `then::<T, F>`: the produced type is the last but one type argument
            ta = t["callee"].get("targs") or []
            return ta[-2] if len(ta) >= 2 else UNKNOWN_TY

        def arm_wrap(bb, c, cop, xs, adt, vi):
            """tmp = c(xs); dest = adt::vi(tmp)"""
            tmp = self.new_local(ret_ty(c))
            b2 = nb()
            self.invoke(bb, c, cop, xs, L(tmp), b2, span)
            self.assign(b2, dest, agg(adt, vi, [mv(L(tmp))]), span)
            self.goto(b2, exit_, span)

        def arm_call(bb, c, cop, xs):
            self.invoke(bb, c, cop, xs, dest, exit_, span)

        def arm_set(bb, rv):
            self.assign(bb, dest, rv, span)
            self.goto(bb, exit_, span)

        use = lambda op: {"k": "use", "op": op}
        cbool = lambda v: {"k": "const", "v": v, "ty": "bool"}
        if tpl[0] in "or":
            adt = OPT if tpl[0] == "o" else RES
            b0, b1 = nb(), nb()            # variant 0 (None / Ok), variant 1 (Some / Err)
            self.switch_enum(i, s, adt, b0, b1, span)
            x0, x1 = mv(pay(s, adt, 0)) if adt == RES else None, mv(pay(s, adt, 1))
            if tpl == "o_map":
                arm_set(b0, agg(OPT, 0, [])); arm_wrap(b1, f, fop, [x1], OPT, 1)
            elif tpl == "o_and_then":
                arm_set(b0, agg(OPT, 0, [])); arm_call(b1, f, fop, [x1])
            elif tpl == "o_unwrap_or_else":
                arm_call(b0, f, fop, []); arm_set(b1, use(x1))
            elif tpl == "o_ok_or_else":
                arm_wrap(b0, f, fop, [], RES, 1); arm_set(b1, agg(RES, 0, [x1]))
            elif tpl == "o_map_or":
                arm_set(b0, use(args[1])); arm_call(b1, f, fop, [x1])
            elif tpl == "o_map_or_else":
                arm_call(b0, cals[0], args[fidx[0]], []); arm_call(b1, f, fop, [x1])
            elif tpl == "o_or_else":
                arm_call(b0, f, fop, []); arm_set(b1, use(args[0]))
            elif tpl in ("o_is_some_and", "o_is_none_or"):
                arm_set(b0, use(cbool("false" if tpl == "o_is_some_and" else "true"))); arm_call(b1, f, fop, [x1])
            elif tpl == "o_filter":
                arm_set(b0, agg(OPT, 0, []))
                r = self.new_local({"ty": "&_"}); bl = self.new_local({"ty": "bool"})
                self.assign(b1, L(r), {"k": "ref", "mut": False, "pl": pay(s, OPT, 1)}, span)
                b2, bt, bf = nb(), nb(), nb()
                self.invoke(b1, f, fop, [mv(L(r))], L(bl), b2, span)
                self.switch_bool(b2, mv(L(bl)), bf, bt, span)
                arm_set(bt, use(args[0])); arm_set(bf, agg(OPT, 0, []))
            elif tpl == "r_map":
                arm_wrap(b0, f, fop, [x0], RES, 0); arm_set(b1, agg(RES, 1, [x1]))
            elif tpl == "r_map_err":
                arm_set(b0, agg(RES, 0, [x0])); arm_wrap(b1, f, fop, [x1], RES, 1)
            elif tpl == "r_and_then":
                arm_call(b0, f, fop, [x0]); arm_set(b1, agg(RES, 1, [x1]))
            elif tpl == "r_or_else":
                arm_set(b0, agg(RES, 0, [x0])); arm_call(b1, f, fop, [x1])
            elif tpl == "r_unwrap_or_else":
                arm_set(b0, use(x0)); arm_call(b1, f, fop, [x1])
            elif tpl == "r_map_or":
                arm_call(b0, f, fop, [x0]); arm_set(b1, use(args[1]))
            elif tpl == "r_map_or_else":
                arm_call(b0, f, fop, [x0]); arm_call(b1, cals[0], args[fidx[0]], [x1])
            elif tpl == "r_is_ok_and":
                arm_call(b0, f, fop, [x0]); arm_set(b1, use(cbool("false")))
            elif tpl == "r_is_err_and":
                arm_set(b0, use(cbool("false"))); arm_call(b1, f, fop, [x1])
            elif tpl in ("r_inspect_err", "r_inspect", "o_inspect"):
                # the value passes through unchanged; the closure looks at one payload by reference
                look, skip = (b1, b0) if tpl != "r_inspect" else (b0, b1)
                arm_set(skip, use(args[0]))
                r = self.new_local({"ty": "&_"}); u = self.new_local({"ty": "()"})
                self.assign(look, L(r), {"k": "ref", "mut": False, "pl": pay(s, adt, 0 if tpl == "r_inspect" else 1)}, span)
                b2 = nb()
                self.invoke(look, f, fop, [mv(L(r))], L(u), b2, span)
                arm_set(b2, use(args[0]))
            else:
                return False
        elif tpl == "b_then":
            bt, bf = nb(), nb()
            self.switch_bool(i, args[0], bf, bt, span)
            arm_set(bf, agg(OPT, 0, [])); arm_wrap(bt, f, fop, [], OPT, 1)
        else:
            # iterator loops: `it` is the iterator (by value for for_each, `&mut I` otherwise)
            targs = (t["callee"].get("targs") or [UNKNOWN_TY])
            selfty = targs[0]["ty"] if targs else "_"
            head, got, done = nb(), nb(), nb()
            if tpl == "i_for_each":
                it = self.new_local(targs[0] if targs else UNKNOWN_TY)
                self.assign(i, L(it), use(args[0]), span)
                r = self.new_local({"ty": "&mut " + selfty})
                self.assign(head, L(r), {"k": "ref", "mut": True, "pl": L(it)}, span)
                rop = mv(L(r))
            else:
                rop = {"k": "copy", "pl": s}
            self.goto(i, head, span)
            item = self.new_local({"ty": OPT + "<_>", "adt": OPT})
            nxt = nb()
            self.blocks[head]["term"] = {
                "k": "call", "callee": {"path": "std::iter::Iterator::next", "rpath": "<%s as std::iter::Iterator>::next" % selfty, "full": "_",
                                        "krate": "core", "local": False, "targs": targs[:1], "synthetic": True},
                "args": [rop], "arg_tys": [{"ty": "&mut " + selfty}], "dest": L(item), "dest_ty": OPT + "<_>", "t": nxt, "unwind": None,
                "span": span, "fn_span": span, "fty": "_"}
            self.switch_enum(nxt, L(item), OPT, done, got, span)
            x = mv(pay(L(item), OPT, 1))
            if tpl == "i_for_each":
                u = self.new_local({"ty": "()"})
                self.invoke(got, f, fop, [x], L(u), head, span)
                arm_set(done, {"k": "aggregate", "agg": {"k": "tuple"}, "ops": []})
            elif tpl == "i_try_for_each":
                if dadt is None:
                    return False
                res = self.new_local(dty)
                chk, brk = nb(), nb()
                self.invoke(got, f, fop, [x], L(res), chk, span)
                cont_vi = 1 if dadt == OPT else 0
                tg = [head, brk] if cont_vi == 0 else [brk, head]
                self.switch_enum(chk, L(res), dadt, tg[0], tg[1], span)
                arm_set(brk, use(mv(L(res))))
                unit = self.new_local({"ty": "()"})
                self.assign(done, L(unit), {"k": "aggregate", "agg": {"k": "tuple"}, "ops": []}, span)
                arm_set(done, agg(dadt, cont_vi, [mv(L(unit))]))
            elif tpl in ("i_any", "i_all"):
                bl = self.new_local({"ty": "bool"})
                chk, hit = nb(), nb()
                self.invoke(got, f, fop, [x], L(bl), chk, span)
                if tpl == "i_any":
                    self.switch_bool(chk, mv(L(bl)), head, hit, span)
                else:
                    self.switch_bool(chk, mv(L(bl)), hit, head, span)
                arm_set(hit, use(cbool("true" if tpl == "i_any" else "false")))
                arm_set(done, use(cbool("false" if tpl == "i_any" else "true")))
            elif tpl == "i_find":
                r = self.new_local({"ty": "&_"}); bl = self.new_local({"ty": "bool"})
                self.assign(got, L(r), {"k": "ref", "mut": False, "pl": pay(L(item), OPT, 1)}, span)
                chk, hit = nb(), nb()
                self.invoke(got, f, fop, [mv(L(r))], L(bl), chk, span)
                self.switch_bool(chk, mv(L(bl)), head, hit, span)
                arm_set(hit, use(mv(L(item))))
                arm_set(done, agg(OPT, 0, []))
            elif tpl == "i_find_map":
                o = self.new_local(dty)
                chk, hit = nb(), nb()
                self.invoke(got, f, fop, [x], L(o), chk, span)
                self.switch_enum(chk, L(o), OPT, head, hit, span)
                arm_set(hit, use(mv(L(o))))
                arm_set(done, agg(OPT, 0, []))
            else:
                return False
        if self.blocks[i]["term"]["k"] == "switch" or self.blocks[i]["term"]["k"] == "goto":
            self.blocks[i]["term"]["desugared"] = C.callee_name(t)
        self.changed = True
        return True

    # ---- plain helper / direct closure call inlining
    def try_inline(self, i):
        blk = self.blocks[i]
        t = blk["term"]
        cb, is_closure = _target(self.prog, t, self.helpers)
        if cb is None or cb.name == self.body.name or cb.name in self.stack[i] or len(cb.blocks) > MAX_BLOCKS:
            return False
        off = len(self.locals)
        boff = len(self.blocks)
        self.locals += cb.locals
        setup = []
        args = t["args"]
        sp = t["span"]
        if is_closure and len(args) == 2 and cb.arg_count != 2:
            # rust-call ABI: (env, (a, b, ..)) -> params _1 = env, _2.. = tuple fields
            setup.append({"k": "assign", "lhs": {"l": off + 1, "p": []}, "rv": {"k": "use", "op": args[0]}, "span": sp})
            tp = C.op_place(args[1])
            for k in range(cb.arg_count - 1):
                if tp is None:
                    break
                fld = {"k": "field", "i": k, "owner": "(tuple)", "fty": cb.locals[2 + k]["ty"]}
                setup.append({"k": "assign", "lhs": {"l": off + 2 + k, "p": []},
                              "rv": {"k": "use", "op": {"k": "move", "pl": {"l": tp["l"], "p": tp["p"] + [fld]}}}, "span": sp})
        else:
            for k, a in enumerate(args[:cb.arg_count]):
                setup.append({"k": "assign", "lhs": {"l": off + 1 + k, "p": []}, "rv": {"k": "use", "op": a}, "span": sp})
        new = [_remap_block(b, off, boff) for b in cb.blocks]
        for nb in new:
            if nb["term"]["k"] == "return":
                nb["stmts"].append({"k": "assign", "lhs": t["dest"], "rv": {"k": "use", "op": {"k": "move", "pl": {"l": off, "p": []}}},
                                    "span": nb["term"]["span"]})
                if t.get("t") is not None:
                    nb["term"] = {"k": "goto", "t": t["t"], "span": nb["term"]["span"]}
                else:
                    nb["term"] = {"k": "unreachable", "span": nb["term"]["span"]}
        blk["stmts"] = blk["stmts"] + setup
        blk["term"] = {"k": "goto", "t": boff, "span": sp, "inlined_call": C.callee_name(t)}
        self.blocks += new
        self.depth += [self.depth[i] + 1] * len(new)
        self.stack += [self.stack[i] + (cb.name,)] * len(new)
        self.changed = True
        return True


def op_place_(op):
    return op["pl"] if op.get("k") in ("copy", "move") else None


def inline_body(prog, body, helpers):
    S = Splicer(prog, body, helpers)
    i = 0
    while i < len(S.blocks):
        blk = S.blocks[i]
        if blk["term"]["k"] == "call" and not blk["cleanup"] and S.depth[i] < MAX_DEPTH and not blk["term"]["callee"].get("synthetic"):
            if not S.try_combinator(i):
                S.try_inline(i)
        i += 1
    if not S.changed:
        return None, set()
    nj = dict(body.j)
    nj["blocks"] = S.blocks
    nj["locals"] = S.locals
    return nj, S.consumed


def _map_places(blocks, f):
    """rewrite every place of the body in place with f(place) -> place"""
    def op(o):
        if o is not None and o.get("k") in ("copy", "move"):
            o["pl"] = f(o["pl"])
    for blk in blocks:
        for st in blk["stmts"]:
            if "lhs" in st:
                st["lhs"] = f(st["lhs"])
            if st["k"] == "assign":
                rv = st["rv"]
                for key in ("op", "a", "b"):
                    if isinstance(rv.get(key), dict):
                        op(rv[key])
                if "pl" in rv:
                    rv["pl"] = f(rv["pl"])
                for o in rv.get("ops", []):
                    op(o)
        t = blk["term"]
        k = t["k"]
        if k == "switch":
            op(t["discr"])
        elif k == "call":
            for a in t["args"]:
                op(a)
            t["dest"] = f(t["dest"])
            if "callee_op" in t:
                op(t["callee_op"])
        elif k == "drop":
            t["pl"] = f(t["pl"])
        elif k == "assert":
            op(t["cond"])
            for o in t.get("mops", []):
                op(o)


def split_tuples(j):
    """scalar replacement of local tuples: `let t = (a, b); .. t.0 .. t.1 ..` with `t` only ever built from its parts and read field by field
    (what `match (x, mode) { (Err(_), Mode::Clean) => .., (r, _) => r }` compiles to) becomes one local per field, so that moves,
    borrows and discriminant reads of the parts are reads of ordinary locals.  Returns a rewritten copy of the body json, or None."""
    blocks = j["blocks"]
    nargs = j.get("arg_count", 0)
    defs, whole_use, field_use = {}, set(), set()

    def see(pl, is_def=False):
        l = pl["l"]
        if is_def and not pl["p"]:
            return
        if pl["p"] and pl["p"][0]["k"] == "field" and pl["p"][0].get("owner") == "(tuple)":
            field_use.add(l)
        else:
            whole_use.add(l)
        for e in pl["p"]:
            if e["k"] == "index":
                whole_use.add(e["l"])

    def see_op(o):
        if o is not None and o.get("k") in ("copy", "move"):
            see(o["pl"])
    for blk in blocks:
        for st in blk["stmts"]:
            if "lhs" in st:
                if not st["lhs"]["p"]:
                    defs.setdefault(st["lhs"]["l"], []).append(st)
                else:
                    see(st["lhs"], True)
                    defs.setdefault(st["lhs"]["l"], []).append(None)
            if st["k"] == "assign":
                rv = st["rv"]
                for key in ("op", "a", "b"):
                    if isinstance(rv.get(key), dict):
                        see_op(rv[key])
                if "pl" in rv:
                    see(rv["pl"])
                for o in rv.get("ops", []):
                    see_op(o)
        t = blk["term"]
        k = t["k"]
        if k == "switch":
            see_op(t["discr"])
        elif k == "call":
            for a in t["args"]:
                see_op(a)
            if t["dest"]["p"]:
                see(t["dest"], True)
            defs.setdefault(t["dest"]["l"], []).append(None)
            if "callee_op" in t:
                see_op(t["callee_op"])
        elif k == "drop":
            if not (blk.get("cleanup") and not t["pl"]["p"]):
                see(t["pl"])        # (the unwind path drops the tuple as a whole: not part of the normal flow the rules look at)
        elif k == "assert":
            see_op(t["cond"])
            for o in t.get("mops", []):
                see_op(o)
    cands = {}
    for l, ds in defs.items():
        if l <= nargs or l in whole_use or l not in field_use or not ds or any(d is None for d in ds):
            continue
        # every definition builds the tuple from its parts (one per match arm: `let (text, has_tail) = match step { .. }`)
        if not all(d["k"] == "assign" and d["rv"]["k"] == "aggregate" and d["rv"]["agg"]["k"] == "tuple" for d in ds):
            continue
        if len({len(d["rv"]["ops"]) for d in ds}) != 1:
            continue
        cands[l] = len(ds[0]["rv"]["ops"])
    if not cands:
        return None
    locals_ = list(j["locals"])
    part = {}
    for l, n in cands.items():
        for i in range(n):
            locals_.append({"ty": "_", "name": None, "syn": "tuple-part"})
            part[(l, i)] = len(locals_) - 1
    nb = copy.deepcopy(blocks)
    # field types: taken from the first projection that mentions them
    def f(pl):
        if pl["l"] in cands and pl["p"] and pl["p"][0]["k"] == "field" and pl["p"][0].get("owner") == "(tuple)":
            nl = part[(pl["l"], pl["p"][0]["i"])]
            fty = pl["p"][0].get("fty")
            if fty and locals_[nl]["ty"] == "_":
                head = C._split_targs(fty)[0]
                locals_[nl] = dict(locals_[nl], ty=fty, **({"adt": head} if re.match(r"^[A-Za-z_][A-Za-z_0-9]*(::[A-Za-z_][A-Za-z_0-9]*)+$", head) else {}))
            return {"l": nl, "p": pl["p"][1:]}
        return pl
    _map_places(nb, f)
    for blk in nb:
        out = []
        for st in blk["stmts"]:
            if st["k"] == "assign" and not st["lhs"]["p"] and st["lhs"]["l"] in cands and st["rv"]["k"] == "aggregate":
                for i, o in enumerate(st["rv"]["ops"]):
                    out.append({"k": "assign", "lhs": {"l": part[(st["lhs"]["l"], i)], "p": []}, "rv": {"k": "use", "op": o}, "span": st["span"]})
            else:
                out.append(st)
        blk["stmts"] = out
    nj = dict(j)
    nj["blocks"] = nb
    nj["locals"] = locals_
    return nj


def resolve_borrows(j):
    """`let r = &mut x; .. *r ..`  ==>  `.. x ..` for references that are bound exactly once to a place of this body (a `&mut bool`
    handed to a spliced helper, a reborrow chain, a field of `*self`).  Purely a renaming of places: `(*r)` and `x` are the same
    memory for as long as r is live.  Returns a rewritten copy of the body json, or None when nothing applies."""
    blocks = j["blocks"]
    nargs = j.get("arg_count", 0)
    ndefs = {}
    single = {}
    for bi, blk in enumerate(blocks):
        for st in blk["stmts"]:
            if "lhs" in st:
                l = st["lhs"]["l"]
                if st["lhs"]["p"] and st["lhs"]["p"][0]["k"] == "deref":
                    continue        # a store through the reference does not rebind it
                ndefs[l] = ndefs.get(l, 0) + 1
                if st["k"] == "assign" and not st["lhs"]["p"]:
                    single[l] = st["rv"]
        t = blk["term"]
        if t["k"] == "call":
            l = t["dest"]["l"]
            ndefs[l] = ndefs.get(l, 0) + 1
            if t["dest"]["p"] and t["dest"]["p"][0]["k"] == "deref":
                ndefs[l] -= 1
    stable = lambda l: l <= nargs or ndefs.get(l, 0) <= 1
    alias = {}

    def target(l, depth=0):
        if l in alias:
            return alias[l]
        if depth > 12 or l <= nargs or ndefs.get(l, 0) != 1 or l not in single:
            return None
        rv = single[l]
        res = None
        if rv["k"] == "ref":
            q = rv["pl"]
            if q["p"] and q["p"][0]["k"] == "deref":
                base = target(q["l"], depth + 1)
                if base is not None:
                    q = {"l": base["l"], "p": base["p"] + q["p"][1:]}
            if not any(e["k"] in ("index", "constindex", "subslice") for e in q["p"]) and \
                    (stable(q["l"]) or not any(e["k"] == "deref" for e in q["p"])):
                res = q
        elif rv["k"] == "use" and rv["op"].get("k") in ("copy", "move") and not rv["op"]["pl"]["p"]:
            res = target(rv["op"]["pl"]["l"], depth + 1)
        elif rv["k"] == "use" and rv["op"].get("k") in ("copy", "move") and len(rv["op"]["pl"]["p"]) == 1 and \
                rv["op"]["pl"]["p"][0]["k"] == "field" and rv["op"]["pl"]["p"][0].get("owner") == "(tuple)":
            # `_r = copy _t.0` with `_t = (move _a, ..)` built once: the reference that was put into the scrutinee tuple
            tl = rv["op"]["pl"]["l"]
            trv = single.get(tl) if tl > nargs and ndefs.get(tl, 0) == 1 else None
            i = rv["op"]["pl"]["p"][0]["i"]
            if trv is not None and trv["k"] == "aggregate" and trv["agg"]["k"] == "tuple" and i < len(trv["ops"]):
                o = trv["ops"][i]
                if o.get("k") in ("copy", "move") and not o["pl"]["p"]:
                    res = target(o["pl"]["l"], depth + 1)
        alias[l] = res
        return res

    hit = [False]

    def f(pl):
        if pl["p"] and pl["p"][0]["k"] == "deref":
            tg = target(pl["l"])
            if tg is not None and tg["l"] != pl["l"]:
                hit[0] = True
                return f({"l": tg["l"], "p": list(tg["p"]) + pl["p"][1:]})
        elif len(pl["p"]) >= 2 and pl["p"][0]["k"] == "field" and pl["p"][0].get("owner") == "(tuple)" and pl["p"][1]["k"] == "deref":
            # `match (&a, b) { (X, Y) => .. }`: the scrutinee tuple of references is built once; `*(t.0)` is `a`
            l = pl["l"]
            rv = single.get(l) if l > nargs and ndefs.get(l, 0) == 1 else None
            if rv is not None and rv["k"] == "aggregate" and rv["agg"]["k"] == "tuple" and pl["p"][0]["i"] < len(rv["ops"]):
                o = rv["ops"][pl["p"][0]["i"]]
                if o.get("k") in ("copy", "move") and not o["pl"]["p"]:
                    tg = target(o["pl"]["l"])
                    if tg is not None:
                        hit[0] = True
                        return f({"l": tg["l"], "p": list(tg["p"]) + pl["p"][2:]})
        return pl
    nb = copy.deepcopy(blocks)
    _map_places(nb, f)
    if not hit[0]:
        return None
    nj = dict(j)
    nj["blocks"] = nb
    return nj


FN_CALLS = ("std::ops::FnOnce::call_once", "std::ops::FnMut::call_mut", "std::ops::Fn::call")


def specialise_closure_params(prog):
    """`fn spawn<F: FnOnce() -> R>(&self, task: F) { pool.execute(move || send(task())) }` called with a closure literal: the helper and
    the closures it defines are copied per call site with F := that closure, so that `task()` inside the inner closure is a direct call
    of a known closure body (and is spliced like one). Pure monomorphisation of a generic helper at a call site whose type argument is a
    closure of this crate; nothing else is touched. Returns a new Program, or `prog` itself when there is nothing to do."""
    import copy
    import json as _json
    helpers = {n for n, b in prog.bodies.items() if is_helper(b)}
    kids = {}
    for n, b in prog.bodies.items():
        if b.kind == "Closure":
            kids.setdefault(b.j.get("root"), []).append(b)
    new_bodies = []
    made = {}
    ident = re.compile(r"^[A-Z][A-Za-z0-9_]*$")
    changed_callers = {}
    for n, b in prog.bodies.items():
        for bi, blk in enumerate(b.j["blocks"]):
            t = blk["term"]
            if t.get("k") != "call" or not isinstance(t.get("callee"), dict):
                continue
            hn = next((x for x in C.callee_names(t) if x in helpers and x in prog.bodies), None)
            if hn is None:
                continue
            cl_targs = [a for a in (t["callee"].get("targs") or []) if a.get("closure") in prog.bodies]
            if len(cl_targs) != 1:
                continue
            c1 = cl_targs[0]["closure"]
            H = prog.bodies[hn]
            # the type parameter that is called: targs[0] of an Fn* call in H or in a closure of H
            params = set()
            for hb in [H] + kids.get(hn, []):
                for bb2, t2 in hb.calls(live_only=False):
                    if C.callee_name(t2) in FN_CALLS:
                        ta = t2["callee"].get("targs") or []
                        if ta and ident.match(ta[0].get("ty", "")):
                            params.add(ta[0]["ty"])
            if len(params) != 1 or not kids.get(hn):
                continue
            P = next(iter(params))
            key = (hn, c1)
            if key not in made:
                tag = "<%s>" % c1
                ren = {hn: hn + tag}
                for kb in kids.get(hn, []):
                    ren[kb.name] = kb.name.replace(hn, hn + tag, 1)
                cty = cl_targs[0]["ty"]

                def fix(o):
                    if isinstance(o, dict):
                        if o.get("ty") == P:
                            o["ty"] = cty
                            o["closure"] = c1
                        if o.get("fty") == P:
                            o["fty"] = cty
                        for k in ("closure", "def", "owner", "root", "parent", "name"):
                            if isinstance(o.get(k), str) and o[k] in ren:
                                o[k] = ren[o[k]]
                        if o.get("k") == "call" and isinstance(o.get("callee"), dict):
                            cal = o["callee"]
                            ta = cal.get("targs") or []
                            if cal.get("path") in FN_CALLS and ta and ta[0].get("ty") == P:
                                cal["path"] = cal["rpath"] = c1
                                cal["local"] = cal["rlocal"] = True
                        for v in o.values():
                            fix(v)
                    elif isinstance(o, list):
                        for v in o:
                            fix(v)
                U = prog.bodies[c1].j.get("upvars") or []
                spec = []
                for hb in [H] + kids.get(hn, []):
                    nj = copy.deepcopy(hb.j)
                    fix(nj)
                    nj["specialised_from"] = hb.name
                    spec.append(nj)
                # flatten: an inner closure that captured the closure VALUE captures that closure's own upvars instead, and rebuilds the
                # value on entry — `move || send(task())` with task := `move || f(a, b)` reads as `move || send((move || f(a, b))())`
                # capturing a and b, which is what the unfactored code captures
                for nj in spec:
                    if nj.get("kind") != "Closure":
                        continue
                    ups = nj.get("upvars") or []
                    ius = [i for i, u in enumerate(ups) if u.get("closure") == c1]
                    if len(ius) != 1:
                        continue
                    iu = ius[0]
                    kname = nj["name"]
                    nj["upvars"] = ups[:iu] + copy.deepcopy(U) + ups[iu + 1:]
                    newl = len(nj["locals"])
                    nj["locals"].append({"ty": cty, "closure": c1})

                    def is_up(pl, i=None):
                        return pl["l"] == 1 and pl["p"] and pl["p"][0].get("k") == "field" and pl["p"][0].get("upvar") and \
                            pl["p"][0].get("owner") == kname and (i is None or pl["p"][0]["i"] == i)

                    def f(pl):
                        if is_up(pl, iu):
                            return {"l": newl, "p": pl["p"][1:]}
                        if is_up(pl) and pl["p"][0]["i"] > iu:
                            e = dict(pl["p"][0])
                            e["i"] = e["i"] + len(U) - 1
                            return {"l": pl["l"], "p": [e] + pl["p"][1:]}
                        return None
                    _map_places(nj["blocks"], lambda pl: f(pl) or pl)
                    sp0 = nj["span"]
                    ops = [{"k": "move", "pl": {"l": 1, "p": [{"k": "field", "i": iu + j, "fty": u["ty"], "owner": kname, "upvar": True}]}}
                           for j, u in enumerate(U)]
                    nj["blocks"][0]["stmts"].insert(0, {"k": "assign", "lhs": {"l": newl, "p": []},
                                                        "rv": {"k": "aggregate", "agg": {"k": "closure", "def": c1}, "ops": ops}, "span": sp0})
                    for dp_ in nj.get("debug_places") or []:
                        q = f(dp_["pl"])
                        if q is not None:
                            dp_["pl"] = q
                    # where this closure is built (in the specialised helper): pass the parts instead of the value
                    for hj in spec:
                        for blk in hj["blocks"]:
                            for st in blk["stmts"]:
                                if st.get("k") == "assign" and st["rv"].get("k") == "aggregate" and st["rv"]["agg"].get("def") == kname:
                                    o = st["rv"]["ops"][iu]
                                    pl = o.get("pl")
                                    if pl is None:
                                        continue
                                    parts = [{"k": "move", "pl": {"l": pl["l"], "p": pl["p"] + [
                                        {"k": "field", "i": j, "fty": u["ty"], "owner": c1, "upvar": True}]}} for j, u in enumerate(U)]
                                    st["rv"]["ops"] = st["rv"]["ops"][:iu] + parts + st["rv"]["ops"][iu + 1:]
                new_bodies += spec
                made[key] = ren[hn]
            changed_callers.setdefault(n, []).append((bi, made[key]))
    if not new_bodies:
        return prog
    bodies = []
    for j in prog.facts["bodies"]:
        if j["name"] in changed_callers:
            j = copy.deepcopy(j)
            for bi, hname in changed_callers[j["name"]]:
                cal = j["blocks"][bi]["term"]["callee"]
                cal["path"] = cal["rpath"] = hname
            bodies.append(j)
        else:
            bodies.append(j)
    facts2 = dict(prog.facts)
    facts2["bodies"] = bodies + new_bodies
    p2 = C.Program(facts2, prog.label)
    # a generic helper all of whose call sites were specialised is gone, with its closures
    gone = set()
    for (hn, c1) in made:
        if not any(hn in names for b in p2.bodies.values() if b.name != hn and b.j.get("root") != hn
                   for kind, bb, names, obj in C.body_mentions(b)):
            gone.add(hn)
    if gone:
        facts2["bodies"] = [j for j in facts2["bodies"] if j["name"] not in gone and j.get("root") not in gone]
        p2 = C.Program(facts2, prog.label)
    return p2


def inline_program(prog):
    prog = specialise_closure_params(prog)
    helpers = {n for n, b in prog.bodies.items() if is_helper(b)}
    new_bodies = []
    consumed = set()
    for n, b in prog.bodies.items():
        nj, cons = inline_body(prog, b, helpers)
        consumed |= cons
        tj = split_tuples(nj if nj is not None else b.j)
        if tj is not None:
            nj = tj
        rj = resolve_borrows(nj if nj is not None else b.j)
        if rj is not None:
            nj = rj
        new_bodies.append(nj if nj is not None else b.j)
    if not helpers and not consumed and all(nj is b.j for nj, b in zip(new_bodies, prog.bodies.values())):
        return prog, []
    facts2 = dict(prog.facts)
    facts2["bodies"] = new_bodies
    p2 = C.Program(facts2, prog.label)
    # helpers that are no longer mentioned anywhere disappear from the program (they live on inside their callers); so do closures
    # that were spliced into a match / loop and are no longer handed to (or called by) anything
    drop = set()
    while True:
        still = set()
        for b in p2.bodies.values():
            if b.name in drop:
                continue
            if b.name in helpers:
                # a helper that is itself going to be dropped does not keep others alive
                pass
            for kind, bb, names, obj in C.body_mentions(b):
                for nm in names:
                    if nm in helpers and b.name not in helpers:
                        still.add(nm)
            for bb, t in b.calls(live_only=False):
                for at in t.get("arg_tys") or []:
                    c = at.get("closure")
                    if c in consumed and not (b.name in helpers):
                        still.add(c)
                for nm in C.callee_names(t):
                    if nm in consumed:
                        still.add(nm)
            rt = b.locals[0]["ty"] if b.locals else ""
            for c in consumed:
                cb = prog.bodies[c]
                if "closure@" in rt and cb.j.get("parent") == b.name:
                    still.add(c)      # a function returning a closure: keep its closures
        nd = {h for h in helpers if h not in still} | {c for c in consumed if c not in still}
        if nd == drop:
            break
        drop = nd
    if drop:
        # closures defined inside a dropped body now belong to the function it was inlined into
        host = {}
        for j in new_bodies:
            if j["name"] in drop:
                continue
            for blk in j["blocks"]:
                ic = blk["term"].get("inlined_call") or blk["term"].get("inlined_closure")
                if ic in drop and ic not in host:
                    host[ic] = j["name"]

        def resolve(n):
            seen = set()
            while n in drop and n not in seen:
                seen.add(n)
                b = prog.bodies.get(n)
                n = host.get(n) or (b.j.get("parent") if b is not None and b.kind == "Closure" else None) or n
            return n
        out = []
        for j in new_bodies:
            if j["name"] in drop:
                continue
            if j.get("kind") == "Closure" and (j.get("root") in drop or j.get("parent") in drop):
                j = dict(j)
                j["parent"] = resolve(j.get("parent"))
                j["root"] = resolve(j.get("root"))
                rb = prog.bodies.get(j["root"])
                if rb is not None and rb.kind == "Closure":
                    j["root"] = rb.j.get("root") if rb.j.get("root") not in drop else resolve(rb.j.get("root"))
            out.append(j)
        facts2["bodies"] = out
        p2 = C.Program(facts2, prog.label)
    return p2, sorted(helpers)


def deep_body(prog, body, max_depth=3):
    """`body` with every call to a function of this crate spliced in (known functions included), for rules about what a function
    does as a whole: `add_done(n)` delegating to `add_done_quiet(n)` still adds n to the same counter."""
    cache = prog.__dict__.setdefault("_deep", {})
    if body.name in cache:
        return cache[body.name]
    global MAX_DEPTH
    allfns = {n for n, b in prog.bodies.items() if b.kind != "Closure"}
    old = MAX_DEPTH
    MAX_DEPTH = max_depth
    try:
        nj, _ = inline_body(prog, body, allfns)
    finally:
        MAX_DEPTH = old
    res = body if nj is None else C.Body(nj, prog)
    cache[body.name] = res
    return res
