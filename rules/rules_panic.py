"""C18: panic inventory (K8).  Every panic-capable site (may-panic callee mention or MIR Assert) in lib+bin
must be discharged by a generic guard rule or by a reviewed entry whose own structural guard is re-checked
on every run.  A new, unreviewed site is reported (sound, not complete).  Termination is not decided."""
import re

import core as C
import tables as T
from common import *  # noqa
from engine import prop, rule

prop("C18", "No input or configuration makes txtpp panic or hang",
     decided=["R18.1 every may-panic call (unwrap/expect/index/slice/assert!/unreachable!/...) and every MIR overflow/bounds Assert in "
              "lib+bin is discharged by a machine-checked guard (starts_with / find-derived index / a>=b edge / Some edge / switch arm) "
              "or by a reviewed entry whose own structural guard is re-checked",
              "R18.2 the operand of threadpool::Builder::num_threads is guarded by an edge establishing > 0",
              "R18.3 a worker that does not panic always reports: exactly one Sender::send on every normal path of each task closure (= C03 R03.1)"],
     not_decided=["termination / bounded time (liveness: loop exits depend on runtime counters)",
                  "panics inside dependencies beyond the documented preconditions listed in rules/tables.py",
                  "allocation failure, thread-spawn failure inside threadpool, stack overflow"])

STR_INDEX = "std::str::traits::<impl std::ops::Index<I> for str>::index"
VEC_INDEX = "<std::vec::Vec<T, A> as std::ops::Index<I>>::index"
LEN_FNS = ("std::string::String::len", "std::str::<impl str>::len", "std::vec::Vec::<T, A>::len", "std::slice::<impl [T]>::len")
FIND = "std::str::<impl str>::find"
STARTS_WITH = "std::str::<impl str>::starts_with"


def ident(b, op, **kw):
    """identity descriptors of a value: frozenset of leaf descriptors"""
    out = set()
    for l in C.trace(b, op, **kw):
        if l.kind == "call":
            out.add(("call", l.bb, C.callee_name(l.data)))
        elif l.kind in ("field", "upvar"):
            out.add(("field", tuple(C.pl_fields(l.data)), l.data["l"] if l.kind == "upvar" else None))
        elif l.kind == "param":
            out.add(("param", l.data))
        elif l.kind == "const":
            out.add(("const", C.op_const(l.data)))
        else:
            out.add((l.kind, l.bb))
    return frozenset(out)


def same(a, b):
    return bool(a) and bool(a & b)


def range_parts(b, op):
    """(kind, {field: operand}) of a std::ops::Range* aggregate feeding an index call"""
    for l in C.trace(b, op):
        if l.kind == "aggregate" and l.data["agg"]["k"] == "adt" and l.data["agg"]["adt"].startswith("std::ops::Range"):
            return l.data["agg"]["adt"].rsplit("::", 1)[1], dict(zip(l.data["agg"]["fields"], l.data["ops"]))
    return None, {}


def len_of(b, op):
    """if op is `len(x)`: identity of x (and constant value if x is a const)"""
    for l in C.trace(b, op):
        if l.kind == "call" and C.callee_name(l.data) in LEN_FNS:
            return ident(b, l.data["args"][0])
    return None


def from_find_on(b, op, s_id):
    """op is the index found by `find` on the string with identity s_id (or that string's len())"""
    for l in C.trace(b, op):
        if l.kind == "call":
            nm = C.callee_name(l.data)
            if nm == FIND and same(ident(b, l.data["args"][0]), s_id):
                return True
            if nm in LEN_FNS and same(ident(b, l.data["args"][0]), s_id):
                return True
            if nm == "std::option::Option::<T>::unwrap_or":
                if from_find_on(b, l.data["args"][0], s_id) and from_find_on(b, l.data["args"][1], s_id):
                    return True
            if nm == "std::bool::<impl bool>::then_some" and from_find_on(b, l.data["args"][1], s_id):
                return True
            if nm in ("<std::str::CharIndices<'_> as std::iter::Iterator>::next", "<std::str::CharIndices<'_> as std::iter::DoubleEndedIterator>::next_back"):
                # the usize of a char_indices() item is the byte offset of a character of that string
                its = C.trace(b, l.data["args"][0], through_fields=True)
                if its and all(i.kind == "call" and C.callee_name(i.data) == "std::str::<impl str>::char_indices" and
                               same(ident(b, i.data["args"][0]), s_id) for i in its):
                    return True
    return False


SUFFIX_FNS = ("std::str::<impl str>::trim_start", "std::str::<impl str>::trim_start_matches", "std::str::<impl str>::strip_prefix",
              "std::str::<impl str>::trim_left", "std::str::<impl str>::trim_left_matches")
PREFIX_FNS = ("std::str::<impl str>::trim_end", "std::str::<impl str>::trim_end_matches", "std::str::<impl str>::strip_suffix",
              "std::str::<impl str>::trim_right", "std::str::<impl str>::trim_right_matches")
SUB_FNS = ("std::str::<impl str>::trim", "std::str::<impl str>::trim_matches")


def part_of(b, op, s_id):
    """'suffix' / 'prefix' / 'sub' when every origin of the string `op` is a trim*/strip* of the string s_id (a contiguous part of it
    that ends / starts where it does), else None"""
    kinds = set()
    lv = C.trace(b, op)
    if not lv:
        return None
    for l in lv:
        nm = C.callee_name(l.data) if l.kind == "call" else None
        if nm in SUFFIX_FNS + PREFIX_FNS + SUB_FNS and same(ident(b, l.data["args"][0]), s_id):
            kinds.add("suffix" if nm in SUFFIX_FNS else "prefix" if nm in PREFIX_FNS else "sub")
        else:
            return None
    return kinds.pop() if len(kinds) == 1 else "sub"


def len_minus_part(b, op, s_id, want):
    """op == len(s) - len(t) with t a `want` ('suffix'/'prefix') part of s: the byte offset where t starts / the length s has left"""
    for l in C.trace(b, op):
        if l.kind == "binop" and l.data["op"].startswith("Sub"):
            lo = len_of(b, l.data["a"])
            if lo is None or not same(lo, s_id):
                return False
            for x in C.trace(b, l.data["b"]):
                if not (x.kind == "call" and C.callee_name(x.data) in LEN_FNS and part_of(b, x.data["args"][0], s_id) == want):
                    return False
            return True
    return False


def find_plus_patlen(b, op, s_id):
    """op == find(s, P) + k where P is a literal char / str whose UTF-8 length is k: the offset just behind the first P"""
    for l in C.trace(b, op):
        if not (l.kind == "binop" and l.data["op"].startswith("Add")):
            return False
        for x, y in ((l.data["a"], l.data["b"]), (l.data["b"], l.data["a"])):
            kc = C.op_const(y)
            m = re.match(r"(\d+)_usize$", kc or "")
            if not m:
                continue
            for f in C.trace(b, x):
                if f.kind == "call" and C.callee_name(f.data) == FIND and same(ident(b, f.data["args"][0]), s_id):
                    pats = [C.op_const(q.data) for q in C.trace(b, f.data["args"][1]) if q.kind == "const"]
                    if len(pats) == 1 and pats[0] is not None and _lit_utf8_len(pats[0]) == int(m.group(1)):
                        return True
        return False
    return False


def _lit_utf8_len(lit):
    """byte length of a char / str literal as printed by the fact driver ('x' or "xyz"); None when it contains an escape"""
    if len(lit) >= 2 and lit[0] == lit[-1] and lit[0] in "'\"" and "\\" not in lit:
        return len(lit[1:-1].encode("utf-8"))
    return None


def _split_at_half(b, op, depth=12):
    """(split_at call terminator, 0|1) when the string operand is one half of `s0.split_at(i)`"""
    p = C.op_place(op)
    seen = set()
    while p is not None and depth > 0 and p["l"] not in seen:
        depth -= 1
        flds = [e for e in p["p"] if e["k"] == "field"]
        ds = [r for r in b.defs().get(p["l"], []) if r[0] in ("assign", "call")]
        if len(flds) == 1 and flds[0].get("owner") == "(tuple)" and len(ds) == 1 and ds[0][0] == "call" and \
                C.callee_name(ds[0][2]) == "std::str::<impl str>::split_at":
            return ds[0][2], flds[0]["i"]
        if flds or len(ds) != 1 or ds[0][0] != "assign":
            return None
        seen.add(p["l"])
        rv = ds[0][3]["rv"]
        if rv["k"] in ("ref", "copyforderef"):
            p = rv["pl"]
        elif rv["k"] == "use" and C.op_place(rv["op"]) is not None:
            p = C.op_place(rv["op"])
        else:
            return None
    return None


def starts_with_cut(b, prog, s_id, idx_op):
    """true edges of s.starts_with(p) where idx == len(p), or p == " ".repeat(n) with idx == n"""
    idx_len = len_of(b, idx_op)
    idx_id = ident(b, idx_op)

    def pred(c, v, leaf):
        if c.kind != "bool" or leaf is None or leaf.kind != "call" or C.callee_name(leaf.data) != STARTS_WITH or v is not True:
            return False
        t = leaf.data
        if not same(ident(b, t["args"][0]), s_id):
            return False
        p_id = ident(b, t["args"][1])
        if idx_len is not None and same(p_id, idx_len):
            return True
        for l in C.trace(b, t["args"][1]):
            if l.kind == "call" and C.callee_name(l.data) == "std::str::<impl str>::repeat":
                unit = C.trace(b, l.data["args"][0])
                n_id = ident(b, l.data["args"][1])
                n_len = len_of(b, l.data["args"][1])
                if any(x.kind == "const" and len(C.op_const(x.data) or "") == 3 for x in unit) and \
                        (same(n_id, idx_id) or (n_len is not None and idx_len is not None and same(n_len, idx_len))):
                    return True    # one-byte unit repeated n times: byte length n
        return False
    return C.guard_edges(b, prog, pred)


class Site:
    def __init__(self, prog, b, bb, kind, what, t):
        self.prog, self.b, self.bb, self.kind, self.what, self.t = prog, b, bb, kind, what, t


def inventory(ctx):
    out = []
    for label in ("lib", "bin"):
        prog = ctx.progs.get(label)
        if not prog:
            continue
        for b in prog.bodies.values():
            lv = C.live(b)
            for bb, blk in enumerate(b.blocks):
                if blk["cleanup"] or bb not in lv:
                    continue
                t = blk["term"]
                if t["k"] == "assert" and t["msg"] not in ("MisalignedPointerDereference", "NullPointerDereference"):
                    out.append(Site(prog, b, bb, "assert", t["msg"], t))
                elif t["k"] == "call":
                    nm = C.callee_name(t)
                    if nm and T.may_panic(nm):
                        out.append(Site(prog, b, bb, "call", nm, t))
            # may-panic functions passed as values
            for kind, bb, names, obj in C.body_mentions(b):
                if kind == "fnitem" and T.may_panic(names[0]):
                    out.append(Site(prog, b, bb, "fnitem", names[0], obj))
    return out


# ------------------------------------------------------------------ generic dischargers

def d_sub_guarded(ctx, s):
    """Overflow(Sub)(a, b): guarded by an edge implying a >= b"""
    b, t = s.b, s.t
    a_op, b_op = t["mops"]
    a_id = ident(b, a_op)
    cv = C.op_const(b_op)
    if cv is not None:
        c = int(re.match(r"(-?\d+)", cv).group(1))
        # (i) switchInt(a) otherwise edge excluding 0..c-1
        def pred_int(cd, lab, leaf):
            if cd.kind != "int":
                return False
            if not same(frozenset(ident_leaves(b, cd.src)), a_id):
                return False
            return lab[0] == "otherwise" and all(v in lab[1] for v in range(c))
        cut = C.guard_edges(b, s.prog, pred_int)
        if cut and C.guarded(b, s.bb, cut):
            return "switch arm excludes 0..%d" % (c - 1)
        # (ii) a > k (k >= c-1) / a >= c edges: Le(a,k) false, Gt(a,k) true, Lt(a,c) false, Ge(a,c) true
        def pred_cmp(cd, v, leaf):
            if cd.kind != "bool" or leaf is None:
                return False
            if leaf.kind == "binop":
                op, x, y = leaf.data["op"], leaf.data["a"], leaf.data["b"]
            elif leaf.kind == "call" and C.callee_name(leaf.data) in ("std::cmp::PartialOrd::le", "std::cmp::PartialOrd::lt",
                                                                      "std::cmp::PartialOrd::gt", "std::cmp::PartialOrd::ge"):
                op = C.callee_name(leaf.data).rsplit("::", 1)[1].capitalize()
                x, y = leaf.data["args"]
            else:
                return False
            if not same(ident(b, x), a_id):
                return False
            kv = None
            for l in C.trace(b, y):
                if l.kind == "const":
                    m = re.match(r"(-?\d+)", C.op_const(l.data) or "")
                    kv = int(m.group(1)) if m else None
            if kv is None:
                return False
            return {"Le": (v is False and kv >= c - 1), "Gt": (v is True and kv >= c - 1),
                    "Lt": (v is False and kv >= c), "Ge": (v is True and kv >= c),
                    # unsigned: a != 0 means a >= 1
                    "Eq": (v is False and kv == 0 and c == 1), "Ne": (v is True and kv == 0 and c == 1)}.get(op, False)
        cut = C.guard_edges(b, s.prog, pred_cmp)
        if cut and C.guarded(b, s.bb, cut):
            return "guarded by a comparison implying a >= %d" % c
        # (iii) a == len(v) and the site is guarded by the Some edge of v.last()/v.first()/iteration over v
        lo = None
        for l in C.trace(b, a_op):
            if l.kind == "call" and C.callee_name(l.data) in LEN_FNS + ("std::collections::HashSet::<T, S, A>::len",):
                lo = ident(b, l.data["args"][0])
        if lo and c == 1:
            def pred_some(cd, vs, leaf):
                if cd.kind != "enum" or cd.adt != "std::option::Option" or vs != {"Some"}:
                    return False
                for l in cd.src:
                    if l.kind == "call":
                        nm = C.callee_name(l.data)
                        if nm in ("std::slice::<impl [T]>::last", "std::slice::<impl [T]>::first") and same(ident(b, l.data["args"][0]), lo):
                            return True
                        if nm.endswith("as std::iter::Iterator>::next"):
                            # iterator built from the same collection (iter()/enumerate())
                            src = C.trace(b, l.data["args"][0], transparent=lambda t: C.is_transparent(t) or C.callee_name(t) in ITER_BUILDERS)
                            if any(same(ident_leaf(b, x), lo) for x in src):
                                return True
                return False
            cut = C.guard_edges(b, s.prog, pred_some)
            if cut and C.guarded(b, s.bb, cut):
                return "len(v) - 1 under a Some edge of last()/iteration over the same v (v is non-empty)"
        return None
    # len(s) - len(t) where t is a trimmed / stripped part of s
    lo = len_of(b, a_op)
    if lo is not None:
        lb = [x for x in C.trace(b, b_op)]
        if lb and all(x.kind == "call" and C.callee_name(x.data) in LEN_FNS and part_of(b, x.data["args"][0], lo) for x in lb):
            return "len(s) - len(part of s): a trimmed / stripped part is never longer than the string"
    # non-constant b: edge implying a >= b
    b_id = ident(b, b_op)
    cut = cmp_holds_edges(b, s.prog, "ge", lambda lv: same(frozenset(ident_leaves(b, lv)), a_id), lambda lv: same(frozenset(ident_leaves(b, lv)), b_id))
    if cut and C.guarded(b, s.bb, cut):
        return "guarded by an edge implying a >= b"
    return None


ITER_BUILDERS = ("std::collections::HashSet::<T, S, A>::iter", "std::iter::Iterator::enumerate", "std::slice::<impl [T]>::iter",
                 "<I as std::iter::IntoIterator>::into_iter", "std::iter::IntoIterator::into_iter", "std::vec::Vec::<T, A>::iter")


def ident_leaf(b, l):
    if l.kind == "call":
        return frozenset([("call", l.bb, C.callee_name(l.data))])
    if l.kind in ("field", "upvar"):
        return frozenset([("field", tuple(C.pl_fields(l.data)), l.data["l"] if l.kind == "upvar" else None)])
    if l.kind == "param":
        return frozenset([("param", l.data)])
    if l.kind == "const":
        return frozenset([("const", C.op_const(l.data))])
    return frozenset([(l.kind, l.bb)])


def ident_leaves(b, leaves):
    out = set()
    for l in leaves:
        out |= ident_leaf(b, l)
    return out


def d_add_counter(ctx, s):
    """Overflow(Add) on usize/u64 accumulators: needs 2^64 events"""
    a_op, b_op = s.t["mops"]
    tys = set()
    for op in (a_op, b_op):
        p = C.op_place(op)
        if p is not None and not p["p"]:
            tys.add(s.b.locals[p["l"]]["ty"])
        elif p is not None and all(e["k"] == "deref" for e in p["p"]):
            tys.add(re.sub(r"^&(mut )?", "", s.b.locals[p["l"]]["ty"]))
        elif p is not None:
            tys.add(p["p"][-1].get("fty", "?"))
        else:
            tys.add(op.get("ty", "?"))
    if tys <= {"usize", "u64"}:
        return "64-bit counter of in-memory objects/events cannot wrap"
    return None


def d_str_index(ctx, s):
    b, t = s.b, s.t
    s_id = ident(b, t["args"][0])
    kind, parts = range_parts(b, t["args"][1])
    if kind is None:
        return None
    reasons = []
    for fld, op in parts.items():
        if C.op_const(op) in ("0_usize",):
            reasons.append("%s=0" % fld)
            continue
        if from_find_on(b, op, s_id):
            reasons.append("%s derives from find()/len() on the same string" % fld)
            continue
        if len_minus_part(b, op, s_id, "suffix"):
            reasons.append("%s = len(s) - len(suffix of s): the offset where the suffix starts" % fld)
            continue
        pl = [x for x in C.trace(b, op)]
        if pl and all(x.kind == "call" and C.callee_name(x.data) in LEN_FNS and part_of(b, x.data["args"][0], s_id) == "prefix" for x in pl):
            reasons.append("%s = len(prefix of s)" % fld)
            continue
        if find_plus_patlen(b, op, s_id):
            reasons.append("%s = find(s, literal) + byte length of the literal" % fld)
            continue
        cut = starts_with_cut(b, s.prog, s_id, op)
        if cut and C.guarded(b, s.bb, cut):
            reasons.append("%s = len(p) under starts_with(p)" % fld)
            continue
        # s = s0.split_at(find(s0, K)).1 and idx = len(K)
        klen = len_of(b, op)
        if klen and any(d[0] == "const" for d in klen):
            sp = _split_at_half(b, t["args"][0])
            if sp is not None and sp[1] == 1:
                st_ = sp[0]
                s0_id = ident(b, st_["args"][0])
                if any(x.kind == "call" and C.callee_name(x.data) == FIND and same(ident(b, x.data["args"][0]), s0_id)
                       and same(ident(b, x.data["args"][1]), klen) for x in C.trace(b, st_["args"][1])):
                    reasons.append("string is the second half of split_at(find(_, K)) and %s = len(K)" % fld)
                    continue
        # s = s0[find(s0, K)..] and idx = len(K)
        if klen:
            for l in C.trace(b, t["args"][0]):
                if l.kind == "call" and C.callee_name(l.data) == STR_INDEX:
                    k2, p2 = range_parts(b, l.data["args"][1])
                    if k2 == "RangeFrom":
                        for x in C.trace(b, p2["start"]):
                            # payload of the Some arm of find(s0, K)
                            if x.kind == "call" and C.callee_name(x.data) == FIND and same(ident(b, x.data["args"][1]), klen) \
                                    and any(d[0] == "const" for d in klen):
                                reasons.append("string starts at find(_, K) and %s = len(K)" % fld)
            if reasons and reasons[-1].startswith("string starts at"):
                continue
        return None
    if kind == "Range":
        # start <= end: an edge implying end >= start
        a_id, e_id = ident(b, parts["start"]), ident(b, parts["end"])
        cut = cmp_holds_edges(b, s.prog, "ge", lambda lv: same(frozenset(ident_leaves(b, lv)), e_id),
                              lambda lv: same(frozenset(ident_leaves(b, lv)), a_id))
        if not (cut and C.guarded(b, s.bb, cut)):
            return None
        reasons.append("end >= start edge")
    return "; ".join(reasons)


def str_index_bounded_only(ctx, s):
    """a str slice whose every endpoint n is known to be <= len(s) on the way to the site (the Some edge of `s.as_bytes().get(..n)` /
    `s.get(..n)`), but whose char-boundary argument is a byte-level validation the rules do not model: no verdict"""
    if not (s.kind == "call" and s.what == STR_INDEX):
        return None
    b, t = s.b, s.t
    s_id = ident(b, t["args"][0])
    kind, parts = range_parts(b, t["args"][1])
    if kind is None:
        return None
    GETS = ("std::slice::<impl [T]>::get", "std::str::<impl str>::get")
    for fld, op in parts.items():
        if C.op_const(op) == "0_usize":
            continue
        n_id = ident(b, op)

        def pred(cd, vs, leaf):
            if cd.kind != "enum" or cd.adt not in ("std::option::Option", "std::ops::ControlFlow") or not (vs <= {"Some", "Continue"}):
                return False
            for l in cd.src:
                if l.kind == "call" and C.callee_name(l.data) in GETS and same(ident(b, l.data["args"][0]), s_id):
                    k2, p2 = range_parts(b, l.data["args"][1])
                    if k2 in ("RangeTo", "RangeFrom") and all(same(ident(b, o), n_id) for o in p2.values()):
                        return True
            return False
        cut = C.guard_edges(b, s.prog, pred)
        if not (cut and C.guarded(b, s.bb, cut)):
            return None
    return "every endpoint is within the string (Some edge of get(..n) on its bytes); the char-boundary argument is not modelled"


def d_char_boundary(ctx, s):
    """s[..n] / s[n..] under the true edge of s.is_char_boundary(n) (false for n > len)"""
    b, t = s.b, s.t
    s_id = ident(b, t["args"][0])
    kind, parts = range_parts(b, t["args"][1])
    if kind not in ("RangeTo", "RangeFrom"):
        return None
    for fld, op in parts.items():
        n_id = ident(b, op)
        cut = bool_call_edges(b, s.prog, "std::str::<impl str>::is_char_boundary", True,
                              arg_pred=lambda tt: same(ident(b, tt["args"][0]), s_id) and same(ident(b, tt["args"][1]), n_id))
        if not (cut and C.guarded(b, s.bb, cut)):
            return None
    return "guarded by is_char_boundary on the same string and offset"


def d_unwrap_guarded(ctx, s):
    b, t = s.b, s.t
    v_id = ident(b, t["args"][0])
    probe = "std::option::Option::<T>::is_some" if "Option" in s.what else "std::result::Result::<T, E>::is_ok"
    cut = bool_call_edges(b, s.prog, probe, True, arg_pred=lambda tt: same(ident(b, tt["args"][0]), v_id))
    if cut and C.guarded(b, s.bb, cut):
        return "guarded by %s" % probe.rsplit("::", 1)[1]
    return None


# ------------------------------------------------------------------ reviewed entries (fn regex, kind/what regex) -> checker

def e_inject_slices(ctx, s):
    """inject_tags: output[last_end..i] and output[last_end..]"""
    b, t = s.b, s.t
    kind, parts = range_parts(b, t["args"][1])
    if kind not in ("Range", "RangeFrom"):
        return None
    # last_end is only ever assigned 0 or i + len(key)
    le = C.op_place(parts["start"])
    if le is None:
        return None
    le_local = None
    for l in C.trace(b, parts["start"]):
        pass
    starts = C.trace(b, parts["start"])
    okk = True
    for l in starts:
        if l.kind == "const" and C.op_const(l.data) == "0_usize":
            continue
        if l.kind == "binop" and l.data["op"] in ("Add", "AddWithOverflow"):
            continue
        if l.kind == "call" and C.callee_name(l.data).endswith("as std::ops::Add<usize>>::add"):
            continue
        okk = False
    if not okk or not starts:
        return None
    if kind == "Range":
        e_id, a_id = ident(b, parts["end"]), ident(b, parts["start"])
        cut = cmp_holds_edges(b, s.prog, "ge", lambda lv: same(frozenset(ident_leaves(b, lv)), e_id),
                              lambda lv: same(frozenset(ident_leaves(b, lv)), a_id))
        # any Lt(i, last_end)-false edge guarding the site
        if not (cut and C.guarded(b, s.bb, cut)):
            # the overlap test may live in a separate selection pass over other variables (`if start >= next_free { .. picked.push }`):
            # an ordering test between a found position and an end-of-previous accumulator exists, but that it governs THIS slice is
            # a value-level fact -> no verdict.  No such test at all (the guard was dropped) stays undischarged.
            is_pos = lambda lv: bool(lv) and all(l.kind == "call" and (C.callee_name(l.data) == FIND or C.callee_name(l.data).endswith("Iterator>::next"))
                                                 or l.kind == "field" for l in lv)
            is_acc = lambda lv: bool(lv) and any(l.kind == "binop" and l.data["op"].startswith("Add") for l in lv) and \
                all((l.kind == "const" and C.op_const(l.data) == "0_usize") or (l.kind == "binop" and l.data["op"].startswith("Add")) for l in lv)
            sel = cmp_holds_edges(b, s.prog, "ge", is_pos, is_acc)
            if not sel:
                # .. or in the closure of a `retain` / `filter` over the candidates (R14.12 / R18.6 judge that pass itself: the
                # accumulator advances only for occurrences that are kept)
                from rules_dir import _root_place
                for cb in ctx.lib.closures_of(b):
                    for cbb, csi, cst in cb.stmts():
                        if cst["k"] == "assign" and cst["rv"]["k"] == "binop" and cst["rv"]["op"] in ("Lt", "Le", "Gt", "Ge"):
                            for o in (cst["rv"]["a"], cst["rv"]["b"]):
                                P = _root_place(cb, o)
                                if P is not None and any(e.get("upvar") for e in P["p"]):
                                    sel = True
            if sel:
                return "UNVERIFIED: the slice bounds are found positions / (position + length) and an overlap test `pos >= end_of_previous` " \
                       "exists, but in a separate selection pass; that it orders these bounds is not decided structurally"
            return None
    return "last_end is 0 or (find index + key length); sorted positions with the overlap `continue` keep last_end <= i"


def e_args0(ctx, s):
    """Directive::fmt args[0]: every Directive is built with a non-empty args vector and args only grows"""
    lib = ctx.lib
    shrink = re.compile(r"^std::vec::Vec::<T, A>::(pop|clear|remove|truncate|drain|retain|swap_remove|split_off|dedup.*)$")
    for b in lib.bodies.values():
        for bb, t in b.calls():
            if shrink.match(C.callee_name(t)) and has_field(C.trace(b, t["args"][0], through_fields=True), "args"):
                return None
    n = 0
    for b in lib.bodies.values():
        for bb, st in aggregates(b, ADT["Directive"]):
            n += 1
            if b.j.get("impl_trait") == "std::clone::Clone" and b.span.get("exp"):
                continue        # a derived Clone copies `args` as it is
            if b.name != ROLE["directive_new"]:
                return None
    if n == 0:
        return None
    for (cb, cbb, t) in C.all_call_sites(lib, lambda ns, t: ROLE["directive_new"] in ns):
        lv = C.trace(cb, t["args"][3])
        good = False
        for l in lv:
            if l.kind == "call" and C.callee_name(l.data) in ("std::boxed::box_assume_init_into_vec_unsafe", "std::slice::<impl [T]>::into_vec",
                                                              "std::vec::from_elem"):
                good = True
        if not good:
            return None
    return "Directive{..} is built only in Directive::new, whose callers pass vec![_] (one element); args is only pushed to"


def e_notify_unwrap(ctx, s):
    """notify_finish: out_edge_counts.get_mut(depender).unwrap()"""
    lib = ctx.lib
    ad = body(ctx, "add_dependency")
    if not ad:
        return None
    # where the counter entry is known to exist afterwards: `entry(depender)`, `insert(depender, n)`, or the Some edge of a lookup
    ent = [(bb, t) for bb, t in ad.calls() if C.callee_name(t) in ("std::collections::HashMap::<K, V, S, A>::entry",
                                                                   "std::collections::HashMap::<K, V, S, A>::insert")
           and has_field(C.trace(ad, t["args"][0], through_fields=True), "out_edge_counts")]
    found = enum_edges(ad, lib, "std::option::Option", lambda vs: vs == {"Some"}, src_pred=lambda c: any(
        l.kind == "call" and C.callee_name(l.data) in ("std::collections::HashMap::<K, V, S, A>::get_mut", "std::collections::HashMap::<K, V, S, A>::get")
        and has_field(C.trace(ad, l.data["args"][0], through_fields=True), "out_edge_counts") for l in c.src))
    ins = [(bb, t) for bb, t in ad.calls() if C.callee_name(t) == "std::collections::HashSet::<T, S, A>::insert"]
    if not ent or not ins:
        return None
    cut = set(found)
    for bb, t in ent:
        cut |= {eid for eid, s_, lab in ad.edges(bb)}
    for bb, t in ins:
        if C.guarded(ad, bb, cut):
            continue
        # or the entry is created afterwards, on every way out of add_dependency (the coordinator is single-threaded)
        after = C.after_edges(ad, out_edges(ad, [bb]), cut=cut)
        if any(ad.term(x)["k"] == "return" for x in after):
            return None
    # out_edge_counts entries are removed only in notify_finish
    for b in lib.bodies.values():
        for bb, t in b.calls():
            if C.callee_name(t) == "std::collections::HashMap::<K, V, S, A>::remove" and \
                    has_field(C.trace(b, t["args"][0], through_fields=True), "out_edge_counts") and \
                    b.name != ROLE["notify_finish"] and b.root != ROLE["notify_finish"]:
                return None
    return "add_dependency creates the counter entry whenever it records an in-edge (before it, or on every path to its return); counters are removed only by notify_finish on the last edge"


def e_unreachable_collect(ctx, s):
    """execute_in_collect_deps_mode: `_ => unreachable!()` after the PpMode::Execute early return"""
    import modes as M
    mo = M.Modes(ctx.lib, mode_adts=(ADT["PpMode"],), all_modes=frozenset(["FirstPassExecute", "Execute", "CollectDeps"]))
    if mo.local_modes(s.b, s.bb):
        return None
    # pp_mode is not reassigned on a path that continues to the site
    for bb, si, st in s.b.stmts():
        if st["k"] == "assign" and st["lhs"]["p"] and st["lhs"]["p"][-1].get("name") == "pp_mode":
            if s.bb in s.b.reachable(bb):
                return None
    return "no PpMode variant reaches the site: Execute returns early, the other two have their own arms"


def e_assert_no_newline(ctx, s):
    """inject_tags: assert!(!output.ends_with('\\n')): the argument is a source line (R16.1)"""
    pv = prov(ctx)
    tgt = ROLE["tag_inject"]
    for (cb, cbb, t) in C.all_call_sites(ctx.lib, lambda ns, t: tgt in ns):
        for l in pv.leaves(cb, t["args"][1]):
            if l.kind == "call" and l.callee() in (ROLE["get_next_line"], ROLE["next_line"], "<std::io::Lines<B> as std::iter::Iterator>::next"):
                continue
            if l.kind == "const" and "\\n" not in (C.op_const(l.data) or ""):
                continue
            if is_empty_text(l):
                continue
            return None
    return "every inject_tags argument is an item of BufRead::lines() (terminator-free) or a newline-free constant"


def e_send_expect(ctx, s):
    """worker closures: send(..).expect(): the Receiver lives in Txtpp and Drop joins the pool before it is dropped"""
    lv = C.trace(s.b, s.t["args"][0])
    if not any(l.kind == "call" and C.callee_name(l.data) in ("std::sync::mpsc::Sender::<T>::send", "std::sync::mpsc::SyncSender::<T>::send") for l in lv):
        return None
    import rules_sched
    if s.b.name not in {cl.name for (_b, _bb, _t, cl) in rules_sched.spawner_bodies(ctx) if cl is not None}:
        return None       # only the task closures handed to ThreadPool::execute
    tx = ctx.lib.adts.get(ADT["Txtpp"])
    if not tx or not any("std::sync::mpsc::Receiver<" in f["ty"] for f in tx["variants"][0]["fields"]):
        return None
    d = body(ctx, "txtpp_drop")
    if not d or not calls_to(d, "threadpool::ThreadPool::join"):
        return None
    # .. on EVERY way out of drop (an early return before the join lets queued tasks outlive the receiver: their send fails and
    # the `expect` panics in the worker thread)
    joined = out_edges(d, [bb for bb, t in calls_to(d, "threadpool::ThreadPool::join")])
    if not all(C.guarded(d, r, joined) for r in C.live(d) if d.term(r)["k"] == "return"):
        return None
    # the receiver is never moved out of the struct
    for b in ctx.lib.bodies.values():
        for bb, si, st in b.stmts():
            if st["k"] == "assign" and st["rv"]["k"] == "use" and st["rv"]["op"]["k"] == "move":
                p = st["rv"]["op"]["pl"]
                if p["p"] and p["p"][-1].get("name") == "recv" and p["p"][-1].get("owner") == ADT["Txtpp"]:
                    return None
    return "the Receiver is a field of Txtpp, never moved out; <Txtpp as Drop>::drop joins the pool before the field is dropped"


def e_line_ending_buf(ctx, s):
    """get_line_ending_from_buf bounds: len is what read_until appended to the initially empty buf"""
    lib = ctx.lib
    tgt = ROLE["get_line_ending_from_buf"]
    cs = C.all_call_sites(lib, lambda ns, t: tgt in ns)
    if len(cs) != 1:
        return None
    cb, cbb, t = cs[0]
    # len derives from read_until via and_then(closure) ... accept: leaves include and_then / read_until
    names = set()
    len_of_buf = False
    for l in C.trace(cb, t["args"][1], through_decorators=True):
        if l.kind == "call":
            names.add(C.callee_name(l.data))
            # `f(&buf, buf.len())`: every index below len is in bounds whatever the buffer holds
            if C.callee_name(l.data) in LEN_FNS and same(ident(cb, l.data["args"][0]), ident(cb, t["args"][0])):
                len_of_buf = True
    if not len_of_buf and not names & {"std::result::Result::<T, E>::and_then", "std::io::BufRead::read_until"}:
        return None
    # the site's index is relative to the `len` parameter and sits in the matching arm of the switch on len
    b = s.b
    p_len = b.param_index_by_name("len")
    idx = s.t["mops"][1]
    idx_l = C.trace(b, idx)
    cval = None
    for l in idx_l:
        if l.kind == "const":
            cval = int(re.match(r"(\d+)", C.op_const(l.data)).group(1))
    if cval is not None:
        need = cval + 1       # buf[c] needs len >= c+1
        def pred(cd, lab, leaf):
            if cd.kind != "int" or not any(l.kind == "param" and l.data == p_len for l in cd.src):
                return False
            if lab[0] == "val":
                return lab[1] >= need
            return all(v in lab[1] for v in range(need))
        cut = C.guard_edges(b, s.prog, pred)
        if cut and C.guarded(b, s.bb, cut):
            return "buf[%d] in an arm where len >= %d; buf holds exactly the len bytes read_until appended" % (cval, need)
        return None
    # len - k (k >= 1): a chain of subtractions (`-` with its overflow check, or the Some payload of checked_sub) starting at `len`
    CSUB = "std::num::<impl usize>::checked_sub"

    def below_len(op, depth=0):
        """does every origin of `op` subtract at least once from the len parameter?"""
        lv = C.trace(b, op)
        if not lv or depth > 4:
            return False
        for l in lv:
            if l.kind == "binop" and l.data["op"].startswith("Sub"):
                minuend = l.data["a"]
            elif l.kind == "call" and C.callee_name(l.data) == CSUB:
                minuend = l.data["args"][0]
            else:
                return False
            k = C.trace(b, l.data["b"] if l.kind == "binop" else l.data["args"][1])
            if not (k and all(x.kind == "const" and re.match(r"[1-9]\d*_usize$", C.op_const(x.data) or "") for x in k)):
                return False
            m = C.trace(b, minuend)
            if m and all(x.kind == "param" and x.data == p_len for x in m):
                continue
            if not below_len(minuend, depth + 1):
                return False
        return True
    if below_len(idx):
        return "buf[len - k], k >= 1: the subtraction cannot wrap (overflow check / checked_sub); buf holds exactly len bytes"
    return None


def e_line_ending_slice(ctx, s):
    """`&buf[..len]`: buf holds exactly the len bytes read_until appended (same reasoning as e_line_ending_buf)"""
    b = s.b
    kind, parts = range_parts(b, s.t["args"][1])
    p_len = b.param_index_by_name("len")
    if kind == "RangeTo" and any(l.kind == "param" and l.data == p_len for l in C.trace(b, parts["end"])):
        cs = C.all_call_sites(ctx.lib, lambda ns, t: ROLE["get_line_ending_from_buf"] in ns)
        if len(cs) == 1:
            names = {C.callee_name(l.data) for l in C.trace(cs[0][0], cs[0][2]["args"][1], through_decorators=True) if l.kind == "call"}
            if names & {"std::result::Result::<T, E>::and_then", "std::io::BufRead::read_until"}:
                return "buf[..len]: len is what read_until appended to the initially empty buf"
    return None


def e_repeat(ctx, s):
    lv = C.trace(s.b, s.t["args"][1])
    if any(l.kind == "call" and C.callee_name(l.data) in LEN_FNS for l in lv):
        return "repeat count is the length of an existing in-memory string"
    return None


def e_file_count(ctx, s):
    a_op, b_op = s.t["mops"]
    if C.op_const(b_op) == "1_i32":
        return "counts completed files (one per finished task); 2^31 files cannot be processed"
    return None


def e_progress_add(ctx, s):
    return d_add_counter(ctx, s)


def e_clap(ctx, s):
    if s.t["span"].get("macro", "") and "clap" in (s.t["span"]["macro"] or ""):
        return "generated by clap's derive macros (subcommand presence was just checked by the generated code)"
    return None


def e_env_logger(ctx, s):
    n = 0
    for b in s.prog.bodies.values():
        for bb, t in b.calls():
            if C.callee_name(t) == "env_logger::init":
                n += 1
                if b.in_cycle(bb) or b.name != "txtpp::main":
                    return None
    return "env_logger::init is called exactly once, in main, outside any loop" if n == 1 else None


def e_num_threads(ctx, s):
    """R18.2"""
    b, t = s.b, s.t
    n_id = ident(b, t["args"][1])
    def positive(cd, v, leaf):
        """edges on which n >= 1 is implied by a comparison of n with a constant"""
        if cd.kind != "bool" or leaf is None or leaf.kind != "binop":
            return False
        op = leaf.data["op"]
        for first in (True, False):
            x, y = (leaf.data["a"], leaf.data["b"]) if first else (leaf.data["b"], leaf.data["a"])
            if not same(ident(b, x), n_id):
                continue
            kv = None
            for l in C.trace(b, y):
                if l.kind == "const":
                    m = re.match(r"(\d+)_usize", C.op_const(l.data) or "")
                    kv = int(m.group(1)) if m else None
            if kv is None:
                continue
            o = op if first else {"Lt": "Gt", "Gt": "Lt", "Le": "Ge", "Ge": "Le"}.get(op, op)
            # n o kv
            if (o == "Eq" and kv == 0 and v is False) or (o == "Ne" and kv == 0 and v is True) or \
                    (o == "Eq" and kv >= 1 and v is True) or \
                    (o == "Lt" and kv <= 1 and v is False) or (o == "Le" and kv == 0 and v is False) or \
                    (o == "Gt" and v is True) or (o == "Ge" and kv >= 1 and v is True):
                return True
        return False
    cut = C.guard_edges(b, s.prog, positive)
    if cut and C.guarded(b, s.bb, cut):
        return "guarded by an edge implying num_threads >= 1"
    # clamped: max(n, c>=1)
    for l in C.trace(b, t["args"][1]):
        if l.kind == "call" and C.callee_name(l.data) in ("std::cmp::Ord::max", "std::cmp::max", "std::cmp::impls::<impl std::cmp::Ord for usize>::max"):
            for a in l.data["args"]:
                v = C.op_const(a)
                if v and re.match(r"[1-9]\d*_usize", v):
                    return "clamped with max(_, >=1)"
    return None


REVIEWED = [
    (r"TagState::inject_tags$", r"^call:" + re.escape(STR_INDEX), e_inject_slices),
    (r"TagState::inject_tags$", r"^call:std::panicking::panic", e_assert_no_newline),
    (r"(::|<)Directive as std::fmt::Display>::fmt$", r"^call:" + re.escape(VEC_INDEX), e_args0),
    (r"(::|<)Directive as std::fmt::Display>::fmt$", r"^assert:BoundsCheck", e_args0),
    (r"DepManager::\w+(::\{closure#\d+\})*$", r"^call:std::option::Option::<T>::(unwrap|expect)$", e_notify_unwrap),
    (r"(execute_in_collect_deps_mode|execute_directive)$", r"^call:std::panicking::panic", e_unreachable_collect),
    (r"::\{closure#\d+\}$", r"^call:std::result::Result::<T, E>::expect$", e_send_expect),
    (r"get_line_ending_from_buf$", r"^assert:BoundsCheck", e_line_ending_buf),
    (r"get_line_ending_from_buf$", r"^call:std::slice::index::<impl std::ops::Index<I> for \[T\]>::index$", e_line_ending_slice),
    (r".*", r"^call:std::str::<impl str>::repeat$", e_repeat),
    (r"Txtpp::run_internal$", r"^assert:Overflow\(Add\)", e_file_count),
    (r"^<txtpp::(Cli|Command|Flags|BuildFlags) as clap::", r"^call:std::option::Option::<T>::unwrap$", e_clap),
    (r"^txtpp::main$", r"^call:env_logger::init$", e_env_logger),
    (r".*", r"^call:threadpool::(Builder::num_threads|ThreadPool::new|ThreadPool::with_name)$", e_num_threads),
]


def discharge(ctx, s):
    sig = "%s:%s" % (s.kind, s.what)
    # generic rules first
    if s.kind == "assert" and s.what.startswith("Overflow(Sub"):
        r = d_sub_guarded(ctx, s)
        if r:
            return "generic: " + r
    if s.kind == "assert" and s.what.startswith("Overflow(Add"):
        r = d_add_counter(ctx, s)
        if r:
            return "generic: " + r
    if s.kind == "call" and s.what == STR_INDEX:
        r = d_str_index(ctx, s) or d_char_boundary(ctx, s)
        if r:
            return "generic: " + r
    if s.kind == "call" and s.what == "std::str::<impl str>::split_at":
        s_id = ident(s.b, s.t["args"][0])
        if from_find_on(s.b, s.t["args"][1], s_id):
            return "generic: split_at index derives from find()/len() on the same string"
    if s.kind == "call" and s.what == VEC_INDEX:
        # v[..len(v)-1] style ranges: RangeTo{end} with end derived from len of the same vec
        kind, parts = range_parts(s.b, s.t["args"][1])
        if kind == "RangeFrom" and C.op_const(parts["start"]) in ("0_usize", "1_usize"):
            # v[1..] needs len(v) >= 1: under the Some edge of v.first() / v.last() (or v[0..]: always fine)
            if C.op_const(parts["start"]) == "0_usize":
                return "generic: v[0..] is always in range"
            b = s.b
            v_id = ident(b, s.t["args"][0])

            def pred_some(cd, vs, leaf):
                if cd.kind != "enum" or cd.adt != "std::option::Option" or vs != {"Some"}:
                    return False
                return any(l.kind == "call" and C.callee_name(l.data) in ("std::slice::<impl [T]>::first", "std::slice::<impl [T]>::last")
                           and same(ident(b, l.data["args"][0]), v_id) for l in cd.src)
            cut = C.guard_edges(b, s.prog, pred_some)
            if cut and C.guarded(b, s.bb, cut):
                return "generic: v[1..] under the Some edge of first()/last() on the same v (v is non-empty)"
        if kind == "RangeTo":
            v_id = ident(s.b, s.t["args"][0])
            for l in C.trace(s.b, parts["end"]):
                if l.kind == "binop" and l.data["op"].startswith("Sub"):
                    lo = len_of(s.b, l.data["a"])
                    if lo and same(lo, v_id):
                        return "generic: v[..len(v)-k] is always in range"
    if s.kind == "call" and s.what in ("std::option::Option::<T>::unwrap", "std::option::Option::<T>::expect",
                                       "std::result::Result::<T, E>::unwrap"):
        r = d_unwrap_guarded(ctx, s)
        if r:
            return "generic: " + r
    for (fpat, spat, fn) in REVIEWED:
        if re.search(fpat, s.b.name) and re.search(spat, sig):
            r = fn(ctx, s)
            if r:
                return "reviewed: " + r
    return None


def site_key(s):
    ops = []
    if s.kind == "assert":
        for op in s.t["mops"]:
            ops.append(",".join(sorted(str(d[0]) + ":" + str(d[-1]) for d in ident(s.b, op))))
    elif s.kind == "call":
        for op in s.t["args"][1:2]:
            ops.append(",".join(sorted(str(d[0]) for d in ident(s.b, op))))
    return [s.b.name, s.kind, s.what, "/".join(ops)]


DEBUG_ASSERT_RE = re.compile(r"(^|::)debug_assert(_eq|_ne)?$")


def debug_only(b, bb):
    """the block runs only under `cfg!(debug_assertions)` as written by debug_assert!/debug_assert_eq!/debug_assert_ne!: guarded by the true
    edge of the constant switch those macros expand to"""
    cut = set()
    for sbb in C.switches(b):
        sp = b.term(sbb).get("span") or {}
        ms = sp.get("macros") or []
        if ms and ms[0].endswith("::cfg") and any(DEBUG_ASSERT_RE.search(m) for m in ms[1:]):
            for eid, succ, lab in b.edges(sbb):
                if lab is not None and not (lab[0] == "val" and lab[1] == 0):
                    cut.add(eid)
    return bool(cut) and C.guarded(b, bb, cut)


@rule("C18", "R18.1", floor=34)
def r18_1(ctx):
    for s in inventory(ctx):
        if s.what.startswith("threadpool::"):
            continue
        site = ctx.site(s.b, s.bb, s.t.get("span"))
        if s.kind != "fnitem" and debug_only(s.b, s.bb):
            ctx.unverified("|".join(site_key(s)), site=site, detail="inside debug_assert!: compiled only with debug assertions on, absent from release "
                           "builds — its condition is not decided here")
            continue
        if s.kind == "fnitem":
            ctx.violation([s.b.name, "fnitem", s.what], "may-panic function %s passed as a value (e.g. .map(Option::unwrap)): cannot be discharged" % s.what, site=site)
            continue
        why = discharge(ctx, s)
        if why and "UNVERIFIED:" in why:
            ctx.unverified("|".join(site_key(s)), site=site, detail=why.split("UNVERIFIED:", 1)[1].strip())
        elif why:
            ctx.ok("|".join(site_key(s)), site=site, detail=why)
        elif str_index_bounded_only(ctx, s):
            ctx.unverified("|".join(site_key(s)), site=site, detail=str_index_bounded_only(ctx, s))
        else:
            ctx.violation(site_key(s), "panic-capable site not discharged: %s %s (%s) — no guard establishes its precondition and no reviewed "
                          "entry matches" % (s.kind, s.what, T.may_panic(s.what) or "MIR assert"), site=site,
                          witness=C.witness(s.b, s.bb))


@rule("C18", "R18.2", floor=1)
def r18_2(ctx):
    n = 0
    for s in inventory(ctx):
        if not s.what.startswith("threadpool::"):
            continue
        n += 1
        site = ctx.site(s.b, s.bb, s.t.get("span"))
        why = e_num_threads(ctx, s) if s.kind == "call" else None
        if why:
            ctx.ok("%s|%s" % (s.b.name, s.what), site=site, detail=why)
        else:
            ctx.violation([s.b.name, s.what], "the thread count reaches %s without a guard establishing > 0 (threadpool asserts "
                          "num_threads > 0: zero threads would panic)" % s.what, site=site, witness=C.witness(s.b, s.bb))
    if n == 0:
        # the pool may be built differently; then there is nothing to discharge, but say so
        ctx.ok("no threadpool constructor with a thread-count precondition is mentioned")


@rule("C18", "R18.3", floor=2)
def r18_3(ctx):
    import rules_sched
    rules_sched.r03_1(ctx)


@rule("C18", "R18.4", floor=3)
def r18_4(ctx):
    """no hang after a failure: Drop's drain loop can always be left once the channel is empty after an error — the error flag is
    set on every failing path of Txtpp::run before the value is dropped, and Drop breaks on it; receives are non-blocking"""
    lib = ctx.lib
    run = body(ctx, "txtpp_run")
    d = body(ctx, "txtpp_drop")
    if run:
        is_err = bool_call_edges(run, lib, "std::result::Result::<T, E>::is_err", True,
                                 arg_pred=lambda t: has_call(C.trace(run, t["args"][0]), ROLE["txtpp_run_internal"])) | \
            enum_edges(run, lib, "std::result::Result", lambda vs: vs == {"Err"}, src_pred=lambda c: has_call(c.src, ROLE["txtpp_run_internal"]))
        sets = [bb for bb, si, st in run.stmts() if st["k"] == "assign" and st["lhs"]["p"] and st["lhs"]["p"][-1].get("name") == "has_error"
                and st["rv"]["k"] == "use" and C.op_const(st["rv"]["op"]) == "true"]
        rets = [bb for bb in C.live(run) if run.term(bb)["k"] == "return"]
        if is_err and sets:
            reached = C.after_edges(run, is_err, cut=out_edges(run, sets))
            esc = [r for r in rets if r in reached and r not in sets]
            if esc:
                ctx.violation(["error-flag-skipped"], "Txtpp::run can return after a failed run without setting progress.has_error: Drop would then wait "
                              "forever for done == total (the failing result was counted twice)", site=ctx.site(run, esc[0]))
            else:
                ctx.ok("every failing path of Txtpp::run sets has_error before returning", site=ctx.site(run, sets[0]))
        else:
            ctx.violation(["error-flag-missing"], "Txtpp::run no longer records a failed run in progress.has_error (Drop's drain loop relies on it to "
                          "terminate when the counters do not balance)", site=ctx.site(run, 0))
    if d:
        recs = calls_to(d, "std::sync::mpsc::Receiver::<T>::try_recv")
        blocking = [C.callee_name(t) for bb, t in d.calls() if C.callee_name(t) in (
            "std::sync::mpsc::Receiver::<T>::recv", "std::sync::mpsc::Receiver::<T>::iter", "std::sync::mpsc::Receiver::<T>::recv_timeout")]
        if blocking:
            ctx.violation(["blocking-receive-in-drop"], "Drop uses the blocking %s: with the coordinator's own Sender alive it never returns" % blocking, site=ctx.site(d, 0))
        elif recs:
            # from the Empty arm, an exit (return) is reachable on the has_error edge without passing another receive or sleep
            he_true = C.guard_edges(d, lib, lambda c, v, leaf: c.kind == "bool" and leaf is not None and leaf.kind == "field" and has_field([leaf], "has_error") and v is True)
            rets = [bb for bb in C.live(d) if d.term(bb)["k"] == "return"]
            cutset = out_edges(d, [bb for bb, t in recs] + [bb for bb, t in calls_to(d, "std::thread::sleep")])
            if he_true and any(r in C.after_edges(d, he_true, cut=cutset) for r in rets):
                ctx.ok("Drop leaves its drain loop on the has_error edge", site=ctx.site(d, recs[0][0]))
            else:
                ctx.violation(["drop-ignores-error-flag"], "Drop's drain loop cannot be left on the has_error edge: after a failed run it would spin "
                              "until done == total, which never happens", site=ctx.site(d, recs[0][0]))
        else:
            ctx.ok("Drop does not drain the channel", site=ctx.site(d, 0))
    ri = body(ctx, "txtpp_run_internal")
    if ri:
        blocking = [C.callee_name(t) for bb, t in ri.calls() if C.callee_name(t) in (
            "std::sync::mpsc::Receiver::<T>::recv", "std::sync::mpsc::Receiver::<T>::iter")]
        if blocking:
            ctx.violation(["blocking-receive"], "the coordinator uses the blocking %s: it keeps a Sender itself, so a lost worker result blocks forever" % blocking,
                          site=ctx.site(ri, 0))
        else:
            ctx.ok("the coordinator only polls the channel (try_recv)", site=ctx.site(ri, 0))


@rule("C18", "R18.5", floor=2)
def r18_5(ctx):
    """no hang from the progress accounting: whatever was added to the total is matched by a task that reports — every file spawn is
    preceded by add_total(1), every counted directory is scanned (= C03 R03.2 / R03.9) and the result channel cannot block (R03.8)"""
    import rules_sched
    rules_sched.r03_2(ctx)
    rules_sched.r03_9(ctx)
    rules_sched.r03_8(ctx)


@rule("C18", "R18.7", floor=1)
def r18_7(ctx):
    """what is counted is what is started: where the length of a collection is added to the progress total, every iteration of the loop over
    that collection starts a task (or fails the run) — no element is skipped after it was counted. `add_total(files.len())` in front of the
    per-file "already in the build?" test counts duplicates that are never started: `done` cannot reach `total`, the coordinator polls
    forever"""
    import rules_sched
    rules_sched._counted_is_spawned(ctx)
