"""Canonical names: undo pure renames before the rules run.

A rule refers to crate-private functions, types and fields by name (the roles of common.py, field names such as `rem` or
`cur_directive`).  Renaming one of them changes no behaviour, so it must not change a verdict.  This pass compares the program with the
frozen signatures of the reviewed tree (rules/known_sigs.json, tools/gen_known.py) and, where an item of the reviewed tree is missing
and exactly ONE new item of the same owner has the same shape, rewrites the facts so that the item carries its reviewed name again:

* type      same parent module, same kind, same variants, same field types in the same order
* function  same owner (module / impl / trait impl), same parameter types in the same order, same return type
* field     same ADT and variant, same number of fields with the same types in the same order — names are mapped by position

Anything ambiguous (two candidates, changed signature) is left alone: the role then fails closed as before.  The rewrite is purely
nominal; bodies, control flow and types are untouched.  What was re-anchored is listed in the evidence.
"""
import json
import os
import re

_SIGS = None


def sigs():
    global _SIGS
    if _SIGS is None:
        p = os.path.join(os.path.dirname(os.path.abspath(__file__)), "known_sigs.json")
        try:
            _SIGS = json.load(open(p))
        except OSError:
            _SIGS = {"fns": {}, "adts": {}}
    return _SIGS


def split_last(name):
    """('owner path', 'last segment') split at the last `::` outside brackets"""
    depth = 0
    cut = -1
    i = 0
    while i < len(name):
        ch = name[i]
        if ch in "<([":
            depth += 1
        elif ch in ">)]":
            depth -= 1
        elif ch == ":" and depth == 0 and name[i:i + 2] == "::":
            cut = i
            i += 1
        i += 1
    return (name[:cut], name[cut + 2:]) if cut >= 0 else ("", name)


def _apply(text, ren):
    for new, old in sorted(ren.items(), key=lambda kv: -len(kv[0])):
        text = re.sub(re.escape(new) + r"(?![A-Za-z0-9_])", old.replace("\\", "\\\\"), text)
    return text


def detect(facts, label):
    base_f = sigs()["fns"].get(label, {})
    base_a = sigs()["adts"].get(label, {})
    if not base_f:
        return {}, {}
    crate = facts.get("crate", "txtpp")
    prog_adts = {a["path"]: a for a in facts["adts"] if a["path"].startswith(crate + "::")}
    prog_fns = {b["name"]: b for b in facts["bodies"] if b.get("kind") != "Closure"}
    ren = {}

    # ---- types
    def shape(a_variants, names=True):
        return [(v["name"] if names else None, [t for (_n, t) in v["fields"]]) for v in a_variants]

    missing = [n for n in base_a if n not in prog_adts]
    new = [n for n in prog_adts if n not in base_a]
    # fixpoint: the shape of one renamed type may mention another renamed type
    progress = True
    while progress:
        progress = False
        for m in list(missing):
            want = shape(base_a[m]["variants"], names=base_a[m]["kind"] == "Enum")
            cands = []
            for n in new:
                if prog_adts[n]["kind"] != base_a[m]["kind"]:
                    continue
                got = [(v["name"] if base_a[m]["kind"] == "Enum" else None, [_apply(f["ty"], dict(ren, **{n: m})) for f in v["fields"]])
                       for v in prog_adts[n]["variants"]]
                if got == want:
                    cands.append(n)
            # renamed in place (same module) > moved to another module under its own name > the only new type of that shape
            same_mod = [n for n in cands if split_last(n)[0] == split_last(m)[0]]
            same_name = [n for n in cands if split_last(n)[1] == split_last(m)[1]]
            pick = same_mod if len(same_mod) == 1 else same_name if len(same_name) == 1 and not same_mod else \
                cands if len(cands) == 1 and base_a[m]["kind"] == "Enum" else []
            if len(pick) == 1:
                ren[pick[0]] = m
                new.remove(pick[0])
                missing.remove(m)
                progress = True

    # ---- crate-local traits that were moved to another module or renamed: same last segment, else the same set of method names
    crate_p = crate + "::"

    def trait_of(n):
        mo = re.match(r"^<.+ as (.+)>::([A-Za-z0-9_]+)$", n) or re.match(r"^.*::<impl (.+?) for .+>::([A-Za-z0-9_]+)$", n)
        if mo and mo.group(1).startswith(crate_p):
            return re.sub(r"<[^<>]*>$", "", mo.group(1)), mo.group(2)
        return None
    base_tr, prog_tr = {}, {}
    for n in base_f:
        tm = trait_of(n)
        if tm:
            base_tr.setdefault(tm[0], set()).add(tm[1])
    for n in prog_fns:
        tm = trait_of(_apply(n, ren))
        if tm:
            prog_tr.setdefault(tm[0], set()).add(tm[1])
    new_tr = [t_ for t_ in prog_tr if t_ not in base_tr]
    for mt in [t_ for t_ in base_tr if t_ not in prog_tr]:
        c1 = [t_ for t_ in new_tr if split_last(t_)[1] == split_last(mt)[1]]
        c2 = [t_ for t_ in new_tr if prog_tr[t_] == base_tr[mt]]
        pick = c1 if len(c1) == 1 else c2 if len(c2) == 1 else []
        if pick:
            ren[pick[0]] = mt
            new_tr.remove(pick[0])

    # ---- impl blocks may be written in any module: `m::<impl path::T<'_>>::f` is the method `path::T::<'a>::f`, and
    #      `m::<impl Trait for T>::f` is `<T as Trait>::f`
    owners = {}
    for n in base_f:
        o = split_last(n)[0]
        if o and not o.startswith("<") and base_f[n]["kind"] == "AssocFn" and "<impl " not in o:
            owners.setdefault(re.sub(r"::<[^<>]*>$", "", o), o)

    def canonical(n):
        """the spelling a method would have if its impl block sat next to the type"""
        if n.startswith("<"):
            return n
        mo = re.match(r"^.*::<impl (.+?) for (.+)>::([A-Za-z0-9_]+)$", n)
        if mo:
            return "<%s as %s>::%s" % (mo.group(2), mo.group(1), mo.group(3))
        mo = re.match(r"^.*::<impl (.+)>::([A-Za-z0-9_]+)$", n)
        if mo and " for " not in mo.group(1):
            ty = re.sub(r"<[^<>]*>$", "", mo.group(1))
            if ty in owners:
                return "%s::%s" % (owners[ty], mo.group(2))
        return n
    for n in list(prog_fns):
        if n in base_f:
            continue
        c = canonical(_apply(n, ren))
        if c != _apply(n, ren) and c not in prog_fns:
            ren[n] = c
            if _apply(n, ren) != c:
                ren[_apply(n, ren)] = c
            prog_fns[c] = prog_fns.pop(n)
    # a baseline method whose impl block was folded back next to the type (`m::<impl T>::f` in the baseline, `T::f` now)
    for m in base_f:
        if m in prog_fns:
            continue
        c = canonical(m)
        if c != m and c in prog_fns and c not in base_f:
            ren[c] = m
            prog_fns[m] = prog_fns.pop(c)

    # ---- functions renamed and / or moved: same kind and signature (after the renames above); among several candidates the one whose
    #      callees resemble the reviewed function's most, by a clear margin
    def sig_of(b):
        return ([_apply(b["locals"][i]["ty"], ren) for i in range(1, b["arg_count"] + 1)], _apply(b["locals"][0]["ty"], ren), b.get("kind"))

    def calls_of(b):
        out = set()
        for blk in b["blocks"]:
            t = blk["term"]
            if t.get("k") == "call":
                import core as C_
                nm = C_.callee_name(t)
                if nm:
                    out.add(_apply(nm, ren))
        return out
    missing_f = [m for m in base_f if m not in prog_fns]
    new_f = [n for n in prog_fns if n not in base_f]
    pairs = []
    for m in missing_f:
        owner_m, last_m = split_last(m)
        want = (base_f[m]["params"], base_f[m]["ret"], base_f[m]["kind"])
        for n in new_f:
            b = prog_fns[n]
            if sig_of(b) != want:
                continue
            owner_n, last_n = split_last(_apply(n, ren))
            if want[2] != "Fn" and owner_n != owner_m:
                continue        # a method keeps its type (wherever the impl block is written); a free function may move
            cb, cn = set(base_f[m].get("calls", [])), calls_of(b)
            score = (len(cb & cn) / len(cb | cn)) if (cb | cn) else 1.0
            score += (0.2 if owner_n == owner_m else 0.0) + (0.1 if last_n == last_m else 0.0)
            pairs.append((score, m, n))
    pairs.sort(key=lambda x: (-x[0], x[1], x[2]))
    taken_m, taken_n = set(), set()
    for score, m, n in pairs:
        if m in taken_m or n in taken_n:
            continue
        rivals = [s_ for (s_, m2, n2) in pairs if (m2 == m) != (n2 == n) and m2 not in taken_m and n2 not in taken_n]
        if rivals and max(rivals) > score - 0.15:
            continue        # not clearly the best for both sides: leave it (the role then fails closed)
        taken_m.add(m)
        taken_n.add(n)
        ren[_apply(n, ren)] = m
        if _apply(n, ren) != n:
            ren[n] = m
        mo = re.match(r"^<.* as (.+)>$", split_last(m)[0])
        if mo:
            # the trait-path spelling of a trait-impl method: `<X as Trait>::new` is also mentioned as `Trait::new`
            ren["%s::%s" % (mo.group(1), split_last(n)[1])] = "%s::%s" % (mo.group(1), split_last(m)[1])

    # ---- fields, by position
    fld = {}
    for apath, a in prog_adts.items():
        old = ren.get(apath, apath)
        ba = base_a.get(old)
        if not ba or len(ba["variants"]) != len(a["variants"]):
            continue
        for vi, (bv, v) in enumerate(zip(ba["variants"], a["variants"])):
            if len(bv["fields"]) != len(v["fields"]):
                continue
            if [t for (_n, t) in bv["fields"]] != [_apply(f["ty"], ren) for f in v["fields"]]:
                continue
            for i, ((bn, _t), f) in enumerate(zip(bv["fields"], v["fields"])):
                if bn != f["name"]:
                    # a pure swap of two same-typed fields is indistinguishable from a rename: only map names the baseline does not have
                    if f["name"] in [x for (x, _t2) in bv["fields"]]:
                        continue
                    fld[(old, vi, i)] = (f["name"], bn)
    return ren, fld


def canonicalize(facts, label):
    """-> (facts', report) with report = {'renamed': {new: old}, 'fields': [...]}"""
    ren, fld = detect(facts, label)
    if not ren and not fld:
        return facts, None
    if ren:
        facts = json.loads(_apply(json.dumps(facts), ren))
    if fld:
        byadt = {}
        for (adt, vi, i), (newn, oldn) in fld.items():
            byadt.setdefault(adt, {})[(vi, i)] = oldn

        def walk(x):
            if isinstance(x, dict):
                if x.get("k") == "field" and x.get("owner") in byadt:
                    key = (x.get("vi") if x.get("vi") is not None else 0, x.get("i"))
                    if key in byadt[x["owner"]]:
                        x["name"] = byadt[x["owner"]][key]
                if x.get("k") == "adt" and x.get("adt") in byadt and isinstance(x.get("fields"), list):
                    vi = x.get("vi") or 0
                    x["fields"] = [byadt[x["adt"]].get((vi, i), n) for i, n in enumerate(x["fields"])]
                for v in x.values():
                    walk(v)
            elif isinstance(x, list):
                for v in x:
                    walk(v)
        walk(facts["bodies"])
        for a in facts["adts"]:
            if a["path"] in byadt:
                for vi, v in enumerate(a["variants"]):
                    for i, f in enumerate(v["fields"]):
                        if (vi, i) in byadt[a["path"]]:
                            f["name"] = byadt[a["path"]][(vi, i)]
    return facts, {"renamed": ren, "fields": sorted("%s[%d].%d: %s -> %s" % (a, vi, i, n, o) for (a, vi, i), (n, o) in fld.items())}
