"""Canonical names: undo pure renames before the rules run.

A rule refers to crate-private functions, types and fields by name (the roles of common.py, field names such as `rem` or
`cur_directive`).  Renaming one of them changes no behaviour, so it must not change a verdict.  This pass compares the program with the
frozen signatures of the reviewed tree (rules/known_sigs.json, tools/gen_known.py) and, where an item of the reviewed tree is missing
and exactly ONE new item of the same owner has the same shape, rewrites the facts so that the item carries its reviewed name again:

* type      same parent module, same kind, same variants, same field types in the same order
* function  same owner (module / impl / trait impl), same parameter types in the same order, same return type
* field     same ADT and variant, same number of fields with the same types in the same order — names are mapped by position

Anything ambiguous (two candidates, changed signature) is left alone: the role then fails closed as before.  The rewrite is purely
nominal; bodies, control flow and types are untouched.  What was re-anchored is listed in the evidence.
"""
import json
import os
import re

_SIGS = None


def sigs():
    global _SIGS
    if _SIGS is None:
        p = os.path.join(os.path.dirname(os.path.abspath(__file__)), "known_sigs.json")
        try:
            _SIGS = json.load(open(p))
        except OSError:
            _SIGS = {"fns": {}, "adts": {}}
    return _SIGS


def split_last(name):
    """('owner path', 'last segment') split at the last `::` outside brackets"""
    depth = 0
    cut = -1
    i = 0
    while i < len(name):
        ch = name[i]
        if ch in "<([":
            depth += 1
        elif ch in ">)]":
            depth -= 1
        elif ch == ":" and depth == 0 and name[i:i + 2] == "::":
            cut = i
            i += 1
        i += 1
    return (name[:cut], name[cut + 2:]) if cut >= 0 else ("", name)


def _apply(text, ren):
    for new, old in sorted(ren.items(), key=lambda kv: -len(kv[0])):
        text = re.sub(re.escape(new) + r"(?![A-Za-z0-9_])", old.replace("\\", "\\\\"), text)
    return text


def detect(facts, label):
    base_f = sigs()["fns"].get(label, {})
    base_a = sigs()["adts"].get(label, {})
    if not base_f:
        return {}, {}
    crate = facts.get("crate", "txtpp")
    prog_adts = {a["path"]: a for a in facts["adts"] if a["path"].startswith(crate + "::")}
    prog_fns = {b["name"]: b for b in facts["bodies"] if b.get("kind") != "Closure"}
    ren = {}

    # ---- types
    def shape(a_variants, names=True):
        return [(v["name"] if names else None, [t for (_n, t) in v["fields"]]) for v in a_variants]

    missing = [n for n in base_a if n not in prog_adts]
    new = [n for n in prog_adts if n not in base_a]
    # fixpoint: the shape of one renamed type may mention another renamed type
    progress = True
    while progress:
        progress = False
        for m in list(missing):
            want = shape(base_a[m]["variants"], names=base_a[m]["kind"] == "Enum")
            cands = []
            for n in new:
                if prog_adts[n]["kind"] != base_a[m]["kind"]:
                    continue
                got = [(v["name"] if base_a[m]["kind"] == "Enum" else None, [_apply(f["ty"], dict(ren, **{n: m})) for f in v["fields"]])
                       for v in prog_adts[n]["variants"]]
                if got == want:
                    cands.append(n)
            # renamed in place (same module) > moved to another module under its own name > the only new type of that shape
            same_mod = [n for n in cands if split_last(n)[0] == split_last(m)[0]]
            same_name = [n for n in cands if split_last(n)[1] == split_last(m)[1]]
            pick = same_mod if len(same_mod) == 1 else same_name if len(same_name) == 1 and not same_mod else \
                cands if len(cands) == 1 and base_a[m]["kind"] == "Enum" else []
            if len(pick) == 1:
                ren[pick[0]] = m
                new.remove(pick[0])
                missing.remove(m)
                progress = True

    # ---- inherent impl blocks may be written in any module: `m::<impl path::T<'_>>::f` and `path::T::<'a>::f` are the same method
    def inherent_key(n):
        if n.startswith("<"):
            return None
        mo = re.match(r"^.*::<impl (.+)>::([A-Za-z0-9_]+)$", n)
        if mo:
            if " for " in mo.group(1):
                return None
            return (re.sub(r"<[^<>]*>$", "", mo.group(1)), mo.group(2))
        o, last = split_last(n)
        return (re.sub(r"::<[^<>]*>$", "", o), last) if o else None

    by_key = {}
    for n in prog_fns:
        if n not in base_f and prog_fns[n].get("kind") == "AssocFn":
            k = inherent_key(_apply(n, ren))
            if k:
                by_key.setdefault(k, []).append(n)
    for m in base_f:
        if m in prog_fns or base_f[m]["kind"] != "AssocFn":
            continue
        k = inherent_key(m)
        if k and len(by_key.get(k, [])) == 1:
            n = by_key[k][0]
            ren[n] = m
            prog_fns[m] = prog_fns.pop(n)

    # ---- functions (signatures compared after the type renames)
    missing_f = [n for n in base_f if n not in prog_fns]
    new_f = [n for n in prog_fns if _apply(n, ren) not in base_f]
    used = set()
    for m in missing_f:
        owner_m, _last = split_last(m)
        want = (base_f[m]["params"], base_f[m]["ret"], base_f[m]["kind"])
        cands = []
        for n in new_f:
            if n in used:
                continue
            b = prog_fns[n]
            if split_last(_apply(n, ren))[0] != owner_m:
                continue
            got = ([_apply(b["locals"][i]["ty"], ren) for i in range(1, b["arg_count"] + 1)], _apply(b["locals"][0]["ty"], ren), b.get("kind"))
            if got == want:
                cands.append(n)
        # several missing functions of one owner with the same signature cannot be told apart
        same = [x for x in missing_f if split_last(x)[0] == owner_m and (base_f[x]["params"], base_f[x]["ret"], base_f[x]["kind"]) == want]
        if len(cands) == 1 and len(same) == 1:
            n = cands[0]
            used.add(n)
            ren[_apply(n, ren)] = m
            if _apply(n, ren) != n:
                ren[n] = m
            # the trait-path spelling of a trait-impl method: `<X as Trait>::new` is also mentioned as `Trait::new`
            mo = re.match(r"^<.* as (.+)>$", owner_m)
            if mo:
                ren["%s::%s" % (mo.group(1), split_last(n)[1])] = "%s::%s" % (mo.group(1), split_last(m)[1])

    # ---- fields, by position
    fld = {}
    for apath, a in prog_adts.items():
        old = ren.get(apath, apath)
        ba = base_a.get(old)
        if not ba or len(ba["variants"]) != len(a["variants"]):
            continue
        for vi, (bv, v) in enumerate(zip(ba["variants"], a["variants"])):
            if len(bv["fields"]) != len(v["fields"]):
                continue
            if [t for (_n, t) in bv["fields"]] != [_apply(f["ty"], ren) for f in v["fields"]]:
                continue
            for i, ((bn, _t), f) in enumerate(zip(bv["fields"], v["fields"])):
                if bn != f["name"]:
                    # a pure swap of two same-typed fields is indistinguishable from a rename: only map names the baseline does not have
                    if f["name"] in [x for (x, _t2) in bv["fields"]]:
                        continue
                    fld[(old, vi, i)] = (f["name"], bn)
    return ren, fld


def canonicalize(facts, label):
    """-> (facts', report) with report = {'renamed': {new: old}, 'fields': [...]}"""
    ren, fld = detect(facts, label)
    if not ren and not fld:
        return facts, None
    if ren:
        facts = json.loads(_apply(json.dumps(facts), ren))
    if fld:
        byadt = {}
        for (adt, vi, i), (newn, oldn) in fld.items():
            byadt.setdefault(adt, {})[(vi, i)] = oldn

        def walk(x):
            if isinstance(x, dict):
                if x.get("k") == "field" and x.get("owner") in byadt:
                    key = (x.get("vi") if x.get("vi") is not None else 0, x.get("i"))
                    if key in byadt[x["owner"]]:
                        x["name"] = byadt[x["owner"]][key]
                if x.get("k") == "adt" and x.get("adt") in byadt and isinstance(x.get("fields"), list):
                    vi = x.get("vi") or 0
                    x["fields"] = [byadt[x["adt"]].get((vi, i), n) for i, n in enumerate(x["fields"])]
                for v in x.values():
                    walk(v)
            elif isinstance(x, list):
                for v in x:
                    walk(v)
        walk(facts["bodies"])
        for a in facts["adts"]:
            if a["path"] in byadt:
                for vi, v in enumerate(a["variants"]):
                    for i, f in enumerate(v["fields"]):
                        if (vi, i) in byadt[a["path"]]:
                            f["name"] = byadt[a["path"]][(vi, i)]
    return facts, {"renamed": ren, "fields": sorted("%s[%d].%d: %s -> %s" % (a, vi, i, n, o) for (a, vi, i), (n, o) in fld.items())}
