"""P-taint: forward, whole-crate, field-based, context-insensitive value-flow graph (DESIGN §3.2).

Nodes   ('l', fn, local) | ('r', fn) return | ('f', adt, variant, field) crate ADT field | ('u', closure, i) upvar
Edges   assignments, aggregates (operand -> field and -> container), field reads, refs (a reference is merged with
        its referent), call argument -> parameter and callee return -> destination for crate-local callees,
        external calls: every argument -> destination and -> the referent of each `&mut` argument unless the callee
        is opaque; closures are linked BY TYPE of the operand; scalar-typed destinations are barriers for text.
"""
import re
from collections import defaultdict, deque

import core as C

SCALAR = {"usize", "u8", "u16", "u32", "u64", "u128", "isize", "i8", "i16", "i32", "i64", "i128", "bool", "char", "()", "f32", "f64", "!"}
WRAPPERS = ("std::option::Option", "std::result::Result", "std::ops::ControlFlow", "(tuple)", "std::boxed::Box")

# external callees whose result carries no text of their arguments
OPAQUE_RE = re.compile(
    r"(::len$|::is_empty$|::find$|::rfind$|::starts_with$|::ends_with$|::contains$|::contains_key$|::eq$|::ne$|::cmp$|::partial_cmp$|"
    r"::lt$|::le$|::gt$|::ge$|::is_some$|::is_none$|::is_ok$|::is_err$|::exists$|::is_file$|::is_dir$|::is_absolute$|"
    r"^std::fs::(write|remove_file|metadata)$|^std::fs::File::(create|open)$|^std::thread::sleep$|^log::|^std::io::_eprint$|"
    r"::hash$|^std::time::|^termcolor::|::is_whitespace$|^std::fs::Metadata::len$|^std::process::ExitStatus::|::from_residual$)")


def is_scalar(ty):
    t = ty
    while t.startswith("&"):
        t = t[1:].lstrip()
        if t.startswith("mut "):
            t = t[4:]
    return t in SCALAR


def tuple_arity(ty):
    """number of fields of a tuple type `(A, B, ..)` (references stripped); 0 for anything else"""
    t = ty
    while t.startswith("&"):
        t = t[1:].lstrip()
        if t.startswith("mut "):
            t = t[4:]
    if not (t.startswith("(") and t.endswith(")")) or t == "()":
        return 0
    depth, n = 0, 1
    for ch in t[1:-1]:
        if ch in "<([":
            depth += 1
        elif ch in ">)]":
            depth -= 1
        elif ch == "," and depth == 0:
            n += 1
    return n


class Taint:
    def __init__(self, prog, sanitizers=(), opaque_extra=(), track_scalars=False):
        self.prog = prog
        self.track_scalars = track_scalars
        self.sanitizers = set(sanitizers)
        self.opaque_extra = set(opaque_extra)
        self.succ = defaultdict(set)
        self.why = {}
        self._build()

    # ---- nodes
    def node_of_place(self, b, pl):
        """field-based node of a place"""
        crate_field = None
        for e in pl["p"]:
            if e["k"] == "field":
                if e.get("upvar"):
                    crate_field = ("u", e["owner"], e["i"])
                elif e.get("owner") and e["owner"] not in WRAPPERS and e["owner"] in self.prog.adts:
                    crate_field = ("f", e["owner"], e.get("variant"), e.get("name", e.get("i")))
        if crate_field:
            return crate_field
        # a field of a tuple-typed LOCAL is its own node (`let (pieces, used) = plan(..)`: what taints `used` does not taint `pieces`)
        first = next((e for e in pl["p"] if e["k"] != "deref"), None)
        if first is not None and first["k"] == "field" and first.get("owner") == "(tuple)" and tuple_arity(b.locals[pl["l"]]["ty"]):
            return ("t", b.name, pl["l"], first["i"])
        return ("l", b.name, pl["l"])

    def whole_tuple(self, b, pl):
        """arity when the place is a whole tuple-typed local (possibly behind derefs), else 0"""
        if pl is None or any(e["k"] != "deref" for e in pl["p"]):
            return 0
        return tuple_arity(b.locals[pl["l"]]["ty"])

    def nodes_of_op(self, b, op):
        """all nodes a read of the operand draws from: its node, plus every field node when it is a whole tuple local"""
        n = self.node_of_op(b, op)
        if n is None:
            return []
        out = [n]
        if op["k"] in ("copy", "move"):
            for i in range(self.whole_tuple(b, op["pl"])):
                out.append(("t", b.name, op["pl"]["l"], i))
        return out

    def node_of_op(self, b, op):
        if op["k"] in ("copy", "move"):
            # the error side of a Result/ControlFlow carries no text towards the sinks
            for e in op["pl"]["p"]:
                if e["k"] == "field" and e.get("owner") in ("std::result::Result", "std::ops::ControlFlow") and e.get("variant") in ("Err", "Break"):
                    return None
            return self.node_of_place(b, op["pl"])
        return None

    def place_ty(self, b, pl):
        if not pl["p"]:
            return b.locals[pl["l"]]["ty"]
        for e in reversed(pl["p"]):
            if e["k"] == "field":
                return e.get("fty", "?")
            if e["k"] in ("index", "constindex", "subslice"):
                return "?"
        # only derefs
        return re.sub(r"^&(mut )?", "", b.locals[pl["l"]]["ty"])

    def edge(self, a, b_, why=None):
        if a is None or b_ is None or a == b_:
            return
        if b_ not in self.succ[a]:
            self.succ[a].add(b_)
            if why:
                self.why[(a, b_)] = why

    # ---- construction
    def _build(self):
        prog = self.prog
        for b in prog.bodies.values():
            live = C.live(b)
            for l, decl in enumerate(b.locals):
                for i in range(tuple_arity(decl["ty"])):
                    self.edge(("l", b.name, l), ("t", b.name, l, i))      # a whole-value write (call result, payload) reaches every field
            for bb, blk in enumerate(b.blocks):
                if blk["cleanup"] or bb not in live:
                    continue
                for st in blk["stmts"]:
                    if st["k"] != "assign":
                        continue
                    self._stmt(b, st)
                t = blk["term"]
                if t["k"] == "call":
                    self._call(b, bb, t)
            # return place
            self.edge(("l", b.name, 0), ("r", b.name))
            for i in range(tuple_arity(b.locals[0]["ty"])):
                self.edge(("t", b.name, 0, i), ("r", b.name))

    def _stmt(self, b, st):
        lhs = st["lhs"]
        dst = self.node_of_place(b, lhs)
        rv = st["rv"]
        k = rv["k"]
        where = "%s@%s" % (b.name, st["span"]["line"])
        if not self.track_scalars and is_scalar(self.place_ty(b, lhs)):
            return
        if self.track_scalars and k == "unop":
            self.edge(self.node_of_op(b, rv["a"]), dst, where)
            return
        if k in ("use", "cast", "repeat"):
            src = self.node_of_op(b, rv["op"])
            if src is None and self._const_is_text(rv["op"]):
                src = ("c", b.name, st["span"]["line"], C.op_const(rv["op"]))
            sp = C.op_place(rv["op"])
            n_src, n_dst = self.whole_tuple(b, sp), self.whole_tuple(b, lhs)
            if n_src and n_src == n_dst:
                # tuple to tuple: field by field
                for i in range(n_src):
                    self.edge(("t", b.name, sp["l"], i), ("t", b.name, lhs["l"], i), where)
                self.edge(src, dst, where)
            else:
                for n in (self.nodes_of_op(b, rv["op"]) or [src]):
                    self.edge(n, dst, where)
        elif k in ("ref", "rawptr", "copyforderef"):
            src = self.node_of_place(b, rv["pl"])
            self.edge(src, dst, where)
            if rv.get("mut") or k == "rawptr":
                self.edge(dst, src, where)      # writes through the reference reach the referent
            n_src, n_dst = self.whole_tuple(b, rv["pl"]), self.whole_tuple(b, lhs)
            if n_src and n_src == n_dst:
                for i in range(n_src):
                    self.edge(("t", b.name, rv["pl"]["l"], i), ("t", b.name, lhs["l"], i), where)
                    if rv.get("mut") or k == "rawptr":
                        self.edge(("t", b.name, lhs["l"], i), ("t", b.name, rv["pl"]["l"], i), where)
            elif n_src:
                for i in range(n_src):
                    self.edge(("t", b.name, rv["pl"]["l"], i), dst, where)
        elif k == "aggregate":
            a = rv["agg"]
            if a["k"] == "adt" and a["adt"] in ("std::result::Result", "std::ops::ControlFlow") and a.get("variant") in ("Err", "Break"):
                return
            tuple_dst = a["k"] == "tuple" and self.whole_tuple(b, lhs) == len(rv["ops"]) and not lhs["p"]
            for i, op in enumerate(rv["ops"]):
                src = self.node_of_op(b, op)
                if op["k"] == "const" and self._const_is_text(op):
                    src = ("c", b.name, st["span"]["line"], C.op_const(op))
                extra = [n for n in self.nodes_of_op(b, op) if n != src]
                if tuple_dst:
                    for n in [src] + extra:
                        self.edge(n, ("t", b.name, lhs["l"], i), where)
                    continue
                for n in extra:
                    # a whole tuple stored into something else: all of its fields go along
                    if a["k"] == "adt" and a["adt"] in self.prog.adts:
                        adt_ = self.prog.adts[a["adt"]]
                        self.edge(n, ("f", a["adt"], a["variant"] if adt_["kind"] == "Enum" else None, a["fields"][i] if i < len(a["fields"]) else i), where)
                    elif a["k"] == "closure":
                        self.edge(n, ("u", a["def"], i), where)
                    else:
                        self.edge(n, dst, where)
                if a["k"] == "adt" and a["adt"] in self.prog.adts:
                    # a crate ADT value is represented by its (global, object-insensitive) field nodes only:
                    # every read of it goes through node_of_place -> field node, so no container edge is needed
                    adt = self.prog.adts[a["adt"]]
                    var = a["variant"] if adt["kind"] == "Enum" else None
                    nm = a["fields"][i] if i < len(a["fields"]) else i
                    self.edge(src, ("f", a["adt"], var, nm), where)
                elif a["k"] == "closure":
                    self.edge(src, ("u", a["def"], i), where)
                else:
                    self.edge(src, dst, where)
        elif k in ("binop", "unop"):
            pass

    def _const_is_text(self, op):
        return op["k"] == "const" and ("str" in op.get("ty", "") or "[u8" in op.get("ty", ""))

    def _call(self, b, bb, t):
        where = "%s@%s" % (b.name, t["span"]["line"])
        names = C.callee_names(t)
        dst = self.node_of_place(b, t["dest"])
        dst_scalar = is_scalar(t["dest_ty"]) and not self.track_scalars
        args = t["args"]
        arg_nodes = []
        for i, a in enumerate(args):
            n = self.node_of_op(b, a)
            if n is None and self._const_is_text(a):
                n = ("c", b.name, t["span"]["line"], C.op_const(a))
            extra = [x for x in self.nodes_of_op(b, a) if x != n]
            if extra:
                # one synthetic node stands for "the whole tuple as passed here": the local's own node and every field flow into it
                syn = ("a", b.name, bb, i)
                for x in [n] + extra:
                    self.edge(x, syn, where)
                if i < len(t.get("arg_tys", [])) and t["arg_tys"][i]["ty"].startswith("&mut"):
                    self.edge(syn, n, where)
                n = syn
            arg_nodes.append(n)
        if any(n in self.sanitizers for n in names):
            return
        target = None
        for n in names:
            if n in self.prog.bodies:
                target = self.prog.bodies[n]
                break
        # closures passed as arguments: linked by the operand's type
        closure_args = []
        for i, at in enumerate(t.get("arg_tys", [])):
            cl = at.get("closure")
            if cl and cl in self.prog.bodies:
                closure_args.append((i, self.prog.bodies[cl]))
        if target is not None:
            for i, n in enumerate(arg_nodes):
                p = ("l", target.name, i + 1)
                self.edge(n, p, where)
                if i < len(t.get("arg_tys", [])) and t["arg_tys"][i]["ty"].startswith("&mut"):
                    self.edge(p, n, where)
            if not dst_scalar:
                self.edge(("r", target.name), dst, where)
            return
        # indirect call of a closure value: `f()` / FnOnce::call_once(f, args)
        nm = names[0] if names else None
        if nm in ("std::ops::FnOnce::call_once", "std::ops::FnMut::call_mut", "std::ops::Fn::call") and closure_args:
            for (ci, cb) in closure_args:
                for j, n in enumerate(arg_nodes):
                    if j != ci:
                        for p in range(2, cb.arg_count + 1):
                            self.edge(n, ("l", cb.name, p), where)
                if not dst_scalar:
                    self.edge(("r", cb.name), dst, where)
            return
        opaque = bool(nm and (OPAQUE_RE.search(nm) or nm in self.opaque_extra))
        if closure_args:
            for (ci, cb) in closure_args:
                for j, n in enumerate(arg_nodes):
                    if j != ci:
                        for p in range(2, cb.arg_count + 1):
                            self.edge(n, ("l", cb.name, p), where)
                        # the closure environment is captured by the adaptor: result depends on it
                if not dst_scalar:
                    self.edge(("r", cb.name), dst, where)
                    self.edge(("l", b.name, C.op_place(args[ci])["l"]) if C.op_place(args[ci]) else None, dst, where)
        if opaque:
            return
        for i, n in enumerate(arg_nodes):
            if i in [c[0] for c in closure_args]:
                continue
            if not dst_scalar:
                self.edge(n, dst, where)
            # write-through: every argument flows into the referent of each &mut argument
            for j, m in enumerate(arg_nodes):
                if j != i and m is not None and j < len(t.get("arg_tys", [])) and t["arg_tys"][j]["ty"].startswith("&mut"):
                    self.edge(n, m, where)

    # ---- queries
    def forward(self, sources, barriers=()):
        """{node: predecessor} for every node reachable from the sources without entering a barrier"""
        barriers = set(barriers)
        prev = {}
        dq = deque()
        for s in sources:
            if s not in prev and s not in barriers:
                prev[s] = None
                dq.append(s)
        while dq:
            n = dq.popleft()
            for m in self.succ.get(n, ()):
                if m in prev or m in barriers:
                    continue
                prev[m] = n
                dq.append(m)
        return prev

    def chain(self, prev, node):
        out = []
        while node is not None:
            p = prev.get(node)
            out.append("%s  [%s]" % (fmt_node(node), self.why.get((p, node), "source") if p is not None else "source"))
            node = p
        return out[::-1]

    def text_const_nodes(self, pred):
        """constant nodes ('c', fn, line, value) satisfying pred(value)"""
        out = set()
        for a in list(self.succ.keys()):
            if a[0] == "c" and pred(a[3] or ""):
                out.add(a)
        return out

    def stats(self):
        nodes = set(self.succ.keys())
        e = 0
        for a, bs in self.succ.items():
            nodes |= bs
            e += len(bs)
        return len(nodes), e


def fmt_node(n):
    if n[0] == "l":
        return "%s::_%s" % (n[1].rsplit("::", 2)[-1] if "closure" not in n[1] else "::".join(n[1].rsplit("::", 3)[-2:]), n[2])
    if n[0] == "r":
        return "ret(%s)" % n[1].rsplit("::", 1)[-1]
    if n[0] == "f":
        return "field %s%s.%s" % (n[1].rsplit("::", 1)[-1], "::" + n[2] if n[2] else "", n[3])
    if n[0] == "u":
        return "upvar %s#%s" % (n[1].rsplit("::", 2)[-2] if "::" in n[1] else n[1], n[2])
    if n[0] == "c":
        return "const %s @%s:%s" % (n[3], n[1].rsplit("::", 1)[-1], n[2])
    if n[0] == "t":
        return "%s::_%s.%s" % (n[1].rsplit("::", 2)[-1], n[2], n[3])
    if n[0] == "a":
        return "arg#%s of the call in %s bb%s" % (n[3], n[1].rsplit("::", 2)[-1], n[2])
    return str(n)
