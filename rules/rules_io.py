"""C06 C07 C08 C09 C10: the mode x function effect matrix, FS/process surfaces, path provenance,
verify guards, needed-mode write gate, clean tolerances."""
import re

import core as C
import tables as T
from common import *  # noqa
from engine import prop, rule
import modes as M

NON_CLEAN = frozenset(["Build", "InMemoryBuild", "Verify"])

# =====================================================================================  C10
prop("C10", "txtpp only ever writes its own outputs and temp targets",
     decided=["R10.1 every FS-mutating API mention in lib+bin is one of the classified classes and no other mutating API is mentioned",
              "R10.2 the path operand of every create/truncate/remove site derives from remove_txtpp(input) (OUT) or from "
              "try_resolve(temp argument) (TMP); create_file is reachable only through try_resolve(create=true) from the temp writer",
              "R10.3 process/env APIs occur only in the one function that builds the Command; no env mutation, exit or abort",
              "R10.4 per-mode policy: nothing with role OUT is mutated in Verify, nothing is created or written in Clean, removal only in Clean"],
     not_decided=["that remove_txtpp computes the documented output name (value-level path arithmetic, e.g. a.b.txtpp.c -> a.c)",
                  "what the run commands themselves do to the file system"])


def _site_ctx(ctx, s):
    return ctx.site(s.body, s.bb, s.obj.get("span"))


def is_tmp_create(ctx, s):
    """the File::create by which try_resolve(create=true) makes a missing temp target exist (the helper `create_file` of the
    reviewed tree is always spliced into try_resolve before the rules run)"""
    tr = body(ctx, "try_resolve")
    return tr is not None and s.body is tr and s.cls == "CREATE_TRUNC" and s.role is None and s.kind == "call"


def _check_tmp_create(ctx, s):
    """File::create inside try_resolve: only on the true edge of `create`, on the path that is returned, and create=true is passed
    only by the temp writer outside Clean"""
    lib = ctx.lib
    tr = body(ctx, "try_resolve")
    wt = body(ctx, "write_temp_file")
    if not (tr and wt) or not is_tmp_create(ctx, s):
        return False
    ok = True
    bb, obj = s.bb, s.obj
    pcreate = tr.param_index_by_name("create")
    cut = C.guard_edges(tr, lib, lambda c, v, leaf: c.kind == "bool" and leaf is not None and leaf.kind == "param"
                        and leaf.data == pcreate and v is True)
    if pcreate is None or not C.guarded(tr, bb, cut):
        ctx.violation(["create_file-guard", tr.name], "the file creation in try_resolve is not guarded by the true edge of `create`",
                      site=ctx.site(tr, bb), witness=C.witness(tr, bb, cut), rule="R10.2")
        ok = False
    # the created path is the path that is returned (share_base argument)
    la = {(l.kind, l.bb) for l in C.trace(tr, obj["args"][0])}
    sb = resolved_path_sites(tr)
    lb = set()
    for sbb, sb_op in sb:
        lb |= {(l.kind, l.bb) for l in C.trace(tr, sb_op)}
    if not la or not la <= lb:
        ctx.violation(["create_file-path", tr.name], "the path created by try_resolve is not the path it returns",
                      site=ctx.site(tr, bb))
        ok = False
    # callers of try_resolve that may pass create=true
    for (b, cbb, t) in C.all_call_sites(lib, lambda ns, t: ROLE["try_resolve"] in ns):
        v = C.op_const(t["args"][2]) if len(t["args"]) > 2 else None
        if v == "false":
            continue
        if b is not wt:
            ctx.violation(["try_resolve-create", b.name], "try_resolve(_, create != false) outside the temp-file writer: "
                          "a missing path would be created", site=ctx.site(b, cbb), rule="R10.2")
            ok = False
        elif "Clean" in modes(ctx).site_modes(b, cbb):
            ctx.violation(["try_resolve-create-clean", b.name], "try_resolve(_, create != false) reachable in Clean mode", rule="R10.2",
                          site=ctx.site(b, cbb))
            ok = False
    if ok:
        ctx.ok("TMP-CREATE|%s" % s.key(), site=_site_ctx(ctx, s),
               detail="File::create <- try_resolve[create true edge] <- write_temp_file (non-Clean)")
    return True


def _tmp_leaf_ok(ctx, s):
    """TMP role: the try_resolve leaves sit in the temp writer and resolve its temp_path parameter"""
    wt = body(ctx, "write_temp_file")
    for l in s.leaves:
        if l.body is not wt:
            return "try_resolve result used as a write/remove target outside write_temp_file (in %s)" % l.body.name
        t = l.data
        lv = C.trace(wt, t["args"][1])
        if not has_param(lv, wt, "temp_path"):
            return "the resolved path does not derive from write_temp_file's temp_path parameter"
        lw = C.trace(wt, t["args"][0])
        if not has_field(lw, "work_dir"):
            return "the temp path is not resolved against IOCtx.work_dir"
    return None


def _out_leaf_ok(ctx, s):
    nw = body(ctx, "ioctx_new")
    for l in s.leaves:
        if l.body is not nw:
            return "remove_txtpp result used as a write target outside IOCtx::new (in %s)" % l.body.name
        lv = C.trace(nw, l.data["args"][0], transparent=lambda t: C.is_transparent(t, ABSPATH_VIEWS))
        if not has_param(lv, nw, "input_file"):
            return "remove_txtpp is not applied to IOCtx::new's input_file"
    return None


@rule("C10", "R10.1", floor=8)
def r10_1(ctx):
    """FS-mutation surface (K1) + path provenance (R10.2, K5) + mode policy (R10.4, K6)"""
    for s in fs_inventory(ctx):
        if s.cls in ("READ_BYTES", "READ_UTF8", "READ_OPEN", "PROCESS"):
            continue
        site = _site_ctx(ctx, s)
        if s.cls == "OTHER_MUTATING":
            ctx.violation([s.key()], "FS-mutating API %s (%s) is outside every cell of the effect matrix" % (
                s.name, T.FS_MUTATING.get(s.name, "")), site=site)
            continue
        if s.prog.label != "lib":
            ctx.violation([s.key()], "FS-mutating API %s in the binary crate" % s.name, site=site)
            continue
        if s.kind != "call":
            ctx.violation([s.key(), "fnitem"], "FS-mutating API %s passed as a function value: operand unknown" % s.name, site=site)
            continue
        if s.cls == "WRITE_HANDLE":
            # a handle can only come from a create/open site, whose own role and modes are checked; writing through it is
            # allowed where creating the output is allowed (a handle created on a temp target in the same function: where
            # temp targets may be written)
            if s.role == "TMP" and s.modes <= set(NON_CLEAN):
                ctx.ok("WRITE_HANDLE(TMP)|%s|modes=%s" % (s.key(), sorted(s.modes)), site=site)
            elif s.modes <= {"Build", "InMemoryBuild"}:
                ctx.ok("WRITE_HANDLE|%s|modes=%s" % (s.key(), sorted(s.modes)), site=site)
            else:
                ctx.violation([s.key(), "modes"], "write through an output handle reachable in mode(s) %s (allowed: Build, InMemoryBuild)" % sorted(s.modes - {"Build", "InMemoryBuild"}), site=site)
            continue
        # CREATE_TRUNC / REMOVE
        if s.role is None:
            if _check_tmp_create(ctx, s):
                continue
            ctx.violation(["R10.2", s.key(), "role"], "path operand of %s does not derive from remove_txtpp(input) or try_resolve(temp target); leaves: %s" % (
                s.name, sorted({l.describe() for l in s.leaves})[:6]), site=site, rule="R10.2")
            continue
        why = _out_leaf_ok(ctx, s) if s.role == "OUT" else _tmp_leaf_ok(ctx, s)
        if why:
            ctx.violation(["R10.2", s.key(), s.role], why, site=site, rule="R10.2")
            continue
        ctx.ok("%s(%s)|%s" % (s.cls, s.role, s.key()), site=site, rule="R10.2",
               detail={"leaves": sorted({l.describe() for l in s.leaves})})
        # mode policy
        if s.cls == "REMOVE":
            allowed = {"Clean"}
        elif s.role == "OUT":
            allowed = {"Build", "InMemoryBuild"}
        else:
            allowed = set(NON_CLEAN)
        if s.modes <= allowed:
            ctx.ok("%s(%s)|%s|modes=%s" % (s.cls, s.role, s.key(), sorted(s.modes)), site=site)
        else:
            ctx.violation([s.key(), "modes"], "%s on a %s path reachable in mode(s) %s (allowed: %s)" % (
                s.cls, s.role, sorted(s.modes - allowed), sorted(allowed)), site=site, rule="R10.4")
    ctx.floor("R10.2", 5, "5 path sites with OUT/TMP provenance")


@rule("C10", "R10.3", floor=6)
def r10_3(ctx):
    """process surface: Command::* only in the function that mentions Command::new; no env mutation / exit / abort"""
    procs = [s for s in fs_inventory(ctx) if s.cls == "PROCESS"]
    homes = {s.body.name for s in procs if s.name == "std::process::Command::new"}
    for s in procs:
        site = _site_ctx(ctx, s)
        if s.name in T.ENV_MUTATING or s.name in ("std::process::exit", "std::process::abort"):
            ctx.violation([s.key()], "%s mutates the process environment / exits" % s.name, site=site)
        elif s.body.name not in homes or len(homes) != 1 or s.prog.label != "lib":
            ctx.violation([s.key()], "process API %s outside the single command-building function %s" % (s.name, sorted(homes)), site=site)
        else:
            ctx.ok("PROCESS|%s" % s.key(), site=site)


# =====================================================================================  C06
prop("C06", "Verify passes exactly when outputs are up to date, and is read-only",
     decided=["R06.1 no create/truncate/remove/handle-write on an output path is reachable in Verify mode; the Verify handle comes from File::open",
              "R06.2a the Verify context is built only on the `exists` edge of the output path",
              "R06.2b each verified chunk returns Ok only after rem>=len, a successful read_exact and buffer==chunk, and rem is decreased by len",
              "R06.2c finishing returns Ok only on the rem==0 edge",
              "R06.3 rem starts as metadata(OUT).len()"],
     not_decided=["'iff' over all tamperings as a statement about the runtime file cursor (sequential reads are not modelled)",
                  "that the fresh chunks equal what a build would write (C01)"])


@rule("C06", "R06.1", floor=4)
def r06_1(ctx):
    n = 0
    for s in fs_inventory(ctx):
        if s.prog.label != "lib" or s.cls not in ("CREATE_TRUNC", "REMOVE", "WRITE_HANDLE", "OTHER_MUTATING"):
            continue
        site = _site_ctx(ctx, s)
        if s.cls in ("CREATE_TRUNC", "REMOVE", "WRITE_HANDLE") and s.role == "TMP":
            continue      # temp targets are (re)written in verify by design
        if is_tmp_create(ctx, s):
            # TMP-CREATE (the file creation inside try_resolve, R10.2): in Verify it may only be requested by the temp writer — any other
            # caller asking for `create` would make verify create a missing output / include target
            wt_ = body(ctx, "write_temp_file")
            for (cb, cbb, ct) in C.all_call_sites(ctx.lib, lambda ns, t: ROLE["try_resolve"] in ns):
                v = C.op_const(ct["args"][2]) if len(ct["args"]) > 2 else None
                if v == "false" or cb is wt_:
                    continue
                if "Verify" in modes(ctx).site_modes(cb, cbb):
                    ctx.violation([cb.name, "try_resolve-create-verify"], "try_resolve(_, create) outside the temp writer is reachable in Verify mode: "
                                  "verify would create a missing file", site=ctx.site(cb, cbb))
            continue
        if "Verify" in s.modes:
            ctx.violation([s.key()], "%s (%s) is reachable in Verify mode: verify must not create, modify or delete outputs" % (s.name, s.cls), site=site)
        else:
            ctx.ok("%s|%s|modes=%s" % (s.cls, s.key(), sorted(s.modes)), site=site)
    # the handle stored in CtxOut::Verify derives from File::open
    cn = body(ctx, "ctxout_new")
    if cn:
        ags = aggregates(cn, ADT["CtxOut"], "Verify")
        if not ags:
            ctx.anchor_missing("CtxOut::Verify aggregate")
        for bb, st in ags:
            # every file handle that ends up inside the Verify context (directly, or inside a private cursor struct stored in it)
            tr_h = lambda t: C.is_transparent(t) or C.callee_name(t) in (
                "std::result::Result::<T, E>::map", "std::io::BufReader::<R>::new", "std::io::BufReader::<R>::with_capacity")
            lv = [l for o in st["rv"]["ops"] for l in deep_leaves(cn, o, through_decorators=True, transparent=tr_h)
                  if l.kind == "call" and re.match(r"^std::fs::(File|OpenOptions)::", C.callee_name(l.data) or "")]
            if lv and all(leaf_is_call(l, "std::fs::File::open") for l in lv):
                ctx.ok("Verify.out<-File::open", site=ctx.site(cn, bb))
            else:
                ctx.violation(["verify-handle"], "the handle of the Verify context does not derive from File::open only: %s" % lv, site=ctx.site(cn, bb))


def _verify_arm(ctx, b):
    """exclusive region of the CtxOut::Verify edge in a body switching on CtxOut"""
    e = enum_edges(b, ctx.lib, ADT["CtxOut"], lambda vs: vs == {"Verify"})
    if not e:
        ctx.anchor_missing("switch on CtxOut with a Verify arm in %s" % b.name)
        return None, None
    return e, C.exclusive_region(b, e)


@rule("C06", "R06.2", floor=6)
def r06_2(ctx):
    lib = ctx.lib
    # (a) existence
    cn = body(ctx, "ctxout_new")
    if cn:
        p_out = cn.param_index_by_name("output_path")
        ex_true = bool_call_edges(cn, lib, "std::path::Path::exists", True,
                                  arg_pred=lambda t: any(l.kind == "param" and l.data == p_out for l in C.trace(cn, t["args"][0])))
        for bb, st in aggregates(cn, ADT["CtxOut"], "Verify"):
            if ex_true and C.guarded(cn, bb, ex_true):
                ctx.ok("a|Verify-context guarded by exists(OUT)", site=ctx.site(cn, bb))
            else:
                ctx.violation(["a", "exists"], "the Verify context can be built without the output existing (missing output must be a mismatch)",
                              site=ctx.site(cn, bb), witness=C.witness(cn, bb, ex_true))
    # (b) chunk compare
    wo = body(ctx, "write_output")
    if wo:
        edges, reg = _verify_arm(ctx, wo)
        if reg is not None:
            oks = [bb for bb in ok_sites(wo) if bb in reg]
            if not oks:
                ctx.anchor_missing("Ok return in the Verify arm of write_output")
            p_output = wo.param_index_by_name("output")
            is_rem = lambda lv: has_field(lv, "rem")
            is_len = lambda lv: any(l.kind == "call" and C.callee_name(l.data).endswith("::len") for l in lv) or \
                any(l.kind == "param" and l.data == p_output for l in lv)
            ge = cmp_holds_edges(wo, lib, "ge", is_rem, is_len)
            # `rem.checked_sub(len)` is Some exactly when rem >= len
            CSUB = "std::num::<impl u64>::checked_sub"
            is_csub = lambda l: l.kind == "call" and C.callee_name(l.data) == CSUB and len(l.data["args"]) == 2 and \
                is_rem(C.trace(wo, l.data["args"][0], through_fields=True)) and is_len(C.trace(wo, l.data["args"][1]))
            ge |= enum_edges(wo, lib, "std::option::Option", lambda vs: vs == {"Some"}, src_pred=lambda c: bool(c.src) and all(is_csub(l) for l in c.src))
            rd = try_ok_edges(wo, lib, ("<std::io::BufReader<R> as std::io::Read>::read_exact", "std::io::Read::read_exact"))
            # buffer handed to read_exact
            bufs = set()
            # (a fresh vector per chunk, or a scratch vector kept in the Verify value and resized per chunk)
            bkey = lambda l: (l.kind, l.bb) if l.kind in ("call", "aggregate", "other") else \
                (("field", tuple(n for (o, v, n) in C.pl_fields(l.data))[-1:]) if l.kind == "field" else None)
            for bb, t in calls_to(wo, ("<std::io::BufReader<R> as std::io::Read>::read_exact", "std::io::Read::read_exact")):
                for l in C.trace(wo, t["args"][1], through_fields=True):
                    if bkey(l) is not None and bkey(l) != ("field", ("out",)):
                        bufs.add(bkey(l))

            def is_buf(t, i):
                lv = C.trace(wo, t["args"][i], through_fields=True)
                return any(bkey(l) in bufs for l in lv)

            def is_out(t, i):
                return any(l.kind == "param" and l.data == p_output for l in C.trace(wo, t["args"][i]))

            def eq_pred(want_eq):
                def pred(c, v, leaf):
                    if c.kind != "bool" or leaf is None or leaf.kind != "call":
                        return False
                    nm = C.callee_name(leaf.data)
                    t = leaf.data
                    if len(t["args"]) != 2:
                        return False
                    if not ((is_buf(t, 0) and is_out(t, 1)) or (is_buf(t, 1) and is_out(t, 0))):
                        return False
                    if nm.endswith("::eq"):
                        return v == want_eq
                    if nm.endswith("::ne"):
                        return v != want_eq
                    return False
                return pred
            eq = C.guard_edges(wo, lib, eq_pred(True))
            for bb in oks:
                for nm, cut in (("rem>=len", ge), ("read_exact ok", rd), ("buffer==chunk", eq)):
                    if cut and C.guarded(wo, bb, cut):
                        ctx.ok("b|%s" % nm, site=ctx.site(wo, bb))
                    else:
                        ctx.violation(["b", nm], "verify: a chunk is accepted without `%s`" % nm, site=ctx.site(wo, bb),
                                      witness=C.witness(wo, bb, cut))
                # rem -= len on the way
                subs = []
                for sbb, si, st in wo.stmts():
                    if st["k"] != "assign" or not st["lhs"]["p"] or st["rv"]["k"] != "use":
                        continue
                    if not has_field(C.trace(wo, st["lhs"]), "rem"):
                        continue
                    for l in C.trace(wo, st["rv"]["op"]):
                        if l.kind == "binop" and l.data["op"] in ("SubWithOverflow", "Sub", "SubUnchecked"):
                            la, lb = C.trace(wo, l.data["a"]), C.trace(wo, l.data["b"])
                            if is_rem(la) and is_len(lb):
                                subs.append((sbb, si))
                        elif is_csub(l):
                            subs.append((sbb, si))      # rem = rem.checked_sub(len) payload
                cut = set()
                same_block = False
                for sbb, si in subs:
                    cut |= {eid for eid, s_, lab in wo.edges(sbb)}
                    if sbb == bb:
                        same_block = True       # a basic block runs as a whole: the decrement and the Ok value cannot be separated
                if subs and (same_block or C.guarded(wo, bb, cut)):
                    ctx.ok("b|rem-=len", site=ctx.site(wo, bb))
                else:
                    ctx.violation(["b", "rem-=len"], "verify: a chunk is accepted without decreasing the remaining length",
                                  site=ctx.site(wo, bb))
    # (c) end of file
    dn = body(ctx, "done")
    if dn:
        edges, reg = _verify_arm(ctx, dn)
        if reg is not None:
            z = cmp_holds_edges(dn, ctx.lib, "eq", lambda lv: has_field(lv, "rem"), lambda lv: has_const(lv, "0_u64"))
            # .. or the `0` arm of a match on the value itself (`CtxOut::Verify { rem: 0, .. } => Ok(())`)
            for sbb in C.switches(dn):
                c = C.switch_cond(dn, sbb)
                if c.kind == "int" and c.src and all(l.kind == "field" and has_field([l], "rem") for l in c.src):
                    for eid, succ, lab in dn.edges(sbb):
                        if lab is not None and lab[0] == "val" and lab[1] == 0:
                            z = set(z) | {eid}
            # for the Verify variant an Ok return is reachable only through the rem == 0 edge (the Ok arm may be shared with other
            # variants: `Verify {..} if *rem != 0 => Err(..), Verify {..} | Clean => Ok(())`)
            me = modes(ctx).mode_edges(dn)
            not_verify = {eid for eid, vs in me.items() if "Verify" not in vs}
            oks = [bb for bb in ok_sites(dn) if not C.guarded(dn, bb, not_verify)]
            if not oks:
                ctx.anchor_missing("Ok return reachable for the Verify context in done")
            for bb in oks:
                if z and C.guarded(dn, bb, not_verify | z):
                    ctx.ok("c|rem==0", site=ctx.site(dn, bb))
                else:
                    ctx.violation(["c", "rem==0"], "verify: finishing succeeds with unread bytes left in the existing output "
                                  "(an extended output would pass)", site=ctx.site(dn, bb), witness=C.witness(dn, bb, not_verify | z))
            # any delegated return (tail call result) in the Verify arm would bypass the check
            for bb, t in dn.calls():
                if bb in reg and t["dest"]["l"] == 0 and not C.is_from_residual(t):
                    ctx.violation(["c", "delegated"], "verify: done() returns the result of %s in the Verify arm" % C.callee_name(t), site=ctx.site(dn, bb))


@rule("C06", "R06.3", floor=1)
def r06_3(ctx):
    cn = body(ctx, "ctxout_new")
    if not cn:
        return
    p_out = cn.param_index_by_name("output_path")
    for bb, st in aggregates(cn, ADT["CtxOut"], "Verify"):
        # the integer(s) stored in the Verify context (directly, or inside a private cursor struct): the remaining length
        lv = [l for o in st["rv"]["ops"] for l in deep_leaves(cn, o, through_decorators=True)
              if (l.kind == "call" and (C.callee_name(l.data) or "").startswith("std::fs::Metadata::")) or
              (l.kind == "const" and re.match(r"^\d+_u(64|size)$", C.op_const(l.data) or "")) or l.kind == "binop"]
        good = bool(lv)
        for l in lv:
            if not leaf_is_call(l, "std::fs::Metadata::len"):
                good = False
                continue
            l2 = C.trace(cn, l.data["args"][0], through_decorators=True)
            for m in l2:
                if not leaf_is_call(m, "std::fs::metadata"):
                    good = False
                    continue
                l3 = C.trace(cn, m.data["args"][0])
                if not any(x.kind == "param" and x.data == p_out for x in l3):
                    good = False
        if good:
            ctx.ok("rem<-metadata(OUT).len()", site=ctx.site(cn, bb))
        else:
            ctx.violation(["rem-init"], "the remaining-length counter of verify does not start as metadata(output).len(): %s" % lv,
                          site=ctx.site(cn, bb))


# =====================================================================================  C07
prop("C07", "Clean removes exactly what build generated and never executes anything",
     decided=["R07.1 no process API, include read, tag creation or dependency collection is reachable in Clean mode; temp directives are the only directive effect",
              "R07.2 Clean column of the effect matrix: only remove_file; nothing is created or written; try_resolve never creates in Clean",
              "R07.3 every write_temp_file call is guarded by the not-a-.txtpp-file edge on the same target argument",
              "R07.4 clean tolerates directive errors: errors are turned into Ok only on the Mode::Clean edge, and are so turned for line iteration"],
     not_decided=["exact restoration of the tree (runtime tree equality)",
                  "deletion of an output whose own name matches *.txtpp (a.txtpp.txtpp -> a.txtpp is an output by construction)"])


@rule("C07", "R07.1", floor=3)
def r07_1(ctx):
    mo = modes(ctx)
    lib = ctx.lib
    n = 0
    for s in fs_inventory(ctx):
        if s.prog.label != "lib":
            continue
        if s.cls == "PROCESS" or (s.cls == "READ_UTF8" and s.name == "std::fs::read_to_string"):
            site = _site_ctx(ctx, s)
            if "Clean" in s.modes:
                ctx.violation([s.key()], "%s is reachable in Clean mode (clean must not execute commands / read includes)" % s.name, site=site)
            else:
                ctx.ok("%s|%s|modes=%s" % (s.cls, s.key(), sorted(s.modes)), site=site)
    for role_name, what in (("tag_create", "tag creation"), ("get_txtpp_file", "dependency lookup"), ("shell_run", "command execution")):
        tgt = ROLE[role_name]
        cs = C.all_call_sites(lib, lambda ns, t: tgt in ns)
        if not cs:
            ctx.anchor_missing("call of %s" % tgt)
        for (b, bb, t) in cs:
            if role_name == "get_txtpp_file" and b.name != ROLE["execute_directive"]:
                continue        # resolve_inputs also looks sources up by their output name: that is input handling, in every mode
            m = mo.site_modes(b, bb)
            if "Clean" in m:
                ctx.violation([b.name, tgt], "%s is reachable in Clean mode" % what, site=ctx.site(b, bb))
            else:
                ctx.ok("%s|%s|modes=%s" % (what, b.name, sorted(m)), site=ctx.site(b, bb))
    # the only directive effect in clean is the temp cleaner: execute_directive_temp(_, const true) in Clean,
    # (_, const false) elsewhere
    tgt = ROLE["execute_directive_temp"]
    cs = C.all_call_sites(lib, lambda ns, t: tgt in ns)
    if not cs:
        ctx.anchor_missing("call of %s" % tgt)
    for (b, bb, t) in cs:
        m = mo.site_modes(b, bb)
        v = C.op_const(t["args"][2]) if len(t["args"]) > 2 else None
        want = "true" if m <= {"Clean"} else ("false" if "Clean" not in m else None)
        if v is not None and v == want:
            ctx.ok("execute_directive_temp(_, %s)|%s|modes=%s" % (v, b.name, sorted(m)), site=ctx.site(b, bb))
        else:
            ctx.violation([b.name, "is_clean"], "execute_directive_temp called with is_clean=%s in mode(s) %s" % (v, sorted(m)), site=ctx.site(b, bb))


@rule("C07", "R07.2", floor=5)
def r07_2(ctx):
    for s in fs_inventory(ctx):
        if s.prog.label != "lib":
            continue
        site = _site_ctx(ctx, s)
        if s.cls in ("CREATE_TRUNC", "WRITE_HANDLE", "OTHER_MUTATING"):
            if "Clean" in s.modes:
                ctx.violation([s.key()], "%s (%s) is reachable in Clean mode: clean creates/writes nothing" % (s.name, s.cls), site=site)
            else:
                ctx.ok("%s|%s|modes=%s" % (s.cls, s.key(), sorted(s.modes)), site=site)
        elif s.cls == "REMOVE":
            if s.modes <= {"Clean"}:
                ctx.ok("REMOVE|%s|modes=%s" % (s.key(), sorted(s.modes)), site=site)
            else:
                ctx.violation([s.key()], "remove_file reachable outside Clean mode: %s" % sorted(s.modes), site=site)
    # removal in clean deletes OUT when it exists: guard exists
    cn = body(ctx, "ctxout_new")
    if cn:
        for bb, t in calls_to(cn, "std::fs::remove_file"):
            ex = bool_call_edges(cn, ctx.lib, "std::path::Path::exists", True)
            if ex and C.guarded(cn, bb, ex):
                ctx.ok("remove_file(OUT) guarded by exists", site=ctx.site(cn, bb))
            else:
                ctx.violation(["remove-exists"], "clean removes the output without the `exists` guard (clean-twice / clean-without-build would fail)",
                              site=ctx.site(cn, bb))


@rule("C07", "R07.3", floor=2)
def r07_3(ctx):
    lib = ctx.lib
    wt_name = ROLE["write_temp_file"]
    ments = C.all_mentions(lib, lambda ns: wt_name in ns)
    for (b, kind, bb, names, obj) in ments:
        if kind != "call":
            ctx.violation([b.name, "fnitem"], "write_temp_file passed as a function value", site=ctx.site(b, bb))
            continue
        tgt = C.trace(b, obj["args"][1])
        tgt_keys = {(l.kind, l.bb) for l in tgt}

        def same_target(t):
            lv = C.trace(b, t["args"][0])
            # PathBuf::from(export_file).is_txtpp_file(): receiver derives from the same value as the target argument
            return bool({(l.kind, l.bb) for l in lv} & tgt_keys)
        cut = bool_call_edges(b, lib, ROLE["is_txtpp_file"], False, arg_pred=same_target)
        # wrapper recognition: `ensure_not_txtpp(target)?` — the success edge of a crate-local helper counts as the guard
        # provided every success return inside the helper is guarded by the not-a-.txtpp edge on that parameter
        for hbb, ht in b.calls():
            helper = next((lib.bodies[n] for n in C.callee_names(ht) if n in lib.bodies), None)
            if helper is None or helper.name in (wt_name,):
                continue
            pidx = [i for i, a in enumerate(ht["args"]) if {(l.kind, l.bb) for l in C.trace(b, a)} & tgt_keys]
            if not pidx:
                continue
            good = False
            for i in pidx:
                hcut = bool_call_edges(helper, lib, ROLE["is_txtpp_file"], False,
                                       arg_pred=lambda t2, i=i: any(l.kind == "param" and l.data == i + 1 for l in C.trace(helper, t2["args"][0])))
                oks = ok_sites(helper)
                if hcut and oks and all(C.guarded(helper, o, hcut) for o in oks) and not any(
                        tt["dest"]["l"] == 0 and not C.is_from_residual(tt) for _, tt in helper.calls()):
                    good = True
            if good:
                cut = set(cut) | try_ok_edges(b, lib, helper.name)
        if cut and C.guarded(b, bb, cut):
            ctx.ok("write_temp_file guarded by !is_txtpp_file(target)|%s" % b.name, site=ctx.site(b, bb))
        else:
            ctx.violation([b.name, "is_txtpp_file"], "write_temp_file is reachable without the `.txtpp` refusal on its target "
                          "(clean could delete / build could overwrite a .txtpp source)", site=ctx.site(b, bb), witness=C.witness(b, bb, cut))


@rule("C07", "R07.4", floor=3)
def r07_4(ctx):
    lib = ctx.lib
    ri = body(ctx, "pp_run_internal")
    if ri:
        # stated on the line processor in normal form (the `ignore_err_if_cleaning` helper is spliced in): on the failure edge of
        # iterate_directive's result the error is (a) given up only where the mode is Clean, and (b) in Clean never returned
        mo_ = modes(ctx)
        it = ROLE["iterate_directive"]
        E = enum_edges(ri, lib, "std::result::Result", lambda vs: vs == {"Err"}, src_pred=lambda c: has_call(c.src, it))
        if not E:
            ctx.anchor_missing("a test of iterate_directive's result for failure in the line processor")
        me = mo_.mode_edges(ri)
        clean_only = {eid for eid, vs in me.items() if vs == {"Clean"}}
        non_clean = {eid for eid, vs in me.items() if "Clean" not in vs}
        loopback = {bb for bb, t in ri.calls() if any(n in (ROLE["get_next_line"], it) for n in C.callee_names(t))}
        out_of = lambda blocks: {eid for bb in blocks for eid, s_, lab in ri.edges(bb)}

        def carries(bb):
            t = ri.term(bb)
            ops = []
            if t["k"] == "call" and C.is_from_residual(t):
                ops = [t["args"][0]]
            for st in ri.blocks[bb]["stmts"]:
                if st["k"] == "assign" and st["rv"]["k"] == "aggregate" and st["rv"]["agg"].get("adt") == "std::result::Result" \
                        and st["rv"]["agg"].get("variant") == "Err":
                    ops += st["rv"]["ops"]
            return any(has_call(C.trace(ri, o, through_decorators=True), it) for o in ops)
        errs = [bb for bb in err_sites(ri) if carries(bb)]
        oks = set(ok_sites(ri))
        if E:
            Ea = {e for e in E if mo_.local_modes(ri, e[0]) - {"Clean"}}
            Eb = {e for e in E if "Clean" in mo_.local_modes(ri, e[0])}
            given_up = C.after_edges(ri, Ea, cut=clean_only | out_of(err_sites(ri))) if Ea else set()
            bad = sorted(bb for bb in given_up if bb in loopback or bb in oks)
            if bad:
                ctx.violation(["swallow-any-mode"], "a directive error is given up (the line processor carries on) outside the Mode::Clean edge",
                              site=ctx.site(ri, bad[0]))
            else:
                ctx.ok("errors are swallowed only on the Mode::Clean edge", site=ctx.site(ri, min(e[0] for e in E)))
            in_clean = C.after_edges(ri, Eb, cut=non_clean | out_of(loopback)) if Eb else set()
            bad = sorted(bb for bb in errs if bb in in_clean)
            if bad or not Eb or not clean_only:
                ctx.violation(["iterate-not-tolerant"], "an error of iterate_directive is returned in Clean mode "
                              "(clean would fail on sources with directive errors)", site=ctx.site(ri, bad[0] if bad else 0))
            else:
                ctx.ok("iterate_directive errors are not returned in Clean mode", site=ctx.site(ri, min(e[0] for e in E)))
    # errors of clean-mode directive execution are tolerated, not propagated: the Result of the clean-mode executor
    # (execute_in_clean_mode / execute_directive_temp(_, true)) never reaches `?` or a return value of its caller
    from rules_err import forward_uses_ext, TRY
    n = 0
    mo = modes(ctx)
    for (b, bb, t) in C.all_call_sites(lib, lambda ns, t: ROLE["execute_in_clean_mode"] in ns or ROLE["execute_directive_temp"] in ns):
        if b.name == ROLE["execute_in_clean_mode"]:
            continue          # the executor itself may use `?` internally; its caller decides
        if not (mo.site_modes(b, bb) <= {"Clean"}) or not mo.site_modes(b, bb):
            continue
        n += 1
        uses = forward_uses_ext(b, t["dest"]["l"], through_try=True)
        if "RETURN" in uses:
            ctx.violation([b.name, "clean-error-propagated"], "an error from executing a directive in Clean mode is propagated (clean must succeed on "
                          "sources with directive errors)", site=ctx.site(b, bb))
        else:
            ctx.ok("clean-mode directive errors are not propagated|%s" % b.name, site=ctx.site(b, bb))
    if n == 0:
        ctx.anchor_missing("a Clean-only call of the clean-mode directive executor")


@rule("C07", "R07.5", floor=1)
def r07_5(ctx):
    """clean still scans every source line (a skipped line could hide a temp directive): = C16 R16.4"""
    import rules_text
    rules_text.r16_4(ctx)


@rule("C07", "R07.6", floor=3)
def r07_6(ctx):
    """clean parses the sources exactly as build does: which lines start / continue / end a directive must not depend on the Mode
    (a continuation line re-read as a fresh line in clean could be taken for a `temp` directive and its target deleted)"""
    lib = ctx.lib
    mo = modes(ctx)
    for role_name in ("iterate_directive", "get_next_line"):
        b = body(ctx, role_name)
        if not b:
            continue
        sites = []
        for bb, t in b.calls():
            if any(n in (ROLE["detect_from"], ROLE["add_line"], ROLE["next_line"]) for n in C.callee_names(t)):
                sites.append((bb, C.callee_name(t).rsplit("::", 1)[-1]))
        for bb, si, st in b.stmts():
            if st["k"] == "assign" and st["lhs"]["p"] and st["lhs"]["p"][-1].get("name") in ("cur_directive", "execute_tail_line"):
                sites.append((bb, "store " + st["lhs"]["p"][-1]["name"]))
        for bb, t in b.calls():
            if t["dest"]["p"] and t["dest"]["p"][-1].get("name") in ("cur_directive", "execute_tail_line"):
                sites.append((bb, "store " + t["dest"]["p"][-1]["name"]))
        if not sites:
            ctx.anchor_missing("directive detection / continuation sites in %s" % b.name)
        for bb, what in sites:
            lm = mo.local_modes(b, bb)
            if lm >= mo.all:
                ctx.ok("%s|%s is mode-independent" % (role_name, what), site=ctx.site(b, bb))
            else:
                ctx.violation([b.name, "mode-dependent-parse", what], "directive parsing depends on the mode: `%s` in %s happens only in mode(s) %s, so "
                              "clean and build can disagree about which lines belong to a directive" % (what, role_name, sorted(lm)), site=ctx.site(b, bb))
        # .. and the ORDER of these events is the same in every mode: what can follow a parse event (the next read, a detection, a store, a
        # value being returned) before any other event does not depend on the Mode — a line read and then dropped in Clean only (a "fast
        # path" skipping plain lines) would hide the line that ends a multi-line directive from the parser
        me = mo.mode_edges(b)
        if me:
            ev = {bb for bb, what in sites}
            ev |= {bb for bb, si, st in b.stmts() if st["k"] == "assign" and st["lhs"]["l"] == 0}
            ev |= {bb for bb, t in b.calls() if t["dest"]["l"] == 0}
            ev_out = out_edges(b, sorted(ev))
            rel = {}
            for v in sorted(mo.all):
                cut = {eid for eid, vs in me.items() if v not in vs}
                r = {}
                for e in sorted(ev):
                    reach = C.after_edges(b, set(out_edges(b, [e])) - cut, cut=cut | set(ev_out))
                    r[e] = frozenset(x for x in ev if x in reach)
                rel[v] = r
            ref = sorted(mo.all)[0]
            differs = [(e, v) for v in sorted(mo.all) for e in sorted(ev) if rel[v][e] != rel[ref][e]]
            if differs:
                e, v = differs[0]
                ctx.violation([b.name, "mode-dependent-parse-order"], "what follows the parse event at %s in %s depends on the mode (%s vs %s): clean and "
                              "build can disagree about which lines the directive parser sees" % (ctx.site(b, e)["loc"], role_name, v, ref), site=ctx.site(b, e))
            else:
                ctx.ok("%s|event order is mode-independent" % role_name, site=ctx.site(b, 0))
        else:
            ctx.ok("%s|no mode-dependent edge" % role_name, site=ctx.site(b, 0))


@rule("C07", "R07.8", floor=1)
def r07_8(ctx):
    """what clean removes for a temp directive is the one location build would have written: try_resolve names the argument itself when
    absolute, else the argument joined onto the source's directory — no fallback directory in which a same-named file that build never
    generated could be found and deleted (= C10 R10.5)"""
    import rules_dir
    rules_dir.r10_5(ctx)


@rule("C07", "R07.7", floor=1)
def r07_7(ctx):
    """clean removes every temp target it can resolve: in the Clean region of the temp writer an Ok return is reached only past
    remove_file or on the failed-resolution edge (target absent) — no other shortcut (such as "already has this content") skips it"""
    lib = ctx.lib
    wt = body(ctx, "write_temp_file")
    if not wt:
        return
    clean_e = enum_edges(wt, lib, ADT["CtxOut"], lambda vs: vs == {"Clean"}) | enum_edges(wt, lib, ADT["Mode"], lambda vs: vs == {"Clean"})
    if not clean_e:
        ctx.anchor_missing("Clean edge in write_temp_file")
        return
    removes = [bb for bb, t in calls_to(wt, "std::fs::remove_file")]
    if not removes:
        ctx.violation(["no-remove"], "the temp writer no longer removes the temp target in clean mode", site=ctx.site(wt, 0))
        return
    unresolved = enum_edges(wt, lib, "std::result::Result", lambda vs: vs == {"Err"}, src_pred=lambda c: has_call(c.src, ROLE["try_resolve"]))
    cut = out_edges(wt, removes) | unresolved
    _vis, marked, _prev = C.explore(wt, cut=cut, mark_edges=clean_e)
    bad = [bb for bb in ok_sites(wt) if bb in marked]
    if bad:
        ctx.violation(["clean-skips-remove"], "in clean mode the temp writer can return Ok for a resolvable target without removing it",
                      site=ctx.site(wt, bad[0]))
    else:
        ctx.ok("clean: Ok only past remove_file or when the target cannot be resolved", site=ctx.site(wt, removes[0]))


# =====================================================================================  C08
prop("C08", "Builds are a function of the sources only (hermetic, idempotent)",
     decided=["R08.1 every write-capable open of an output or temp path is create-or-truncate (File::create / fs::write / an OpenOptions chain with write(true)+truncate(true) and no append)",
              "R08.2 every read of a generated path (OUT/TMP role) is a byte read whose buffer flows only into an equality comparison",
              "R08.3 an include of X with a .txtpp source is read only in a second pass (= C02 R02.2/R02.3, re-checked here)"],
     not_decided=["idempotence and crash repair as runtime histories", "that the same bytes are produced (C01)"])


@rule("C08", "R08.1", floor=4)
def r08_1(ctx):
    for s in fs_inventory(ctx):
        if s.prog.label != "lib":
            continue
        site = _site_ctx(ctx, s)
        if s.cls == "CREATE_TRUNC":
            ctx.ok("truncating|%s" % s.key(), site=site)
        elif s.cls == "OTHER_MUTATING" and ("OpenOptions" in s.name or "create_new" in s.name):
            ctx.violation([s.key()], "write-capable open through %s: not provably create-or-truncate (stale bytes could survive)" % s.name, site=site)


@rule("C08", "R08.2", floor=2)
def r08_2(ctx):
    lib = ctx.lib
    for s in fs_inventory(ctx):
        if s.prog.label != "lib" or s.cls not in ("READ_BYTES", "READ_UTF8") or s.kind != "call":
            continue
        if s.role not in ("OUT", "TMP"):
            continue
        # TMP reads in the include arm are reads of *sources* (try_resolve of an include argument): only the
        # temp writer and IOCtx::done read generated paths
        if s.role == "TMP" and s.body.name != ROLE["write_temp_file"]:
            continue
        site = _site_ctx(ctx, s)
        if s.cls == "READ_UTF8":
            ctx.violation([s.key(), "utf8"], "existing generated file (%s role) is read with the UTF-8-validating %s: arbitrary leftover "
                          "bytes fail the build" % (s.role, s.name), site=site)
            continue
        # forward use of the buffer: only eq/ne comparisons (and drops)
        b = s.body
        uses = forward_uses(b, s.obj["dest"]["l"])
        bad = [u for u in uses if not (u.endswith("::eq") or u.endswith("::ne") or u in FORWARD_NEUTRAL)]
        if bad:
            ctx.violation([s.key(), "use"], "bytes of the existing generated file flow into %s (allowed: equality comparison only)" % sorted(set(bad)), site=site)
        else:
            ctx.ok("byte-read compared only|%s|%s" % (s.role, s.key()), site=site, detail=sorted(set(uses)))
        # what is compared is what was read — not a stand-in for a file that could not be read (`Err(NotFound) => Vec::new()` makes a
        # missing output equal to an empty fresh one: it is then never created)
        rbb = s.bb
        for cbb, ct in b.calls():
            if not (C.callee_name(ct) or "").endswith(("::eq", "::ne")) or len(ct["args"]) != 2:
                continue
            for a in ct["args"]:
                lv = C.trace(b, a, through_fields=True, transparent=lambda tt: C.is_transparent(tt) or C.callee_name(tt) in FORWARD_NEUTRAL)
                if any(l.kind == "call" and l.bb == rbb for l in lv):
                    other = [l for l in lv if not (l.kind == "call" and l.bb == rbb) and l.kind in ("call", "const", "aggregate")]
                    if other:
                        ctx.violation([s.key(), "stand-in"], "the buffer compared with the fresh content is not only what %s read: %s (a file that "
                                      "could not be read must not compare as some made-up content)" % (s.name, [repr(l) for l in other][:3]), site=ctx.site(b, cbb))
                    else:
                        ctx.ok("compared buffer = the bytes read|%s" % s.key(), site=ctx.site(b, cbb))


PARTIAL_READ_RE = None


def _handle_read_calls(lib, b):
    """Read-trait style calls in a body and its closures: [(body, bb, name)]"""
    import re
    out = []
    rx = re.compile(r"(std::io::Read::|as std::io::Read>::|std::io::BufRead::|as std::io::BufRead>::)(\w+)$")
    for b2 in [b] + lib.closures_of(b):
        for bb, t in b2.calls():
            m = rx.search(C.callee_name(t))
            if m:
                out.append((b2, bb, m.group(2)))
    return out


FORWARD_NEUTRAL = {
    "<std::result::Result<T, E> as std::ops::Try>::branch",
    "<std::result::Result<T, C> as error_stack::ResultExt>::change_context_lazy",
    "<std::result::Result<T, C> as error_stack::ResultExt>::change_context",
    "<std::result::Result<T, error_stack::Report<C>> as error_stack::ResultExt>::attach_printable_lazy",
    "<std::result::Result<T, error_stack::Report<C>> as error_stack::ResultExt>::attach_printable",
    "<std::result::Result<T, error_stack::Report<C>> as error_stack::ResultExt>::attach_lazy",
    "<std::result::Result<T, error_stack::Report<C>> as error_stack::ResultExt>::attach",
    # the same methods named through the trait (inside a generic extension method `fn ctx(self, ..) where Self: ResultExt`)
    "error_stack::ResultExt::change_context_lazy", "error_stack::ResultExt::change_context", "error_stack::ResultExt::attach_printable_lazy",
    "error_stack::ResultExt::attach_printable", "error_stack::ResultExt::attach_lazy", "error_stack::ResultExt::attach",
    "std::result::Result::<T, E>::map_err",
    "<std::result::Result<T, F> as std::ops::FromResidual<std::result::Result<std::convert::Infallible, E>>>::from_residual",
    "<std::vec::Vec<T, A> as std::ops::Deref>::deref", "std::vec::Vec::<T, A>::as_slice",
    # views of an optional buffer (`stored_content(..)? -> Option<Vec<u8>>` compared as `current.as_deref() == Some(fresh)`)
    "std::option::Option::<T>::as_deref", "std::option::Option::<T>::as_ref", "std::option::Option::<&T>::copied",
}


def forward_uses(b, local, depth=40):
    """callees that consume (a move/copy/ref of) `local` inside body b, following moves, refs, field
    projections and the neutral wrappers above"""
    seen = set()
    out = []
    work = [local]
    while work:
        l = work.pop()
        if l in seen:
            continue
        seen.add(l)
        for bb, si, st in b.stmts():
            if st["k"] != "assign":
                continue
            rv = st["rv"]
            src = None
            if rv["k"] in ("use", "cast"):
                src = C.op_place(rv["op"])
            elif rv["k"] in ("ref", "copyforderef", "rawptr"):
                src = rv["pl"]
            elif rv["k"] == "aggregate":
                for op in rv["ops"]:
                    p = C.op_place(op)
                    if p and p["l"] == l:
                        work.append(st["lhs"]["l"])
            if src and src["l"] == l:
                if any(e["k"] == "field" and e.get("owner") in ("std::result::Result", "std::ops::ControlFlow") and e.get("variant") in ("Err", "Break")
                       for e in src["p"]):
                    continue        # the error side of the Result: an io::Error, not the bytes that were read
                work.append(st["lhs"]["l"])
        for bb, t in b.calls():
            if any((C.op_place(a) or {}).get("l") == l for a in t["args"]):
                nm = C.callee_name(t)
                out.append(nm)
                if nm in FORWARD_NEUTRAL:
                    work.append(t["dest"]["l"])
    return out


@rule("C08", "R08.2h", floor=0)
def r08_2h(ctx):
    """reads of an existing generated file through a handle, in a build mode: only a whole-content read is acceptable"""
    lib = ctx.lib
    for s in fs_inventory(ctx):
        if s.prog.label != "lib" or s.cls != "READ_OPEN" or s.kind != "call" or s.role not in ("OUT", "TMP"):
            continue
        if s.role == "TMP" and s.body.name != ROLE["write_temp_file"]:
            continue          # include arguments are sources, not generated files
        if not (s.modes & {"Build", "InMemoryBuild"}):
            continue          # verify streams the output by design (C06 R06.2 guards that protocol)
        site = _site_ctx(ctx, s)
        body_root = lib.bodies.get(s.body.root, s.body) if s.body.kind == "Closure" else s.body
        reads = _handle_read_calls(lib, body_root)
        names = sorted({n for (_b, _bb, n) in reads})
        partial = [n for n in names if n not in ("read_to_end",)]
        if partial:
            ctx.violation([s.key(), "partial-read", ",".join(partial)], "an existing generated file (%s role) is opened in a build mode and read with %s: "
                          "a partial or UTF-8-validating read makes the result depend on leftover bytes (only a whole-content byte read compared for "
                          "equality is hermetic)" % (s.role, partial), site=site, rule="R08.2")
        else:
            ctx.ok("handle read of the whole content|%s" % s.key(), site=site, rule="R08.2")


@rule("C08", "R08.3", floor=1)
def r08_3(ctx):
    """a generated file is only read after the file that generates it was built in this run: include/after targets with a .txtpp source
    are recorded as dependencies before the second pass and read only in it (= C02 R02.2 / R02.3 / R02.10)"""
    import rules_sched
    rules_sched.r02_2(ctx)
    rules_sched.r02_3(ctx)
    rules_sched.r02_10(ctx)


# =====================================================================================  C09
prop("C09", "--needed equals a normal build and rewrites nothing that is unchanged",
     decided=["R09.1 in needed mode the output is written only on the not-exists or differs edge; equal content returns Ok without writing; "
              "compared operands are the existing file's bytes and the in-memory buffer",
              "R09.2 needed mode touches the output nowhere else (no create/write in CtxOut::new / write_output)",
              "R09.3 a temp file is written only on the differs (or not-exists) edge in every non-clean mode",
              "R09.4 tables: -N/--needed selects Mode::InMemoryBuild, absence selects Mode::Build; Mode k maps to CtxOut k"],
     not_decided=["byte equality with a normal build (both modes feed the same write_output stream; bytes are C01)",
                  "inode / mtime preservation as a runtime observation"])


def _cmp_call_edges(b, lib, buf_locals_pred, other_pred, want_eq):
    def pred(c, v, leaf):
        if c.kind != "bool" or leaf is None or leaf.kind != "call":
            return False
        nm = C.callee_name(leaf.data)
        t = leaf.data
        if len(t["args"]) != 2 or not (nm.endswith("::eq") or nm.endswith("::ne")):
            return False
        a = C.trace(b, t["args"][0], through_decorators=True, through_fields=True)
        c2 = C.trace(b, t["args"][1], through_decorators=True, through_fields=True)
        if not ((buf_locals_pred(a) and other_pred(c2)) or (buf_locals_pred(c2) and other_pred(a))):
            return False
        return (v == want_eq) if nm.endswith("::eq") else (v != want_eq)
    return C.guard_edges(b, lib, pred)


def _write_gate(ctx, b, tag, write_sites, path_pred, fresh_pred):
    """each write site is guarded by {exists false, equal false}; an Ok return exists on the equal-true edge"""
    lib = ctx.lib
    # the compared operand is the content that was read and nothing else (`Err(NotFound) => Vec::new()` would make a missing
    # file compare equal to an empty fresh output, which is then never created)
    is_read = lambda lv: bool(lv) and all(leaf_is_call(l, ("std::fs::read", "std::fs::read_to_string")) for l in lv)
    ne_edges = _cmp_call_edges(b, lib, is_read, fresh_pred, False)
    eq_edges = _cmp_call_edges(b, lib, is_read, fresh_pred, True)
    nex = bool_call_edges(b, lib, "std::path::Path::exists", False, arg_pred=path_pred)
    for bb, t in write_sites:
        cut = set(ne_edges) | set(nex)
        if ne_edges and C.guarded(b, bb, cut):
            ctx.ok("%s|write guarded by {not exists, differs}" % tag, site=ctx.site(b, bb))
        else:
            ctx.violation([tag, "write-gate"], "%s: the file is (re)written without comparing it with the existing content "
                          "(unchanged files would be rewritten)" % tag, site=ctx.site(b, bb), witness=C.witness(b, bb, cut))
    # the equal edge leads to an Ok return that does not pass a write
    if eq_edges:
        reg = C.region(b, eq_edges)
        wr = {bb for bb, t in write_sites}
        oks = [bb for bb in ok_sites(b) if bb in reg]
        if oks and not (reg & wr):
            ctx.ok("%s|equal content returns Ok without writing" % tag, site=ctx.site(b, oks[0]))
        else:
            ctx.violation([tag, "equal-skip"], "%s: equal content does not lead to an Ok return that skips the write" % tag,
                          site=ctx.site(b, min(reg) if reg else 0))
    else:
        ctx.violation([tag, "no-compare"], "%s: no comparison between the existing file and the fresh content found" % tag, site=ctx.site(b, 0))


@rule("C09", "R09.1", floor=2)
def r09_1(ctx):
    dn = body(ctx, "done")
    if not dn:
        return
    e = enum_edges(dn, ctx.lib, ADT["CtxOut"], lambda vs: vs == {"InMemoryBuild"})
    if not e:
        ctx.anchor_missing("InMemoryBuild arm of done")
        return
    reg = C.exclusive_region(dn, e)
    ws = [(bb, t) for bb, t in dn.calls() if bb in reg and T.classify_fs(C.callee_name(t)) == "CREATE_TRUNC"]
    if not ws:
        ctx.anchor_missing("output write in the InMemoryBuild arm of done")
        return
    _write_gate(ctx, dn, "needed-output", ws, lambda t: has_field(C.trace(dn, t["args"][0]), "path"),
                lambda lv: has_field(lv, "out"))
    # the buffer written is the in-memory buffer: content operand of fs::write, or of the write_all on the created handle
    pv = prov(ctx)
    contents = []
    for bb, t in ws:
        if C.callee_name(t) == "std::fs::write" and len(t["args"]) > 1:
            contents.append((dn, bb, t["args"][1]))
    for b2 in [dn] + ctx.lib.closures_of(dn):
        for bb, t in b2.calls():
            if T.classify_fs(C.callee_name(t)) == "WRITE_HANDLE" and len(t["args"]) > 1 and \
                    (b2 is not dn or bb in reg):
                contents.append((b2, bb, t["args"][1]))
    if not contents:
        ctx.violation(["needed-output", "content"], "needed mode creates the output but no content write was found", site=ctx.site(dn, ws[0][0]))
    for (b2, bb, op) in contents:
        lv = pv.leaves(b2, op, expand_fields=False)
        if lv and all(l.kind == "field" and has_field([C.Leaf("field", None, l.data)], "out") for l in lv):
            ctx.ok("needed-output|written content is CtxOut::InMemoryBuild.out", site=ctx.site(b2, bb))
        else:
            ctx.violation(["needed-output", "content"], "needed mode writes something other than its in-memory buffer", site=ctx.site(b2, bb))


@rule("C09", "R09.2", floor=2)
def r09_2(ctx):
    dn = body(ctx, "done")
    for s in fs_inventory(ctx):
        if s.prog.label != "lib" or s.cls not in ("CREATE_TRUNC", "WRITE_HANDLE", "REMOVE", "OTHER_MUTATING"):
            continue
        if s.role == "TMP" or is_tmp_create(ctx, s):
            continue
        site = _site_ctx(ctx, s)
        in_done = dn is not None and (s.body is dn or s.body.root == dn.name)
        if "InMemoryBuild" in s.modes and not in_done:
            ctx.violation([s.key()], "%s touches the output in needed mode outside the compare-and-write in done()" % s.name, site=site)
        else:
            ctx.ok("%s|%s|modes=%s" % (s.cls, s.key(), sorted(s.modes)), site=site)
    wo = body(ctx, "write_output")
    if wo:
        e = enum_edges(wo, ctx.lib, ADT["CtxOut"], lambda vs: vs == {"InMemoryBuild"})
        reg = C.exclusive_region(wo, e) if e else set()
        ps = [(bb, t) for bb, t in wo.calls() if bb in reg and C.callee_name(t) == "std::string::String::push_str"]
        p_output = wo.param_index_by_name("output")
        good = [x for x in ps if has_field(C.trace(wo, x[1]["args"][0]), "out")
                and any(l.kind == "param" and l.data == p_output for l in C.trace(wo, x[1]["args"][1]))]
        if good:
            ctx.ok("needed-mode chunks are appended to the in-memory buffer", site=ctx.site(wo, good[0][0]))
        else:
            ctx.violation(["buffer-append"], "write_output no longer appends each chunk to the InMemoryBuild buffer", site=ctx.site(wo, 0))


@rule("C09", "R09.3", floor=2)
def r09_3(ctx):
    wt = body(ctx, "write_temp_file")
    if not wt:
        return
    ws = [(bb, t) for bb, t in wt.calls() if T.classify_fs(C.callee_name(t)) == "CREATE_TRUNC"]
    if not ws:
        ctx.anchor_missing("temp write in write_temp_file")
        return
    p_contents = wt.param_index_by_name("contents")
    _write_gate(ctx, wt, "temp", ws, lambda t: True, lambda lv: any(l.kind == "param" and l.data == p_contents for l in lv))
    is_contents = lambda op: any(l.kind == "param" and l.data == p_contents for l in C.trace(wt, op))
    for bb, t in ws:
        if C.callee_name(t) != "std::fs::write":
            # create + write through the handle: the content operands are those of the handle writes that derive from this create
            hw = [s for s in fs_inventory(ctx) if s.cls == "WRITE_HANDLE" and s.body is wt and s.handle_from and
                  any(x.body is wt and x.bb == bb for x in s.handle_from)]
            if hw and all(len(s.obj["args"]) > 1 and is_contents(s.obj["args"][1]) for s in hw):
                ctx.ok("temp|written content is the contents parameter (through the created handle)", site=ctx.site(wt, bb))
            else:
                ctx.violation(["temp", "content"], "write_temp_file creates the temp file but does not write exactly its contents parameter "
                              "through the created handle", site=ctx.site(wt, bb))
        elif len(t["args"]) > 1 and is_contents(t["args"][1]):
            ctx.ok("temp|written content is the contents parameter", site=ctx.site(wt, bb))
        else:
            ctx.violation(["temp", "content"], "write_temp_file writes something other than its contents parameter", site=ctx.site(wt, bb))


@rule("C09", "R09.4", floor=3)
def r09_4(ctx):
    # Mode -> CtxOut mapping
    cn = body(ctx, "ctxout_new")
    lib = ctx.lib
    mode_adt = lib.adts.get(ADT["Mode"])
    out_adt = lib.adts.get(ADT["CtxOut"])
    if not mode_adt or not out_adt:
        ctx.anchor_missing("Mode / CtxOut ADT")
        return
    mv = [v["name"] for v in mode_adt["variants"]]
    ov = [v["name"] for v in out_adt["variants"]]
    if mv != ["Build", "InMemoryBuild", "Clean", "Verify"] or ov != mv:
        ctx.violation(["variants"], "Mode/CtxOut variants changed: %s / %s — the effect matrix has no column for them (fail closed)" % (mv, ov))
    if cn:
        for v in mv:
            e = enum_edges(cn, lib, ADT["Mode"], lambda vs, v=v: vs == {v})
            reg = C.exclusive_region(cn, e) if e else set()
            built = {st["rv"]["agg"]["variant"] for bb, st in aggregates(cn, ADT["CtxOut"]) if bb in reg}
            if built == {v}:
                ctx.ok("Mode::%s -> CtxOut::%s" % (v, v), site=ctx.site(cn, min(reg)))
            else:
                ctx.violation(["mode-map", v], "Mode::%s builds CtxOut::%s" % (v, sorted(built)), site=ctx.site(cn, min(reg) if reg else 0))
    # CLI: needed -> InMemoryBuild
    binp = ctx.bin
    if binp is None:
        ctx.anchor_missing("binary crate facts")
        return
    ap = ctx.role(binp, "txtpp::main")
    if ap:
        # (the whole front end is spliced into main: DESIGN §3.9) Mode values stored into Config.mode, by construction site
        found = {}
        for bb, op, st in field_values(ap, CLI_CONFIG, "mode"):
            lv = C.trace(ap, op) if op is not None else []
            for l in lv:
                if l.kind == "aggregate" and l.data["agg"]["k"] == "adt":
                    found.setdefault(l.data["agg"]["variant"], []).append(l.bb if l.bb is not None else bb)
        need_true = C.guard_edges(ap, binp, lambda c, v, leaf: c.kind == "bool" and leaf is not None and leaf.kind == "field"
                                  and has_field([leaf], "needed") and v is True)
        need_false = C.guard_edges(ap, binp, lambda c, v, leaf: c.kind == "bool" and leaf is not None and leaf.kind == "field"
                                   and has_field([leaf], "needed") and v is False)
        ok = ("InMemoryBuild" in found and "Build" in found and need_true and need_false
              and all(C.guarded(ap, x, need_true) for x in found["InMemoryBuild"]) and all(C.guarded(ap, x, need_false) for x in found["Build"]))
        if ok:
            ctx.ok("Cli.needed true -> Mode::InMemoryBuild, false -> Mode::Build", site=ctx.site(ap, found["InMemoryBuild"][0]))
        else:
            ctx.violation(["cli-needed"], "the `needed` flag no longer selects InMemoryBuild/Build as documented: %s" % sorted(found), site=ctx.site(ap, 0))
    # clap: the Arg with id `needed` has short 'N'
    chk = clap_arg_short(binp, "needed")
    if chk == "'N'":
        ctx.ok("clap Arg `needed` has short 'N'")
    else:
        ctx.violation(["cli-short-N"], "clap Arg `needed` short flag is %s, documented -N" % chk)


def _cli_mode_map(ctx, want):
    """`txtpp clean` / `txtpp verify`: in Command::apply_to the arm of each subcommand stores exactly its own Mode into config.mode"""
    binp = ctx.bin
    if binp is None:
        ctx.anchor_missing("binary crate facts")
        return
    ca = ctx.role(binp, "txtpp::main")
    if not ca:
        return
    cmd_adt = next((p_ for p_ in binp.adts if p_.endswith("::Command") or p_ == "txtpp::Command"), None)
    if cmd_adt is None:
        ctx.anchor_missing("enum Command of the CLI")
        return
    # every Mode value that can be stored into Config.mode, with the block where it is built (the store itself may sit behind the
    # match: `let (mode, flags) = match self { Clean {..} => (Mode::Clean, ..), .. }; config.mode = mode;`)
    built = []
    for bb, op, st in field_values(ca, CLI_CONFIG, "mode"):
        lv = C.trace(ca, op) if op is not None else []
        for l in lv:
            if l.kind == "aggregate" and l.data["agg"]["k"] == "adt":
                built.append((l.data["agg"]["variant"], l.bb if l.bb is not None else bb))
            elif l.kind != "field" or not any(o in CLI_CONFIG for (o, v, n) in C.pl_fields(l.data)):
                built.append(("?", bb))         # (a field of another Config value: `..Config::default()`, judged where that one is built)
    e = enum_edges(ca, binp, cmd_adt, lambda vs: vs == {want})
    reg = C.exclusive_region(ca, e) if e else set()
    here = {v for v, abb in built if abb in reg}
    elsewhere = {v for v, abb in built if abb not in reg}
    if e and here == {want} and want not in elsewhere:
        ctx.ok("subcommand `%s` selects Mode::%s and nothing else does" % (want.lower(), want), site=ctx.site(ca, min(reg)))
    else:
        ctx.violation(["cli-subcommand", want], "the `%s` subcommand stores %s into config.mode (Mode::%s expected), other arms store %s" % (
            want.lower(), sorted(here), want, sorted(elsewhere)), site=ctx.site(ca, min(reg) if reg else 0))


@rule("C06", "R06.4", floor=1)
def r06_4(ctx):
    """CLI plumbing: the `verify` subcommand — and only it — selects Mode::Verify (a swapped or shared arm would make `txtpp verify`
    rewrite files, or `txtpp` / `txtpp clean` merely compare them)"""
    _cli_mode_map(ctx, "Verify")


@rule("C07", "R07.9", floor=1)
def r07_9(ctx):
    """CLI plumbing: the `clean` subcommand — and only it — selects Mode::Clean"""
    _cli_mode_map(ctx, "Clean")


@rule("C09", "R09.5", floor=1)
def r09_5(ctx):
    """the Mode a file is processed in is the configured one: the library never constructs a Mode value of its own (only Config::default
    and the derived Clone do) — a `Mode::Build` literal handed to IOCtx::new on some path would make a needed-build truncate and rewrite
    an unchanged output, or a verify write"""
    lib = ctx.lib
    n = 0
    for b in lib.bodies.values():
        ags = aggregates(b, ADT["Mode"])
        if not ags:
            continue
        if b.j.get("impl_trait") in ("std::clone::Clone", "std::default::Default") and (b.span.get("exp") or b.name.startswith("<%s as " % ADT["Config"])
                                                                                            or b.name.startswith("<%s as " % ADT["Mode"])):
            n += 1
            continue
        for bb, st in ags:
            ctx.violation([b.name, "mode-literal", st["rv"]["agg"]["variant"]], "%s constructs Mode::%s itself: the mode must be the one configured by the caller" % (
                b.name, st["rv"]["agg"]["variant"]), site=ctx.site(b, bb))
    # and what IOCtx::new receives derives from the mode parameter / field only
    for (b, bb, t) in C.all_call_sites(lib, lambda ns, t: ROLE["ioctx_new"] in ns):
        nw = lib.bodies.get(ROLE["ioctx_new"])
        pi = nw.param_index_by_name("mode") if nw else 2
        lv = C.trace(b, t["args"][pi - 1], through_fields=True)
        if lv and all(l.kind in ("param", "field") for l in lv):
            ctx.ok("IOCtx::new is given the caller's mode|%s" % b.name, site=ctx.site(b, bb))
        else:
            ctx.violation([b.name, "ioctx-mode"], "IOCtx::new is given a mode that is not simply the caller's: %s" % [repr(l) for l in lv][:3], site=ctx.site(b, bb))
    if n == 0:
        ctx.anchor_missing("Config::default / Mode::clone (the only places a Mode value is built)")


def clap_arg_short(binp, arg_id):
    """find `clap::Arg::new(id)` ... `.short(c)` chains in the derive-generated code"""
    for b in binp.bodies.values():
        for bb, t in b.calls():
            if C.callee_name(t) == "clap::Arg::new":
                lv = C.trace(b, t["args"][0])
                if not any(l.kind == "const" and C.op_const(l.data) == '"%s"' % arg_id for l in lv):
                    # Arg::new(Id::from("needed")) ?
                    ok = False
                    for l in lv:
                        if l.kind == "call":
                            for a in l.data["args"]:
                                if any(x.kind == "const" and C.op_const(x.data) == '"%s"' % arg_id for x in C.trace(b, a)):
                                    ok = True
                    if not ok:
                        continue
                # follow the builder chain forward
                cur = t["dest"]["l"]
                seen = set()
                while cur is not None and cur not in seen:
                    seen.add(cur)
                    nxt = None
                    for bb2, t2 in b.calls():
                        if t2["args"] and any((C.op_place(a) or {}).get("l") == cur for a in t2["args"][:1]):
                            if C.callee_name(t2) == "clap::Arg::short":
                                return C.op_const(t2["args"][1])
                            nxt = t2["dest"]["l"]
                    if nxt is None:
                        for bb2, si, st in b.stmts():
                            if st["k"] == "assign" and st["rv"]["k"] == "use" and (C.op_place(st["rv"]["op"]) or {}).get("l") == cur \
                                    and not st["lhs"]["p"]:
                                nxt = st["lhs"]["l"]
                    cur = nxt
                return "none"
    return "arg-not-found"


TIME_APIS = re.compile(r"^(std::fs::Metadata::(modified|accessed|created)|std::time::SystemTime::(now|elapsed|duration_since)|std::fs::File::set_times"
                       r"|std::fs::File::set_modified|std::fs::FileTimes::.*)$")


@rule("C08", "R08.5", floor=2)
def r08_5(ctx):
    """the process working directory is not an input: the directory handed to Command::current_dir is the absolute source directory, never
    its base-relative rendering, which the OS would resolve against wherever the txtpp process happens to run (= C17 R17.1)"""
    import rules_run
    rules_run.r17_1(ctx)


@rule("C08", "R08.4", floor=1)
def r08_4(ctx):
    """no decision depends on file timestamps or the wall clock: the library never asks for a file's modification / access / creation
    time nor for SystemTime (a make-style 'target is newer than its source, skip it' shortcut makes the result depend on the history of
    the directory instead of on the sources); Instant (progress display throttling) is not a clock of that kind"""
    lib = ctx.lib
    n = 0
    for (b, kind, bb, names, obj) in C.all_mentions(lib, lambda ns: any(TIME_APIS.match(x or "") for x in ns)):
        n += 1
        ctx.violation([b.name, "timestamp", names[0]], "%s is used in %s: generated content or the decision to (re)generate must not depend on "
                      "timestamps" % (names[0], b.name), site=ctx.site(b, bb))
    if n == 0:
        ctx.ok("no timestamp / wall-clock API is mentioned in the library")


EXIST_PROBES = ("std::path::Path::exists", "std::path::Path::try_exists", "std::path::Path::is_file", "std::fs::exists")


@rule("C08", "R08.6", floor=2)
def r08_6(ctx):
    """whether a build succeeds does not depend on what an earlier run left behind: where try_resolve / the temp writer ask whether the
    target already exists, neither answer leads to an error that the function makes up itself — the only failures behind such a probe are
    those of the IO calls it guards (create, read, write, remove). A refusal placed on the "does not exist yet" edge only (a path-escape
    check before creating the file) makes the first build fail and every later one succeed."""
    lib = ctx.lib
    FRESH = ("error_stack::Report::<C>::new", "<error_stack::Report<C> as std::convert::From<C>>::from")
    n = 0
    for role in ("try_resolve", "write_temp_file"):
        b = body(ctx, role)
        if not b:
            continue
        probes = bool_call_edges(b, lib, EXIST_PROBES, True) | bool_call_edges(b, lib, EXIST_PROBES, False)
        if not probes:
            if role == "try_resolve":
                ctx.unverified("try_resolve has no existence probe in the reviewed shape (exists / try_exists / is_file)", site=ctx.site(b, 0))
            continue
        carriers = ret_carriers(b)
        bad = None
        for bb, si, st in b.stmts():
            if not (st["k"] == "assign" and st["rv"]["k"] == "aggregate" and st["rv"]["agg"].get("adt") == "std::result::Result"
                    and st["rv"]["agg"].get("variant") == "Err" and st["lhs"]["l"] in carriers):
                continue
            lv = C.trace(b, st["rv"]["ops"][0], through_decorators=True)
            fresh = [l for l in lv if l.kind == "call" and C.callee_name(l.data) in FRESH and
                     not any(x.kind == "errpayload" for x in C.trace(b, l.data["args"][0], through_decorators=True))]
            if not fresh:
                continue
            # one-sided: reachable past one answer of a probe but not past the other
            for sbb in {e[0] for e in probes}:
                es = [e for e in probes if e[0] == sbb]
                others = {eid for eid, s_, lab in b.edges(sbb)} - set(es)
                for side in (set(es), others):
                    if side and C.guarded(b, bb, side) and not C.guarded(b, bb, {eid for eid, s_, lab in b.edges(sbb)} - side):
                        bad = (bb, sbb)
        n += 1
        if bad:
            ctx.violation([b.name, "error-by-existence"], "%s makes up an error of its own on one side of an existence probe (%s): the verdict of a "
                          "build then depends on whether the target was already there" % (role, ctx.site(b, bad[1])["loc"]), site=ctx.site(b, bad[0]))
        else:
            ctx.ok("%s|no self-made error depends on an existence probe" % role, site=ctx.site(b, min(e[0] for e in probes)))


@rule("C09", "R09.7", floor=2)
def r09_7(ctx):
    """a missing output is not an up-to-date output: what the needed-build compares with the fresh text is the bytes read from the
    existing file and nothing that stands in for them (= C08 R08.2) — `read(..).unwrap_or_default()` makes "no file" equal to an empty
    fresh output, and the needed-build then creates nothing where a normal build writes an empty file"""
    r08_2(ctx)


@rule("C07", "R07.11", floor=1)
def r07_11(ctx):
    """a line that is rejected leaves no directive pending: in iterate_directive no error return is reachable after a directive was stored
    into `cur_directive` (without it being taken out again). The build stops at such an error; clean swallows it and goes on parsing — with
    a malformed, prefix-less `temp` still open it would absorb every following line and, at the end of the file, delete the file it
    names, which no build can have generated."""
    lib = ctx.lib
    it = body(ctx, "iterate_directive")
    if not it:
        return
    from rules_dir import built_variant
    on_field = lambda op: has_field(C.trace(it, op, through_fields=True), "cur_directive")
    stores, resets = [], []
    for bb, t in it.calls():
        nm = C.callee_name(t) or ""
        if not t["args"] or not on_field(t["args"][0]):
            continue
        if nm in ("std::option::Option::<T>::insert", "std::option::Option::<T>::get_or_insert", "std::option::Option::<T>::get_or_insert_with",
                  "std::option::Option::<T>::replace"):
            stores.append(bb)
        elif nm in ("std::option::Option::<T>::take", "std::mem::take"):
            resets.append(bb)
    for bb, si, st in it.stmts():
        if st["k"] == "assign" and st["lhs"]["p"] and st["lhs"]["p"][-1].get("name") == "cur_directive":
            v = built_variant(it, st["rv"]["op"]) if st["rv"]["k"] == "use" else (st["rv"].get("agg", {}).get("variant") if st["rv"]["k"] == "aggregate" else None)
            (resets if v == "None" else stores).append(bb)
    errs = sorted(err_sites(it))
    if not errs or not (stores or resets):
        ctx.unverified("iterate_directive has no error return / no store of cur_directive in the reviewed shape", site=ctx.site(it, 0))
        return
    bad = None
    for s_ in stores:
        reach = C.after_edges(it, out_edges(it, [s_]), cut=out_edges(it, resets))
        for e in errs:
            if e in reach:
                bad = (s_, e)
    if bad:
        ctx.violation([it.name, "error-with-directive-pending"], "iterate_directive can return an error after storing the directive it rejects "
                      "(stored at %s): in clean mode the error is swallowed and the malformed directive stays open" % ctx.site(it, bad[0])["loc"],
                      site=ctx.site(it, bad[1]))
    else:
        ctx.ok("no error return of iterate_directive leaves a directive pending (%d error sites, %d stores)" % (len(errs), len(stores)), site=ctx.site(it, errs[0]))


def _cli_flags_of_subcommand(ctx, dst, src):
    """the flags that reach Config are those of the (sub)command in effect: inside the arm of a subcommand, Config.<dst> is given the
    `<src>` flag of THAT subcommand's own arguments (a place under the variant's payload); outside every subcommand arm, the top-level
    one — an arm copied from its neighbour that still reads `self.<flags>` silently ignores what the user typed after the subcommand"""
    binp = ctx.bin
    if binp is None:
        ctx.anchor_missing("binary crate facts")
        return
    ca = ctx.role(binp, "txtpp::main")
    if not ca:
        return
    cmd_adt = next((p_ for p_ in binp.adts if p_.endswith("::Command") or p_ == "txtpp::Command"), None)
    if cmd_adt is None:
        ctx.anchor_missing("enum Command of the CLI")
        return
    variants = [v["name"] for v in binp.adts[cmd_adt]["variants"]]
    regions = {}
    for v in variants:
        e = enum_edges(ca, binp, cmd_adt, lambda vs, v=v: vs == {v})
        regions[v] = C.exclusive_region(ca, e) if e else set()
    copies = lambda tt: C.is_transparent(tt) or T.item_preserving(C.callee_name(tt)) or \
        (C.callee_name(tt) or "").endswith(("::to_vec", "::to_owned", "::clone", "::to_string", "::into", "::collect", "::into_iter"))
    n = 0
    for bb, op, st in field_values(ca, CLI_CONFIG, dst):
        if op is None and st.get("k") == "assign" and st["rv"]["k"] == "unop":
            op = st["rv"]["a"]          # `config.x = !flags.no_x`
        if op is None:
            continue
        lv = C.trace(ca, op, through_fields=True, transparent=copies)
        flag_leaves = [l for l in lv if l.kind == "field" and [nm for (o, v, nm) in C.pl_fields(l.data)][-1:] == [src]
                       and not any(o in CLI_CONFIG for (o, v, nm) in C.pl_fields(l.data))]
        if not flag_leaves:
            continue
        n += 1
        here = [v for v in variants if bb in regions[v]]
        judged = []          # (variants of the arm the value was chosen in, variants the chosen place lies under)
        if here:
            un = set()
            for l in lv:
                if l.kind == "field":
                    un |= {v for (o, v, nm) in C.pl_fields(l.data) if o == cmd_adt and v}
            judged.append((here, un))
        else:
            # the store sits after the arms (`let (mode, flags, build) = match sub { .. }; build.apply_to(config)`): go back to the local
            # the arms assign and judge each assignment in its arm
            pl = C.op_place(op)
            L, hops = None, 0
            while pl is not None and hops < 16:
                hops += 1
                ds = ca.defs().get(pl["l"], [])
                if len(ds) > 1:
                    L = pl["l"]
                    break
                if len(ds) != 1:
                    break
                rec = ds[0]
                nxt = None
                if rec[0] == "assign":
                    rv = rec[3]["rv"]
                    if rv["k"] in ("use", "cast"):
                        nxt = C.op_place(rv["op"])
                    elif rv["k"] in ("ref", "copyforderef"):
                        nxt = rv["pl"]
                    elif rv["k"] == "aggregate" and len(rv["ops"]) == 1:
                        nxt = C.op_place(rv["ops"][0])
                elif rec[0] == "call" and rec[2]["args"] and copies(rec[2]):
                    nxt = C.op_place(rec[2]["args"][0])
                pl = nxt
            if L is None:
                judged = [([], {v for (o, v, nm) in C.pl_fields(l.data) if o == cmd_adt and v}) for l in flag_leaves]
            else:
                for rec in ca.defs()[L]:
                    dbb = rec[1]
                    ops_ = []
                    if rec[0] == "assign":
                        rv = rec[3]["rv"]
                        ops_ = [rv["op"]] if rv["k"] in ("use", "cast") else ([{"k": "copy", "pl": rv["pl"]}] if rv["k"] in ("ref", "copyforderef") else rv.get("ops", []))
                    elif rec[0] == "call":
                        ops_ = rec[2]["args"][:1]
                    dl = [x for o_ in ops_ for x in C.trace(ca, o_, through_fields=True, transparent=copies) if x.kind == "field"
                          and not any(o in CLI_CONFIG for (o, v, nm) in C.pl_fields(x.data))]
                    if not dl:
                        continue
                    arm = [v for v in variants if dbb in regions[v]]
                    # (through_fields also reports the containers a place sits in — `cli.subcommand` —: one verdict per assignment)
                    un = set()
                    for x in dl:
                        un |= {v for (o, v, nm) in C.pl_fields(x.data) if o == cmd_adt and v}
                    judged.append((arm, un))
        bad = None
        for arm, under in judged:
            if arm and not (under and under <= set(arm)):
                bad = ("in the `%s` arm Config.%s is given the top-level `%s` flag (or another subcommand's) instead of the one that follows "
                       "`%s` on the command line" % (arm[0].lower(), dst, src, arm[0].lower()), arm[0])
            elif not arm and under:
                bad = ("outside the subcommand arms Config.%s is given the `%s` flag of subcommand %s" % (dst, src, sorted(under)), "top")
        if bad:
            ctx.violation(["cli-flags-of-subcommand", dst, bad[1]], bad[0], site=ctx.site(ca, bb))
        else:
            ctx.ok("Config.%s <- `%s` of the command in effect (%d origins judged)" % (dst, src, len(judged)), site=ctx.site(ca, bb))
    # .. and every subcommand that HAS such a flag among its own arguments hands it to Config: a `--shell` that can be typed after
    # `verify` and is never read (the application of the flags hoisted out of the arms and reading `self.<flags>` for all of them) is
    # silently ignored
    def has_flag(variant):
        for f in variant["fields"]:
            if f["name"] == src:
                return True
            sub = binp.adts.get(f.get("adt") or f.get("ty"))
            if sub and any(g["name"] == src for vv in sub["variants"] for g in vv["fields"]):
                return True
        return False
    under_seen = set()
    for bb, op, st in field_values(ca, CLI_CONFIG, dst):
        if op is None and st.get("k") == "assign" and st["rv"]["k"] == "unop":
            op = st["rv"]["a"]
        if op is None:
            continue
        for l in C.trace(ca, op, through_fields=True, transparent=copies):
            if l.kind == "field":
                under_seen |= {v for (o, v, nm) in C.pl_fields(l.data) if o == cmd_adt and v}
    for variant in binp.adts[cmd_adt]["variants"]:
        if n and has_flag(variant):
            if variant["name"] in under_seen:
                ctx.ok("the `%s` of subcommand %s reaches Config.%s" % (src, variant["name"], dst), site=ctx.site(ca, 0))
            else:
                ctx.violation(["cli-subcommand-flag-unread", dst, variant["name"]], "the `%s` flag among the arguments of the `%s` subcommand never "
                              "reaches Config.%s: what the user types after `%s` is ignored" % (src, variant["name"].lower(), dst, variant["name"].lower()),
                              site=ctx.site(ca, 0))
    if n == 0:
        ctx.unverified("no store of the `%s` flag into Config.%s found in main's normal form" % (src, dst), site=ctx.site(ca, 0))


@rule("C09", "R09.8", floor=1)
def r09_8(ctx):
    """the needed-build's compare-and-write happens for every file that completes: the line processor reports `PpResult::Ok` only past the
    success edge of `IOCtx::done()` (= C02 R02.5) — a normal build survives a skipped `done()` because dropping the writer flushes it;
    the needed-build does its only write there, so a stale output stays stale and a missing one missing"""
    import rules_sched
    rules_sched.r02_5(ctx)
