"""C01 (directive dispatch skeleton), C11 (input selection guards), C14 (tag typestate / determinism), C15 (grammar tables)."""
import re

import core as C
import tables as T
from common import *  # noqa
from engine import prop, rule
from rules_text import _effect_calls, JOIN, LINES

DT = ["Empty", "Include", "After", "Run", "Tag", "Temp", "Write"]

prop("C01", "Output conforms to the documented directive semantics",
     decided=["R01.1 directive dispatch: per DirectiveType arm the set of effects equals the documented one (Empty/After: nothing; Run: join(' ') + "
              "command runner; Include: try_resolve(create=false) + read; Temp: temp writer; Tag: tag creation; Write: join('\\n')) and the "
              "arm yields output exactly for Run/Include/Write",
              "R01.2 the indentation handed to the output formatter is the executing directive's own leading whitespace; temp content is unindented",
              "R01.3 'fails iff': a prefix-less multi-line directive is rejected before it is stored; include/tag errors are propagated",
              "R01.4 there is a single output channel: write_output is called only by the line processor"],
     not_decided=["the pending-newline / tail-line state machine, byte-exact splicing, line order, tag substitution results "
                  "(value-level behaviour over all inputs: the bulk of C01)"])

prop("C11", "Exactly the requested sources are processed and outputs are named correctly",
     decided=["R11.1 subdirectories are scheduled only on the true edge of `recursive`, which derives from Config.recursive at every call",
              "R11.2 a scanned entry is scheduled only if is_file() and is_txtpp_file()",
              "R11.3 a named non-.txtpp target is scheduled only through get_txtpp_file() == Some; None is an error",
              "R11.4 naming a file several ways processes it once: canonical identity + first-pass dedup (= C03 R03.5/R03.6)",
              "R11.5 dependencies are collected only outside Clean (= C07 R07.1)"],
     not_decided=["the naming arithmetic (foo.txtpp.ext -> foo.ext) and the exact set semantics over generated trees (runtime path values)"])

prop("C14", "Tags: stored once, substituted once, leftmost-first, never re-expanded",
     decided=["R14.1 determinism: every HashMap/HashSet iteration either feeds a sort before its order can matter or is in the reviewed list of "
              "order-insensitive / diagnostic-only uses",
              "R14.2 tag typestate: a tag starts listening only on the None edge of `listening` and never after a prefix-related stored tag was found",
              "R14.3 directive output goes to the tag XOR to the file (formatting for the file only on the failed-store edge)",
              "R14.4 a source with unused tags cannot complete successfully outside Clean",
              "R14.5 substituted text is never scanned again (= C16 R16.1)"],
     not_decided=["leftmost-first, overlap handling, first-occurrence-only, uniqueness of positions for prefix-free names "
                  "(algorithmic value-level facts; bounded-exhaustive testing is the right tool)"])

prop("C15", "Directive recognition and continuation follow the documented grammar",
     decided=["R15.1 name table: exactly {'' -> Empty, include, after, run, temp, tag, write}; marker constant TXTPP#; name/argument separator is one space",
              "R15.2 continuation is refused exactly for After, Include, Tag, before the argument list is touched",
              "R15.3 a multi-line-capable directive without prefix is an error (= C01 R01.3a)",
              "R15.4 no reverse search is used when recognising a directive (the FIRST TXTPP# counts); the first find is on TXTPP#"],
     not_decided=["the decision boundary itself (whitespace classes, partial prefix matches, byte vs char lengths): a pure string function; "
                  "exhaustive enumeration is the right tool"])


# ===================================================================================== C01

def expected_arms():
    # variant: (required significant callees, yields output) — built per run: roles are re-anchored per program
    return {
        "Empty": (set(), False),
        "After": (set(), False),
        "Run": ({JOIN, ROLE["shell_run"]}, True),
        "Include": ({ROLE["try_resolve"], "std::fs::read_to_string"}, True),
        "Temp": ({ROLE["execute_directive_temp"]}, False),
        "Tag": ({ROLE["tag_create"]}, False),
        "Write": ({JOIN}, True),
    }
INSIGNIFICANT = re.compile(
    r"(^std::(vec|slice|option|result|string|iter|path|boxed|mem|borrow|ops|hint)::|^<std::(vec|string|path|option|slice|boxed)::|"
    r"^<T as std::string::ToString>::to_string$|IOCtx::make_error|^<I as std::iter::IntoIterator>|^<str as |^std::str::|"
    # borrowing accessors of AbsPath: views of a value, no effect
    r"AbsPath::as_path$|AbsPath::as_path_buf$|^<txtpp::fs::path::abs_path::AbsPath as std::(convert::AsRef|ops::Deref|clone::Clone|fmt::Display))")


def significant(nm):
    if nm == JOIN or nm == "std::fs::read_to_string":
        return True
    if T.classify_fs(nm) or T.is_process(nm):
        return True
    if nm.startswith("txtpp::") or nm.startswith("<txtpp::") or " as txtpp::" in nm:
        return not INSIGNIFICANT.search(nm) and "::{closure#" not in nm
    return False


@rule("C01", "R01.1", floor=7)
def r01_1(ctx):
    lib = ctx.lib
    ed = body(ctx, "execute_directive")
    if not ed:
        return
    dt = lib.adts.get(ADT["DirectiveType"])
    if not dt or sorted(v["name"] for v in dt["variants"]) != sorted(DT):
        ctx.violation(["directive-types"], "the set of directive types changed: %s (expected %s): no documented semantics for the difference" % (
            [v["name"] for v in dt["variants"]] if dt else None, DT))
        return
    mo = modes(ctx)
    # per block: the directive types it can be reached for (one exploration per type, with the edges of every test of the type that
    # exclude it cut — the dispatch itself, and earlier tests such as "is this an include / after?" of the dependency lookup)
    import modes as M_
    me = M_.Modes(lib, mode_adts=(ADT["DirectiveType"],), all_modes=frozenset(DT)).mode_edges(ed)
    if not me:
        ctx.anchor_missing("dispatch on DirectiveType in execute_directive")
        return
    vis = {v: C.explore(ed, cut={eid for eid, vs in me.items() if v not in vs})[0] for v in DT}
    mm = mo.mode_edges(ed)
    non_clean = C.explore(ed, cut={eid for eid, vs in mm.items() if vs == {"Clean"}})[0]
    tested = set()
    for eid in me:
        tested |= C.region(ed, {eid})
    arm_blocks, yield_blocks = set(), set()
    for v in DT:
        # blocks that are reached for this type and only for types with the same documented behaviour, outside Clean (the Clean arm has
        # its own, smaller dispatch: C07), behind at least one test of the type
        klass = {w for w in DT if expected_arms()[w] == expected_arms()[v]}
        reg = {bb for bb in vis[v] if bb in non_clean and bb in tested and {w for w in DT if bb in vis[w]} <= klass}
        if not reg:
            ctx.anchor_missing("arm for DirectiveType::%s in execute_directive" % v)
            continue
        arm_blocks |= reg
        if expected_arms()[v][1]:
            yield_blocks |= reg
        calls = _effect_calls(ed, reg)
        sig = {C.callee_name(t) for bb, t in calls if significant(C.callee_name(t))}
        want, yields = expected_arms()[v]
        site = ctx.site(ed, min(reg) if reg else 0)
        probs = []
        if sig != want:
            probs.append("effects %s, documented %s" % (sorted(sig), sorted(want)))
        # constant arguments
        for bb, t in calls:
            nm = C.callee_name(t)
            if nm == ROLE["try_resolve"] and C.op_const(t["args"][2]) != "false":
                probs.append("include resolves its argument with create != false (a missing include would be created, not an error)")
            if nm == ROLE["execute_directive_temp"] and C.op_const(t["args"][2]) != "false":
                probs.append("temp directive executed with is_clean != false")
            if nm == JOIN:
                sep = {C.op_const(l.data) for l in C.trace(ed, t["args"][1]) if l.kind == "const"}
                if sep != ({'" "'} if v == "Run" else {'"\\n"'}):
                    probs.append("arguments joined with %s" % sorted(sep))
        # does the arm produce output?  Some(..)/None assigned to the arm value
        shapes = set()
        for bb in reg:
            for st in ed.blocks[bb]["stmts"]:
                if st["k"] == "assign" and st["rv"]["k"] == "aggregate" and st["rv"]["agg"].get("adt") == "std::option::Option" \
                        and ed.locals[st["lhs"]["l"]]["ty"] == "std::option::Option<std::string::String>":
                    shapes.add(st["rv"]["agg"]["variant"])
        if shapes != ({"Some"} if yields else {"None"}):
            probs.append("arm value is %s, documented %s" % (sorted(shapes), "Some(output)" if yields else "None"))
        if probs:
            ctx.violation([v, "; ".join(probs)[:200]], "directive `%s`: %s" % (v.lower(), "; ".join(probs)), site=site)
        else:
            ctx.ok("arm %s: effects %s, yields %s" % (v, sorted(x.rsplit("::", 1)[-1] for x in sig), "output" if yields else "nothing"), site=site)

    # .. and what an output-producing arm yields is what execute_directive returns: no `None` is made for such a directive AFTER the arms
    # (`raw_output.filter(|o| !o.is_empty())`: an empty output is still the output the listening tag must store, and still a piece of
    # output for the line processor)
    yielding = {w for w in DT if expected_arms()[w][1]}
    # (the arms of the main dispatch — the test with the most type edges — not the single-type stretches of an earlier test such as
    # "is this an include?" of the dependency lookup)
    by_sw = {}
    for eid in me:
        by_sw.setdefault(eid[0], set()).add(eid)
    opt_blocks = {bb for bb, si, st in ed.stmts() if st["k"] == "assign" and st["rv"]["k"] == "aggregate"
                  and st["rv"]["agg"].get("adt") == "std::option::Option"
                  and ed.locals[st["lhs"]["l"]]["ty"] == "std::option::Option<std::string::String>"}

    def sw_region(edges):
        r = set()
        for eid in edges:
            r |= C.region(ed, {eid})
        return r
    # (another full match on the type — `d.directive_type.error_kind()` inside an error path — is not the dispatch: the dispatch is the
    # one whose arms build the Option<String> values)
    main_edges = max(by_sw.values(), key=lambda es: (len(es), len(sw_region(es) & opt_blocks)))
    main_region = sw_region(main_edges)
    yield_blocks &= main_region
    after_arms = set()
    for a in yield_blocks:
        if a not in after_arms:
            after_arms |= ed.reachable(a)
    late = [(bb, st) for bb, si, st in ed.stmts() if st["k"] == "assign" and st["rv"]["k"] == "aggregate"
            and st["rv"]["agg"].get("adt") == "std::option::Option" and st["rv"]["agg"].get("variant") == "None"
            and ed.locals[st["lhs"]["l"]]["ty"] == "std::option::Option<std::string::String>"
            and bb in after_arms and bb in non_clean and bb not in arm_blocks and ({w for w in DT if bb in vis[w]} & yielding)]
    if late:
        bb, st = late[0]
        ctx.violation(["output-dropped-after-arm"], "execute_directive can replace the output of %s by None after the directive was executed: an empty "
                      "output is still the output (a listening tag stores it)" % sorted(w.lower() for w in DT if bb in vis[w] and w in yielding),
                      site=ctx.site(ed, bb))
    else:
        ctx.ok("no None is made for an output-producing directive outside its arm", site=ctx.site(ed, 0))


@rule("C01", "R01.2", floor=2)
def r01_2(ctx):
    lib = ctx.lib
    fdo = body(ctx, "format_directive_output")
    if not fdo:
        return
    pw = fdo.param_index_by_name("whitespaces")
    for (b, bb, t) in C.all_call_sites(lib, lambda ns, t: fdo.name in ns):
        lv = C.trace(b, t["args"][pw - 1], through_fields=True)
        site = ctx.site(b, bb)
        if b.name == ROLE["execute_directive_temp"]:
            if len(lv) == 1 and is_empty_text(lv[0]):
                ctx.ok("temp content is formatted without indentation", site=site)
            else:
                ctx.violation([b.name, "temp-indent"], "temp content is indented with something other than the empty string", site=site)
        else:
            if has_field(lv, "whitespaces") and not any(l.kind == "const" for l in lv):
                ctx.ok("directive output is indented with Directive.whitespaces|%s" % b.name, site=site)
            else:
                ctx.violation([b.name, "indent-origin"], "the indentation of directive output does not come from the directive's own leading "
                              "whitespace: %s" % [repr(l) for l in lv][:4], site=site)


@rule("C01", "R01.3", floor=3)
def r01_3(ctx):
    lib = ctx.lib
    it = body(ctx, "iterate_directive")
    if it:
        sml_false = bool_call_edges(it, lib, ROLE["supports_multi_line"], False)
        pre_nonempty = bool_call_edges(it, lib, "std::string::String::is_empty", False,
                                       arg_pred=lambda t: has_field(C.trace(it, t["args"][0], through_fields=True), "prefix"))
        sml_true = bool_call_edges(it, lib, ROLE["supports_multi_line"], True)
        pre_empty = bool_call_edges(it, lib, "std::string::String::is_empty", True,
                                    arg_pred=lambda t: has_field(C.trace(it, t["args"][0], through_fields=True), "prefix"))
        # the store of a freshly detected directive
        stores = []
        for bb, si, st in it.stmts():
            if st["k"] == "assign" and st["lhs"]["p"] and st["lhs"]["p"][-1].get("name") == "cur_directive" and st["rv"]["k"] == "use":
                lv = C.trace(it, st["rv"]["op"])       # looks through Some(..)
                if has_call(lv, ROLE["detect_from"]):
                    stores.append(bb)
        if not stores:
            ctx.anchor_missing("store of a detected directive into cur_directive")
        for bb in stores:
            if sml_false and pre_nonempty and C.guarded(it, bb, sml_false | pre_nonempty):
                ctx.ok("a detected directive is stored only if single-line or prefixed", site=ctx.site(it, bb))
            else:
                ctx.violation(["prefixless-multiline"], "a multi-line-capable directive without prefix is accepted (its continuation lines would be "
                              "ambiguous with ordinary text)", site=ctx.site(it, bb), witness=C.witness(it, bb, sml_false | pre_nonempty))
        if sml_true and pre_empty:
            reg = C.region(it, pre_empty) & C.region(it, sml_true)
            both = C.exclusive_region(it, pre_empty) & C.region(it, sml_true)
            if both and (set(err_sites(it)) & both) and not (set(stores) & both):
                ctx.ok("prefix-less multi-line directive -> Err", site=ctx.site(it, min(both)))
            else:
                ctx.violation(["prefixless-not-error"], "the prefix-less multi-line case does not lead to an error return", site=ctx.site(it, 0))
    ed = body(ctx, "execute_directive")
    if ed:
        # include / tag results are propagated with `?`
        for nm, what in ((ROLE["try_resolve"], "include resolution"), ("std::fs::read_to_string", "include read"), (ROLE["tag_create"], "tag creation"),
                         (ROLE["shell_run"], "command")):
            oke = try_ok_edges(ed, lib, nm)
            cs = calls_to(ed, nm)
            if not cs:
                ctx.anchor_missing("%s in execute_directive" % nm)
                continue
            if oke:
                ctx.ok("%s error is propagated with `?`" % what, site=ctx.site(ed, cs[0][0]))
            else:
                ctx.violation([what, "not-propagated"], "the result of the %s is not propagated with `?`" % what, site=ctx.site(ed, cs[0][0]))


@rule("C01", "R01.4", floor=3)
def r01_4(ctx):
    lib = ctx.lib
    ments = C.all_mentions(lib, lambda ns: ROLE["write_output"] in ns)
    for (b, kind, bb, names, obj) in ments:
        if b.name == ROLE["pp_run_internal"] and kind == "call":
            ctx.ok("write_output call in the line processor", site=ctx.site(b, bb))
        else:
            ctx.violation([b.name, "second-channel"], "write_output is used outside the line processor (%s): output could bypass the pending-newline "
                          "logic" % b.name, site=ctx.site(b, bb))


# ===================================================================================== C11

def _list_sites(b, field):
    """where an entry is destined for Directory.<field>: pushes whose receiver is that field only, and — when the receiver is a
    list reference chosen earlier (`let list = if .. { &mut d.files } else { &mut d.subdirs }`) — the blocks that select the field"""
    out = []
    for bb, t in calls_to(b, "std::vec::Vec::<T, A>::push"):
        lv = C.trace(b, t["args"][0], through_fields=True)
        flds = {n for l in lv if l.kind == "field" for (o, v, n) in C.pl_fields(l.data) if n in ("files", "subdirs")}
        if flds == {field}:
            out.append((bb, t))
        elif field in flds:
            # receiver selected among several lists: guard the selecting reference
            for sbb, si, st in b.stmts():
                if st["k"] == "assign" and st["rv"]["k"] == "ref" and st["rv"].get("mut") and \
                        any(n == field for (o, v, n) in C.pl_fields(st["rv"]["pl"])):
                    out.append((sbb, t))
    return out


@rule("C11", "R11.1", floor=3)
def r11_1(ctx):
    lib = ctx.lib
    sd = body(ctx, "scan_dir")
    if sd:
        prec = sd.param_index_by_name("recursive")
        rec_true = C.guard_edges(sd, lib, lambda c, v, leaf: c.kind == "bool" and leaf is not None and leaf.kind == "param" and leaf.data == prec and v is True)
        dir_true = bool_call_edges(sd, lib, "std::path::Path::is_dir", True)
        pushes = _list_sites(sd, "subdirs")
        if not pushes:
            ctx.anchor_missing("push to Directory.subdirs in scan_dir")
        for bb, t in pushes:
            if rec_true and C.guarded(sd, bb, rec_true) and dir_true and C.guarded(sd, bb, dir_true):
                ctx.ok("subdirectory scheduled only if is_dir() and recursive", site=ctx.site(sd, bb))
            else:
                ctx.violation(["subdir-unguarded"], "a subdirectory is scheduled without the `recursive` (and is_dir) guard", site=ctx.site(sd, bb),
                              witness=C.witness(sd, bb, rec_true))
    exd = body(ctx, "execute_directory")
    if exd:
        prec = exd.param_index_by_name("recursive")
        for (b, bb, t) in C.all_call_sites(lib, lambda ns, t: exd.name in ns):
            lv = C.trace(b, t["args"][prec - 1])
            if has_field(lv, "recursive") and all(l.kind == "field" for l in lv):
                ctx.ok("execute_directory(_, config.recursive)|%s" % b.name, site=ctx.site(b, bb))
            else:
                ctx.violation([b.name, "recursive-arg"], "execute_directory is called with a recursion flag that is not Config.recursive", site=ctx.site(b, bb))
        # the flag reaches scan_dir unchanged (through the task closure)
        pv = prov(ctx)
        for (b, bb, t) in C.all_call_sites(lib, lambda ns, t: ROLE["scan_dir"] in ns):
            leaves = pv.leaves(b, t["args"][1], expand_fields=False)
            ok = leaves and all((l.kind == "field" and has_field([C.Leaf("field", None, l.data)], "recursive")) for l in leaves)
            if ok:
                ctx.ok("scan_dir receives Config.recursive", site=ctx.site(b, bb))
            else:
                ctx.violation([b.name, "scan-recursive"], "scan_dir's recursive argument does not derive from Config.recursive: %s" % (
                    [l.describe() for l in leaves][:3]), site=ctx.site(b, bb))


@rule("C11", "R11.2", floor=1)
def r11_2(ctx):
    lib = ctx.lib
    sd = body(ctx, "scan_dir")
    if not sd:
        return
    f_true = bool_call_edges(sd, lib, "std::path::Path::is_file", True)
    t_true = bool_call_edges(sd, lib, ROLE["is_txtpp_file"], True)
    pushes = _list_sites(sd, "files")
    if not pushes:
        ctx.anchor_missing("push to Directory.files in scan_dir")
    for bb, t in pushes:
        if f_true and t_true and C.guarded(sd, bb, f_true) and C.guarded(sd, bb, t_true):
            ctx.ok("scanned entry scheduled only if is_file() and is_txtpp_file()", site=ctx.site(sd, bb))
        else:
            ctx.violation(["file-unguarded"], "a scanned entry is scheduled without the is_file()/is_txtpp_file() guards", site=ctx.site(sd, bb))


@rule("C11", "R11.3", floor=2)
def r11_3(ctx):
    lib = ctx.lib
    ri = body(ctx, "resolve_inputs")
    if not ri:
        return
    is_tx_false = bool_call_edges(ri, lib, ROLE["is_txtpp_file"], False)
    some_e = enum_edges(ri, lib, "std::option::Option", lambda vs: vs == {"Some"}, src_pred=lambda c: has_call(c.src, ROLE["get_txtpp_file"]))
    none_e = enum_edges(ri, lib, "std::option::Option", lambda vs: vs == {"None"}, src_pred=lambda c: has_call(c.src, ROLE["get_txtpp_file"]))
    pushes = [(bb, t) for bb, t in calls_to(ri, "std::vec::Vec::<T, A>::push") if has_field(C.trace(ri, t["args"][0], through_fields=True), "files")]
    if not pushes or not some_e:
        ctx.anchor_missing("file pushes / get_txtpp_file match in resolve_inputs")
        return
    reg_nontx = C.exclusive_region(ri, is_tx_false) if is_tx_false else set()
    for bb, t in pushes:
        if bb in reg_nontx:
            if C.guarded(ri, bb, some_e):
                ctx.ok("output-name input scheduled only via get_txtpp_file() == Some", site=ctx.site(ri, bb))
            else:
                ctx.violation(["nontxtpp-push"], "a non-.txtpp input is scheduled without a corresponding source having been found", site=ctx.site(ri, bb))
        else:
            lv = C.trace(ri, t["args"][1], through_decorators=True)
            if has_call(lv, ROLE["share_base"]):
                ctx.ok(".txtpp input scheduled through share_base (must exist)", site=ctx.site(ri, bb))
            else:
                ctx.violation(["txtpp-push"], "a .txtpp input is scheduled without resolving it (share_base)", site=ctx.site(ri, bb))
    if none_e:
        errs = set(err_sites(ri))
        cut = set()
        for eb in errs:
            cut |= {eid for eid, s_, lab in ri.edges(eb)}
        reached = C.after_edges(ri, none_e, cut=cut)
        escapes = [bb for bb in reached if ri.term(bb)["k"] == "return" or
                   (ri.term(bb)["k"] == "call" and C.callee_name(ri.term(bb)).endswith("as std::iter::Iterator>::next"))]
        if (errs & reached) and not escapes:
            ctx.ok("a named target without source is an error", site=ctx.site(ri, min(errs & reached)))
        else:
            ctx.violation(["missing-target-not-error"], "a named target with no source does not always lead to an error (it can be skipped)",
                          site=ctx.site(ri, escapes[0] if escapes else 0))
    else:
        ctx.violation(["missing-target-not-error"], "the None case of get_txtpp_file() is no longer distinguished", site=ctx.site(ri, 0))


@rule("C11", "R11.4", floor=2)
def r11_4(ctx):
    import rules_sched
    rules_sched.r03_5(ctx)
    rules_sched.r03_6(ctx)


@rule("C11", "R11.5", floor=1)
def r11_5(ctx):
    mo = modes(ctx)
    tgt = ROLE["get_txtpp_file"]
    for (b, bb, t) in C.all_call_sites(ctx.lib, lambda ns, t: tgt in ns):
        if b.name != ROLE["execute_directive"]:
            continue        # (the lookup of a dependency, spliced into execute_directive; resolve_inputs' use is input handling)
        m = mo.site_modes(b, bb)
        if "Clean" in m:
            ctx.violation([b.name, "deps-in-clean"], "dependencies are collected in Clean mode (clean would cascade to dependencies)", site=ctx.site(b, bb))
        else:
            ctx.ok("dependency collection only in %s" % sorted(m), site=ctx.site(b, bb))


# ===================================================================================== C14

HASH_ITER_EXEMPT = [
    (r"TagState::create$", "only decides WHICH conflicting tag is named in the error message; whether an error is returned is order-independent"),
    (r"TagState as std::fmt::Display>::fmt$", "diagnostic rendering of unused tags"),
    (r"DepManager::notify_finish$", "builds a HashSet of released dependers: order-insensitive"),
    (r"DepManager::take_remaining$", "builds a HashMap of left-over edges: order-insensitive"),
    (r"(^|::)print_dep_map$", "diagnostic rendering of a dependency cycle"),
    (r"Txtpp::run_internal$", "spawn order of released dependers: a scheduling choice, results are per-file"),
    (r"as std::fmt::Debug>::fmt$", "derived Debug"),
]


@rule("C14", "R14.1", floor=5)
def r14_1(ctx):
    lib = ctx.lib
    for b in lib.bodies.values():
        for bb, t in b.calls():
            nm = C.callee_name(t)
            if not T.HASH_ITER_RE.match(nm):
                # `for x in set` goes through <I as IntoIterator>::into_iter: look at the argument type
                if not (nm.endswith("::into_iter") and t["arg_tys"] and re.search(r"std::collections::Hash(Map|Set)<", t["arg_tys"][0]["ty"])):
                    continue
            site = ctx.site(b, bb)
            # sorted before use?  the iterator flows (through adaptors/collect) into a local that is passed to sort* before it is read
            sorted_ok = _flows_into_sort(b, t["dest"]["l"])
            if sorted_ok:
                ctx.ok("hash iteration is sorted before use|%s" % b.name, site=site)
                continue
            # a closure belongs to the function it is written in
            owner = b.root if b.kind == "Closure" and b.root else b.name
            ex = [r for (pat, r) in HASH_ITER_EXEMPT if re.search(pat, b.name) or re.search(pat, owner)]
            if ex:
                ctx.ok("hash iteration exempt|%s" % b.name, site=site, detail=ex[0])
            else:
                ctx.violation([b.name, nm], "iteration over a HashMap/HashSet whose order can influence the result (no sort before use, not in the "
                              "reviewed order-insensitive list): output may differ from run to run", site=site)


ADAPTORS = ("std::iter::Iterator::filter_map", "std::iter::Iterator::map", "std::iter::Iterator::filter", "std::iter::Iterator::collect",
            "std::iter::Iterator::cloned", "std::iter::Iterator::enumerate", "<I as std::iter::IntoIterator>::into_iter")


def _flows_into_sort(b, local):
    """does the hash iteration end up in a collection that is sorted?  Followed: moves/refs, item-preserving adaptors and `next`,
    values computed from an item (aggregates, `find(item)` ..: anything built from the item in the loop body is as unordered as the
    items), and `Vec::push(v, x)` of such a value, which makes `v` the collection."""
    seen = set()
    work = [local]

    def root_local(op):
        """the local a `&mut v` operand refers to"""
        lv_seen = set()
        p = C.op_place(op)
        while p is not None and p["l"] not in lv_seen:
            lv_seen.add(p["l"])
            ds = [r for r in b.defs().get(p["l"], []) if r[0] == "assign"]
            if len(ds) == 1 and ds[0][3]["rv"]["k"] in ("ref", "copyforderef"):
                p = ds[0][3]["rv"]["pl"]
            elif len(ds) == 1 and ds[0][3]["rv"]["k"] == "use" and C.op_place(ds[0][3]["rv"]["op"]) is not None:
                p = C.op_place(ds[0][3]["rv"]["op"])
            else:
                break
        return p["l"] if p is not None else None

    while work:
        l = work.pop()
        if l in seen:
            continue
        seen.add(l)
        for bb, si, st in b.stmts():
            if st["k"] != "assign" or st["lhs"]["p"]:
                continue
            rv = st["rv"]
            if rv["k"] in ("use", "ref", "copyforderef"):
                src = C.op_place(rv["op"]) if rv["k"] == "use" else rv["pl"]
                if src and src["l"] == l:
                    work.append(st["lhs"]["l"])
            elif rv["k"] == "aggregate":
                if any((C.op_place(o) or {}).get("l") == l for o in rv["ops"]):
                    work.append(st["lhs"]["l"])
        for bb, t in b.calls():
            nm = C.callee_name(t)
            if t["args"] and (C.op_place(t["args"][0]) or {}).get("l") == l:
                if T.SORT_RE.match(nm):
                    # every later for-loop over the collection is after the sort
                    return True
                if nm in ADAPTORS or T.item_preserving(nm) or nm.endswith("::deref_mut") or nm.endswith("::deref"):
                    work.append(t["dest"]["l"])
            if nm == "std::vec::Vec::<T, A>::push" and len(t["args"]) == 2 and (C.op_place(t["args"][1]) or {}).get("l") == l:
                v = root_local(t["args"][0])
                if v is not None:
                    work.append(v)
    return False


SEARCHES = {"std::iter::Iterator::find": "opt", "std::iter::Iterator::position": "opt", "std::iter::Iterator::find_map": "opt",
            "std::iter::Iterator::any": "bool"}


def _conflict_search(ctx, cr, stores, none_e):
    lib = ctx.lib
    pv = prov(ctx)
    for bb, t in cr.calls():
        kind = SEARCHES.get(C.callee_name(t))
        if not kind or len(t.get("arg_tys", [])) < 2:
            continue
        cl = lib.bodies.get(t["arg_tys"][1].get("closure", ""))
        if cl is None or not has_field(C.trace(cr, t["args"][0], through_fields=True, transparent=lambda tt: C.is_transparent(tt) or C.callee_name(tt) in (
                "std::collections::HashMap::<K, V, S, A>::keys", "std::collections::HashMap::<K, V, S, A>::iter")), "stored"):
            continue
        # both directions of starts_with between the closure's item and the captured tag
        dirs = set()
        for cbb, ct in calls_to(cl, "std::str::<impl str>::starts_with"):
            def is_tag(op):
                for l in C.trace(cl, op):
                    if l.kind != "upvar":
                        continue
                    idx = next((e["i"] for e in l.data["p"] if e["k"] == "field" and e.get("upvar")), None)
                    for (pb, pbb, ops) in pv.closure_creation(cl):
                        if pb is cr and idx is not None and idx < len(ops) and has_param(C.trace(cr, ops[idx]), cr, "tag"):
                            return True
                return False
            dirs.add((is_tag(ct["args"][0]), is_tag(ct["args"][1])))
        # the closure returns the disjunction (true when either holds): no negation on the way to its return value
        ret = C.trace(cl, {"l": 0, "p": []})
        positive = bool(ret) and not any(l.neg for l in ret)
        if not ({(True, False), (False, True)} <= dirs and positive):
            ctx.violation(["prefix-one-direction"], "the prefix relation between the new tag and stored tags is not tested in both directions by the "
                          "search predicate", site=ctx.site(cr, bb))
            return True
        if kind == "opt":
            clear = enum_edges(cr, lib, "std::option::Option", lambda vs: vs == {"None"}, src_pred=lambda c, bb=bb: any(l.kind == "call" and l.bb == bb for l in c.src))
        else:
            clear = C.guard_edges(cr, lib, lambda c, v, leaf, bb=bb: c.kind == "bool" and leaf is not None and leaf.kind == "call" and leaf.bb == bb and v is False)
        for sbb in stores:
            if none_e and C.guarded(cr, sbb, none_e):
                ctx.ok("a tag starts listening only when no tag is listening", site=ctx.site(cr, sbb))
            else:
                ctx.violation(["listening-overwrite"], "a new tag can start listening while another is still waiting for output", site=ctx.site(cr, sbb))
            if clear and C.guarded(cr, sbb, clear):
                ctx.ok("the store sits on the no-conflict edge of the prefix search (both directions tested in the predicate)", site=ctx.site(cr, sbb))
            else:
                ctx.violation(["prefix-conflict"], "a tag can start listening although the prefix search found a conflicting stored tag", site=ctx.site(cr, sbb))
        return True
    return False


def built_variant(b, op):
    """variant of the Option/enum aggregate a moved operand was built as (single-def chain), or None"""
    p = C.op_place(op)
    seen = set()
    while p is not None and not p["p"] and p["l"] not in seen:
        seen.add(p["l"])
        ds = [r for r in b.defs().get(p["l"], []) if r[0] == "assign"]
        if len(ds) != 1:
            return None
        rv = ds[0][3]["rv"]
        if rv["k"] == "aggregate" and rv["agg"]["k"] == "adt":
            return rv["agg"]["variant"]
        if rv["k"] == "use":
            p = C.op_place(rv["op"])
        else:
            return None
    return None


@rule("C14", "R14.2", floor=2)
def r14_2(ctx):
    lib = ctx.lib
    cr = body(ctx, "tag_create")
    if not cr:
        return
    stores = []
    for bb, si, st in cr.stmts():
        if st["k"] == "assign" and st["lhs"]["p"] and st["lhs"]["p"][-1].get("name") == "listening" and st["rv"]["k"] == "use":
            if built_variant(cr, st["rv"]["op"]) == "Some":
                stores.append(bb)
    if not stores:
        ctx.anchor_missing("`listening = Some(tag)` in TagState::create")
        return
    none_e = enum_edges(cr, lib, "std::option::Option", lambda vs: "None" in vs and "Some" not in vs,
                        src_pred=lambda c: has_field(C.trace(cr, c.place, through_fields=True), "listening") or has_field(c.src, "listening"))
    # "a starts with b": `a.starts_with(b)` true, or `a.strip_prefix(b)` is Some
    SP = "std::str::<impl str>::strip_prefix"
    sw_true = bool_call_edges(cr, lib, "std::str::<impl str>::starts_with", True) | \
        enum_edges(cr, lib, "std::option::Option", lambda vs: vs == {"Some"}, src_pred=lambda c: bool(c.src) and all(leaf_is_call(l, SP) for l in c.src))
    n_sw = len(calls_to(cr, ("std::str::<impl str>::starts_with", SP)))
    if n_sw == 0:
        # iterator form: `stored.keys().find(|k| k.starts_with(tag) || tag.starts_with(k))` (or any / position): the conflict test lives
        # in the predicate closure; the store must sit on the nothing-found edge
        r = _conflict_search(ctx, cr, stores, none_e)
        if r:
            return
    for bb in stores:
        if none_e and C.guarded(cr, bb, none_e):
            ctx.ok("a tag starts listening only when no tag is listening", site=ctx.site(cr, bb))
        else:
            ctx.violation(["listening-overwrite"], "a new tag can start listening while another is still waiting for output", site=ctx.site(cr, bb),
                          witness=C.witness(cr, bb, none_e))
        if n_sw >= 2 and sw_true and bb not in C.region(cr, sw_true):
            ctx.ok("no path from a prefix-related stored tag to the store", site=ctx.site(cr, bb))
        else:
            ctx.violation(["prefix-conflict"], "a tag whose name equals/prefixes/is prefixed by a stored tag can be created (both directions of "
                          "starts_with must lead to an error): %d starts_with tests" % n_sw, site=ctx.site(cr, bb))
    # both directions are tested: starts_with(k, tag) and starts_with(tag, k)
    dirs = set()
    p_tag = cr.param_index_by_name("tag")
    for bb, t in calls_to(cr, ("std::str::<impl str>::starts_with", SP)):
        a0 = any(l.kind == "param" and l.data == p_tag for l in C.trace(cr, t["args"][0]))
        a1 = any(l.kind == "param" and l.data == p_tag for l in C.trace(cr, t["args"][1]))
        dirs.add((a0, a1))
    if {(True, False), (False, True)} <= dirs:
        ctx.ok("prefix relation tested in both directions", site=ctx.site(cr, 0))
    else:
        ctx.violation(["prefix-one-direction"], "the prefix relation between the new tag and stored tags is tested in one direction only", site=ctx.site(cr, 0))


@rule("C14", "R14.3", floor=1)
def r14_3(ctx):
    lib = ctx.lib
    ri = body(ctx, "pp_run_internal")
    if not ri:
        return
    store_failed = bool_call_edges(ri, lib, "std::result::Result::<T, E>::is_err", True,
                                   arg_pred=lambda t: has_call(C.trace(ri, t["args"][0]), ROLE["tag_try_store"])) | \
        bool_call_edges(ri, lib, "std::result::Result::<T, E>::is_ok", False,
                        arg_pred=lambda t: has_call(C.trace(ri, t["args"][0]), ROLE["tag_try_store"])) | \
        enum_edges(ri, lib, "std::result::Result", lambda vs: vs == {"Err"}, src_pred=lambda c: has_call(c.src, ROLE["tag_try_store"])) | \
        enum_edges(ri, lib, "std::option::Option", lambda vs: vs == {"Some"}, src_pred=lambda c: bool(c.src) and all(
            # `try_store(..).err()` is Some exactly when the store failed
            l.kind == "call" and C.callee_name(l.data) == "std::result::Result::<T, E>::err" and
            has_call(C.trace(ri, l.data["args"][0]), ROLE["tag_try_store"]) for l in c.src)) | \
        enum_edges(ri, lib, "std::option::Option", lambda vs: vs == {"None"}, src_pred=lambda c: bool(c.src) and all(
            l.kind == "call" and C.callee_name(l.data) == "std::result::Result::<T, E>::ok" and
            has_call(C.trace(ri, l.data["args"][0]), ROLE["tag_try_store"]) for l in c.src))
    fs = calls_to(ri, ROLE["format_directive_output"])
    if not fs:
        ctx.anchor_missing("format_directive_output call in the line processor")
    for bb, t in fs:
        if store_failed and C.guarded(ri, bb, store_failed):
            ctx.ok("directive output is formatted for the file only when no tag took it", site=ctx.site(ri, bb))
        else:
            ctx.violation(["tag-and-file"], "directive output can go to the file although a listening tag stored it (or without asking the tag state)",
                          site=ctx.site(ri, bb), witness=C.witness(ri, bb, store_failed))
    # try_store is offered exactly the raw output
    for bb, t in calls_to(ri, ROLE["tag_try_store"]):
        if has_call(C.trace(ri, t["args"][1], through_decorators=True), ROLE["execute_directive"]):
            ctx.ok("the tag is offered the raw directive output", site=ctx.site(ri, bb))
        else:
            ctx.violation(["store-other"], "try_store is offered something other than the raw directive output", site=ctx.site(ri, bb))


@rule("C14", "R14.4", floor=1)
def r14_4(ctx):
    lib = ctx.lib
    ri = body(ctx, "pp_run_internal")
    if not ri:
        return
    no_tags = bool_call_edges(ri, lib, ROLE["tag_has_tags"], False)
    clean_e = enum_edges(ri, lib, ADT["Mode"], lambda vs: vs == {"Clean"})
    ags = aggregates(ri, ADT["PpResult"], "Ok")
    if not ags:
        ctx.anchor_missing("PpResult::Ok aggregate")
    for bb, st in ags:
        if no_tags and C.guarded(ri, bb, no_tags | clean_e):
            ctx.ok("success only with no tag left (or in Clean)", site=ctx.site(ri, bb))
        else:
            ctx.violation(["unused-tags-ok"], "a file can complete successfully with unused tags outside Clean", site=ctx.site(ri, bb),
                          witness=C.witness(ri, bb, no_tags | clean_e))
    ht = body(ctx, "tag_has_tags")
    if ht:
        reads = set()
        for bb, t in ht.calls():
            for a in t["args"]:
                for l in C.trace(ht, a, through_fields=True):
                    if l.kind == "field":
                        reads |= {n for (o, v, n) in C.pl_fields(l.data)}
        if {"listening", "stored"} <= reads:
            ctx.ok("has_tags looks at both the listening and the stored tags", site=ctx.site(ht, 0))
        else:
            ctx.violation(["has_tags-partial"], "has_tags no longer looks at both `listening` and `stored` (%s)" % sorted(reads), site=ctx.site(ht, 0))


@rule("C14", "R14.5", floor=3)
def r14_5(ctx):
    import rules_text
    rules_text.r16_1(ctx)


# ===================================================================================== C15

NAME_TABLE = {'""': "Empty", '"include"': "Include", '"after"': "After", '"run"': "Run", '"temp"': "Temp", '"tag"': "Tag", '"write"': "Write"}


def _split_at_find_space(df):
    """the hand-written split_once(' '): exactly one `s.find(' ')`; the name is `s[..i]` and the argument `s[i+1..]` of the same s"""
    import rules_panic as RP
    fs = [(bb, t) for bb, t in calls_to(df, RP.FIND) if C.op_const(t["args"][1]) == "' '"]
    if len(fs) != 1:
        return False
    fbb, ft = fs[0]
    s_id = RP.ident(df, ft["args"][0])
    head = tail = False
    for bb, t in calls_to(df, RP.STR_INDEX):
        if not RP.same(RP.ident(df, t["args"][0]), s_id):
            continue
        kind, parts = RP.range_parts(df, t["args"][1])
        if kind == "RangeTo" and any(l.kind == "call" and l.bb == fbb for l in C.trace(df, parts["end"])):
            head = True
        if kind == "RangeFrom" and RP.find_plus_patlen(df, parts["start"], s_id):
            tail = True
    return head and tail


@rule("C15", "R15.1", floor=9)
def r15_1(ctx):
    lib = ctx.lib
    tf = body(ctx, "directive_try_from")
    if tf:
        found = {}
        for bb, t in tf.calls():
            nm = C.callee_name(t)
            if not nm.endswith("::eq"):
                continue
            k = None
            for a in t["args"]:
                for l in C.trace(tf, a):
                    if l.kind == "const":
                        k = C.op_const(l.data)
            if k is None:
                continue
            te = C.guard_edges(tf, lib, lambda c, v, leaf, bb=bb: c.kind == "bool" and leaf is not None and leaf.kind == "call" and leaf.bb == bb and v is True)
            reg = C.exclusive_region(tf, te) if te else set()
            built = {st["rv"]["agg"]["variant"] for b2, st in aggregates(tf, ADT["DirectiveType"]) if b2 in reg}
            found[k] = sorted(built)
        looped = any(tf.in_cycle(bb) for bb, t in tf.calls() if C.callee_name(t).endswith("::eq"))
        if not any(found.values()) and looped:
            # `ALL_TYPES.into_iter().find(|t| t.name() == value)`: the name of each variant is compared inside a loop over a table of
            # variants — which names map to which variant is then the content of two tables, not the shape of this function
            ctx.unverified("directive names are looked up through a reverse table in a loop", site=ctx.site(tf, 0),
                           detail="the name -> DirectiveType mapping is not decided structurally for this implementation")
            found = None
        for k, v in (NAME_TABLE.items() if found is not None else ()):
            if found.get(k) == [v]:
                ctx.ok("name %s -> %s" % (k, v), site=ctx.site(tf, 0))
            else:
                ctx.violation(["name", k], "directive name %s maps to %s, documented %s" % (k, found.get(k), v), site=ctx.site(tf, 0))
        extra = (set(found) - set(NAME_TABLE)) if found is not None else set()
        if extra:
            ctx.violation(["extra-names", ",".join(sorted(extra))], "undocumented directive names are recognised: %s" % sorted(extra), site=ctx.site(tf, 0))
        # no other comparison style (starts_with / eq_ignore_case ...)
        odd = [C.callee_name(t) for bb, t in tf.calls() if not C.callee_name(t).endswith("::eq")] if found is not None else []
        if odd:
            ctx.violation(["name-match-style", ",".join(sorted(set(odd)))], "directive names are matched with %s (exact equality documented)" % sorted(set(odd)),
                          site=ctx.site(tf, 0))
    c = const_by_name(lib, "TXTPP_HASH")
    if c and c["value"] == '"TXTPP#"':
        ctx.ok("TXTPP_HASH == \"TXTPP#\"")
    else:
        ctx.violation(["marker"], "the directive marker constant is %s, documented \"TXTPP#\"" % (c["value"] if c else None))
    df = body(ctx, "detect_from")
    if df:
        so = [x for x in calls_to(df, "std::str::<impl str>::split_once") + calls_to(df, "std::str::<impl str>::splitn")
              if not any(l.kind == "const" and (l.data.get("named", "").endswith("TXTPP_HASH") or C.op_const(l.data) == '"TXTPP#"')
                         for l in C.trace(df, x[1]["args"][1]))]
        if len(so) == 1 and C.op_const(so[0][1]["args"][1]) == "' '":
            ctx.ok("name/argument separator is one space (split_once(' '))", site=ctx.site(df, so[0][0]))
        elif not so and _split_at_find_space(df):
            ctx.ok("name/argument separator is one space (find(' '), name = s[..i], argument = s[i+1..])", site=ctx.site(df, 0))
        else:
            ctx.violation(["separator"], "the directive name is no longer split from its argument at the first single space", site=ctx.site(df, 0))


@rule("C15", "R15.2", floor=8)
def r15_2(ctx):
    lib = ctx.lib
    sm = body(ctx, "supports_multi_line")
    if sm:
        import modes as M
        mo = M.Modes(lib, mode_adts=(ADT["DirectiveType"],), all_modes=frozenset(DT))
        # which constant feeds the return value per variant
        ret_leaves = C.trace(sm, {"l": 0, "p": []})
        res = {}
        for v in DT:
            vals = set()
            for bb, si, st in sm.stmts():
                if st["k"] == "assign" and st["rv"]["k"] == "use" and st["rv"]["op"]["k"] == "const" and \
                        C.op_const(st["rv"]["op"]) in ("true", "false") and sm.locals[st["lhs"]["l"]]["ty"] == "bool":
                    if v in mo.local_modes(sm, bb):
                        neg = any(l.neg for l in ret_leaves if l.kind == "const")
                        val = C.op_const(st["rv"]["op"]) == "true"
                        vals.add((not val) if neg else val)
            res[v] = vals
        for v in DT:
            want = v not in ("After", "Include", "Tag")
            if res[v] == {want}:
                ctx.ok("supports_multi_line(%s) == %s" % (v, want), site=ctx.site(sm, 0))
            else:
                ctx.violation(["multi-line-table", v], "supports_multi_line(%s) is %s, documented %s" % (v, sorted(res[v]), want), site=ctx.site(sm, 0))
    al = body(ctx, "add_line")
    if al:
        sml_true = bool_call_edges(al, lib, ROLE["supports_multi_line"], True)
        pushes = [(bb, t) for bb, t in calls_to(al, "std::vec::Vec::<T, A>::push")]
        if not pushes:
            ctx.anchor_missing("args.push in add_line")
        bad = [bb for bb, t in pushes if not (sml_true and C.guarded(al, bb, sml_true))]
        if bad:
            ctx.violation(["continuation-unguarded"], "a continuation line can be appended to a single-line directive", site=ctx.site(al, bad[0]))
        else:
            ctx.ok("continuation lines are appended only when supports_multi_line()", site=ctx.site(al, pushes[0][0]))


@rule("C15", "R15.3", floor=1)
def r15_3(ctx):
    r01_3(ctx)


REVERSE_RE = re.compile(r"::(rfind|rsplit|rsplit_once|rsplitn|rsplit_terminator|rmatches|rmatch_indices|rposition|last|rev)$")


@rule("C15", "R15.4", floor=2)
def r15_4(ctx):
    lib = ctx.lib
    df = body(ctx, "detect_from")
    al = body(ctx, "add_line")
    for b in (df, al):
        if not b:
            continue
        bad = [(bb, C.callee_name(t)) for bb, t in b.calls() if REVERSE_RE.search(C.callee_name(t))]
        for c in lib.closures_of(b):
            bad += [(0, C.callee_name(t)) for bb, t in c.calls() if REVERSE_RE.search(C.callee_name(t))]
        if bad:
            ctx.violation([b.name, "reverse-search", bad[0][1]], "%s uses the reverse search %s (the FIRST `TXTPP#` on the line counts)" % (
                b.name.rsplit("::", 1)[-1], bad[0][1]), site=ctx.site(b, bad[0][0]))
        else:
            ctx.ok("no reverse search in %s" % b.name.rsplit("::", 1)[-1], site=ctx.site(b, 0))
    if df:
        fs = calls_to(df, "std::str::<impl str>::find") + calls_to(df, "std::str::<impl str>::split_once")
        marker = [x for x in fs if any(l.kind == "const" and (l.data.get("named", "").endswith("TXTPP_HASH") or C.op_const(l.data) == '"TXTPP#"')
                                       for l in C.trace(df, x[1]["args"][1]))]
        if len(marker) == 1:
            ctx.ok("the directive marker is located with a forward first-occurrence search (find / split_once) for TXTPP_HASH", site=ctx.site(df, marker[0][0]))
        else:
            ctx.violation(["marker-find"], "detect_from no longer locates the marker with a single forward find(TXTPP_HASH)", site=ctx.site(df, 0))


def _tag_emits(inj):
    """where inject_tags emits normalised tag content: (bb, terminator, operand that carries the content) — pushed onto the result / a list of
    pieces, or spliced into a copy of the line in place (replace_range / insert_str)"""
    out = []
    for bb, t in calls_to(inj, ("std::string::String::push_str", "std::vec::Vec::<T, A>::push")):
        out.append((bb, t, t["args"][1]))
    for bb, t in calls_to(inj, ("std::string::String::replace_range", "std::string::String::insert_str")):
        out.append((bb, t, t["args"][2]))
    return [(bb, t, a) for bb, t, a in out if has_call(deep_leaves(inj, a, through_fields=True), ROLE["replace_line_ending"])]


@rule("C14", "R14.6", floor=3)
def r14_6(ctx):
    """tag store discipline: try_store moves the listening tag into `stored` with the offered content and stops listening;
    inject_tags removes exactly the tags it substituted"""
    lib = ctx.lib
    ts = body(ctx, "tag_try_store")
    if ts:
        some_e = enum_edges(ts, lib, "std::option::Option", lambda vs: vs == {"Some"})
        ins = [(bb, t) for bb, t in calls_to(ts, "std::collections::HashMap::<K, V, S, A>::insert") if has_field(C.trace(ts, t["args"][0]), "stored")]
        pc = ts.param_index_by_name("content")
        good = bool(ins)
        strict = lambda tt: C.is_transparent(tt) and not C.callee_name(tt).endswith(("unwrap_or_default", "unwrap_or", "unwrap_or_else")) or \
            C.callee_name(tt) in ("std::option::Option::<T>::ok_or", "std::option::Option::<T>::ok_or_else", "std::option::Option::<T>::take")
        for bb, t in ins:
            key = C.trace(ts, t["args"][1], through_fields=True, transparent=strict)
            val = C.trace(ts, t["args"][2])
            # the key is the payload of `listening` (it exists only if a tag was listening): through a Some edge or through `take().ok_or(..)?`
            key_ok = has_field(key, "listening") and not any(l.kind == "call" and l.callee().endswith(("unwrap_or_default", "unwrap_or", "unwrap_or_else")) for l in key)
            guarded_some = (some_e and C.guarded(ts, bb, some_e)) or bool(try_ok_edges(ts, lib, ("std::option::Option::<T>::ok_or", "std::option::Option::<T>::ok_or_else",
                                                                                                    "std::option::Option::<T>::take")) and
                                                                           C.guarded(ts, bb, try_ok_edges(ts, lib, ("std::option::Option::<T>::ok_or",
                                                                                                                     "std::option::Option::<T>::ok_or_else",
                                                                                                                     "std::option::Option::<T>::take"))))
            if not (key_ok and any(l.kind == "param" and l.data == pc for l in val) and guarded_some):
                good = False
        # listening is reset: `self.listening = None`, or Option::take / mem::take on the field
        resets = [bb for bb, si, st in ts.stmts() if st["k"] == "assign" and st["lhs"]["p"] and st["lhs"]["p"][-1].get("name") == "listening"
                  and st["rv"]["k"] == "use" and built_variant(ts, st["rv"]["op"]) == "None"]
        resets += [bb for bb, t in ts.calls() if C.callee_name(t) in ("std::option::Option::<T>::take", "std::mem::take")
                   and has_field(C.trace(ts, t["args"][0], through_fields=True), "listening")]
        oks = ok_sites(ts)
        if good and resets and oks and all(C.guarded(ts, o, out_edges(ts, [bb for bb, t in ins])) for o in oks) and \
                all(C.guarded(ts, o, out_edges(ts, resets)) or o in resets for o in oks):
            ctx.ok("try_store: stored[listening] = content; listening reset; Ok only after both", site=ctx.site(ts, ins[0][0]))
        else:
            ctx.violation(["try_store"], "try_store no longer stores the offered content under the listening tag and stops listening before returning Ok",
                          site=ctx.site(ts, 0))
    inj = body(ctx, "tag_inject")
    if inj:
        # where normalised tag content is emitted: pushed onto the result string, or onto a list of pieces that is concatenated later
        emits = _tag_emits(inj)
        pushes_val = [(bb, t) for bb, t, a in emits]
        emit_arg = {id(t): a for bb, t, a in emits}
        # where a used tag is queued for removal: a push / insert of something that is neither content nor a slice of the line
        is_piece = lambda t: any(l.kind == "call" and (C.callee_name(l.data).endswith("Index<I> for str>::index") or
                                                       C.callee_name(l.data) == ROLE["replace_line_ending"])
                                 for l in deep_leaves(inj, t["args"][1], through_fields=True))
        key_push = [(bb, t) for bb, t in calls_to(inj, "std::vec::Vec::<T, A>::push") if not is_piece(t)] + \
                   [(bb, t) for bb, t in calls_to(inj, "std::collections::HashSet::<T, S, A>::insert")]
        queue_ids = set()
        for bb, t in key_push:
            for l in C.trace(inj, t["args"][0]):
                queue_ids.add((l.kind, l.bb))
        # removal: a loop of stored.remove(key) over the queue, or stored.retain(|k, _| !queue.contains(k))
        rem = [(bb, t) for bb, t in calls_to(inj, "std::collections::HashMap::<K, V, S, A>::remove") if has_field(C.trace(inj, t["args"][0]), "stored")]
        removal_ok = bool(rem)
        for bb, t in calls_to(inj, "std::collections::HashMap::<K, V, S, A>::retain"):
            if not has_field(C.trace(inj, t["args"][0]), "stored"):
                continue
            cl = lib.bodies.get(t["arg_tys"][1].get("closure", ""))
            if cl is None:
                continue
            # the closure captures the queue and keeps an entry iff it is NOT in the queue
            captured = False
            for bb2, si2, st2 in inj.stmts():
                if st2["k"] == "assign" and st2["rv"]["k"] == "aggregate" and st2["rv"]["agg"].get("def") == cl.name:
                    for o in st2["rv"]["ops"]:
                        if {(l.kind, l.bb) for l in C.trace(inj, o)} & queue_ids:
                            captured = True
            keeps_not_contained = any(l.kind == "call" and C.callee_name(l.data).endswith("::contains") and l.neg
                                      for l in C.trace(cl, {"l": 0, "p": []}))
            if captured and keeps_not_contained:
                removal_ok = True
                rem.append((bb, t))
        # remove-then-inject: `if let Some(content) = stored.remove(key) { push(normalised content) }` — what is injected is the value just
        # taken out of the store, so it cannot be substituted again
        rm_some = enum_edges(inj, lib, "std::option::Option", lambda vs: vs == {"Some"}, src_pred=lambda c: any(
            l.kind == "call" and C.callee_name(l.data) == "std::collections::HashMap::<K, V, S, A>::remove" and
            has_field(C.trace(inj, l.data["args"][0], through_fields=True), "stored") for l in c.src))
        if pushes_val and rm_some and all(C.guarded(inj, bb, rm_some) for bb, t in pushes_val) and all(
                has_call(C.trace(inj, x.data["args"][0]), "std::collections::HashMap::<K, V, S, A>::remove")
                for bb, t in pushes_val for x in C.trace(inj, emit_arg[id(t)], through_fields=True) if leaf_is_call(x, ROLE["replace_line_ending"])):
            ctx.ok("inject_tags substitutes exactly the value it has just removed from the store", site=ctx.site(inj, pushes_val[0][0]))
        elif removal_ok and pushes_val and key_push:
            # the key is queued for removal on every path that substituted its value (before the next loop iteration / exit)
            ok = True
            for bb, t in pushes_val:
                nxt = [b2 for b2, t2 in inj.calls() if C.callee_name(t2).endswith("as std::iter::Iterator>::next")]
                reach = inj.reachable(bb, cut=out_edges(inj, [b2 for b2, t2 in key_push]))
                if any(n in reach for n in nxt) or any(inj.term(r)["k"] == "return" for r in reach):
                    ok = False
            # and the removal happens on every path to the return
            rets = [r for r in C.live(inj) if inj.term(r)["k"] == "return"]
            if rem and not all(C.guarded(inj, r, out_edges(inj, [b2 for b2, t2 in rem])) or inj.in_cycle(rem[0][0]) for r in rets):
                ok = False
            if ok:
                ctx.ok("inject_tags queues every substituted tag for removal and removes the queued tags", site=ctx.site(inj, rem[0][0]))
            else:
                ctx.violation(["used-not-removed"], "a substituted tag is not always removed from the store (it could be substituted again)", site=ctx.site(inj, pushes_val[0][0]))
        elif not pushes_val and any(has_call(deep_leaves(inj, t["args"][2], through_fields=True), ROLE["replace_line_ending"])
                                     for bb, t in calls_to(inj, ("std::str::<impl str>::replacen", "std::str::<impl str>::replace")) if len(t["args"]) > 2):
            ctx.violation(["rescan"], "inject_tags splices tag content in by searching the partially substituted line again (replace / replacen): a tag "
                          "name that occurs inside content injected earlier is replaced, the real occurrence stays", site=ctx.site(inj, 0))
        elif not pushes_val:
            ctx.unverified("inject_tags emits tag content in no reviewed way (push of / in-place splice of the normalised value): store discipline "
                           "not decided for this algorithm", site=ctx.site(inj, 0))
        else:
            ctx.violation(["remove-missing"], "inject_tags no longer removes used tags from the store", site=ctx.site(inj, 0))
        # first occurrence only: positions come from str::find (not rfind / match_indices)
        cl_finds = []
        for b2 in [inj] + lib.closures_of(inj):
            cl_finds += [C.callee_name(t) for bb, t in b2.calls()
                         if re.search(r"::(find|rfind|match_indices|rmatch_indices|matches|split|split_once|rsplit_once|rsplit)$", C.callee_name(t))]
        if cl_finds in (["std::str::<impl str>::find"], ["std::str::<impl str>::split_once"]):
            ctx.ok("tag positions come from a single forward str::find per tag", site=ctx.site(inj, 0))
        else:
            ctx.violation(["tag-search", ",".join(cl_finds)], "tag occurrences are located with %s (first occurrence via find documented)" % cl_finds, site=ctx.site(inj, 0))


@rule("C15", "R15.5", floor=4)
def r15_5(ctx):
    """add_line: the three documented continuation forms, each behind the leading-whitespace match; arguments are right-trimmed"""
    lib = ctx.lib
    al = body(ctx, "add_line")
    if not al:
        return
    SW = "std::str::<impl str>::starts_with"
    ws_true = bool_call_edges(al, lib, SW, True, arg_pred=lambda t: has_field(C.trace(al, t["args"][1], through_fields=True), "whitespaces"))
    # `line.strip_prefix(whitespaces)` == Some(rest) is the same test
    ws_true |= enum_edges(al, lib, "std::option::Option", lambda vs: vs == {"Some"}, src_pred=lambda c: any(
        l.kind == "call" and C.callee_name(l.data) == "std::str::<impl str>::strip_prefix" and
        has_field(C.trace(al, l.data["args"][1], through_fields=True), "whitespaces") for l in c.src))
    pushes = calls_to(al, "std::vec::Vec::<T, A>::push")
    if not ws_true:
        ctx.violation(["whitespace-match"], "add_line no longer requires the continuation line to start with the directive's leading whitespace", site=ctx.site(al, 0))
        return
    for bb, t in pushes:
        if C.guarded(al, bb, ws_true):
            ctx.ok("continuation accepted only behind starts_with(whitespaces)", site=ctx.site(al, bb))
        else:
            ctx.violation(["push-without-whitespace"], "a continuation line is accepted without matching the leading whitespace", site=ctx.site(al, bb))
    forms = set()
    all_calls = [(al, bb, t) for bb, t in al.calls()]
    for cl in lib.closures_of(al):
        all_calls += [(cl, bb, t) for bb, t in cl.calls()]
    pv = prov(ctx)
    for (fb, bb, t) in all_calls:
        nm = C.callee_name(t)
        if fb is not al:
            # inside a closure: resolve captured values through the upvars
            if nm == "std::str::<impl str>::strip_prefix":
                leaves = pv.leaves(fb, t["args"][1], expand_fields=False)
                if any(l.kind == "call" and l.callee() == "std::str::<impl str>::repeat" for l in leaves):
                    forms.add("spaces-of-prefix-length")
                elif any(l.kind == "field" and has_field([C.Leaf("field", None, l.data)], "prefix") for l in leaves):
                    forms.add("same-prefix")
            continue
        if nm in (SW, "std::str::<impl str>::strip_prefix"):
            lv = C.trace(al, t["args"][1], through_fields=True)
            if has_field(lv, "prefix") and not has_call(lv, "std::str::<impl str>::repeat"):
                forms.add("same-prefix")
            for l in lv:
                if l.kind == "call" and C.callee_name(l.data) == "std::str::<impl str>::repeat":
                    unit = {C.op_const(x.data) for x in C.trace(al, l.data["args"][0]) if x.kind == "const"}
                    n = C.trace(al, l.data["args"][1])
                    if unit == {'" "'} and any(x.kind == "call" and C.callee_name(x.data).endswith("::len") and
                                               has_field(C.trace(al, x.data["args"][0], through_fields=True), "prefix") for x in n):
                        forms.add("spaces-of-prefix-length")
        if nm.endswith("::eq") and len(t["args"]) == 2:
            for a in t["args"]:
                lv = C.trace(al, a, through_fields=True)
                for l in lv:
                    if l.kind == "call" and C.callee_name(l.data) in ("std::str::<impl str>::trim_end_matches", "std::str::<impl str>::trim_end") and \
                            has_field(C.trace(al, l.data["args"][0], through_fields=True), "prefix"):
                        # trailing WHITESPACE is what is optional: trim_end(), or trim_end_matches(char::is_whitespace) — not one literal
                        # character (a prefix ending in a tab would no longer continue with its bare form)
                        pat = C.trace(al, l.data["args"][1]) if len(l.data["args"]) > 1 else []
                        if any(x.kind == "const" and re.match(r"^('.*'|\".*\")$", C.op_const(x.data) or "") for x in pat):
                            ctx.violation([al.name, "trim-literal"], "the bare-prefix continuation form strips a literal %s from the prefix instead of "
                                          "trailing whitespace" % sorted({C.op_const(x.data) for x in pat if x.kind == "const"}), site=ctx.site(al, bb))
                        else:
                            forms.add("prefix-without-trailing-whitespace")
                        # .. and it is compared with the REST OF THE LINE as it is: a line that is the trimmed prefix plus other trailing
                        # whitespace (`//<TAB>` after a `// ` prefix) is none of the three forms and must end the directive
                        other = [x for x in t["args"] if x is not a]
                        for o in other:
                            olv = C.trace(al, o, through_fields=True)
                            if any(x.kind == "call" and re.search(r"::trim(_end|_start)?(_matches)?$", C.callee_name(x.data) or "") and
                                   not has_field(C.trace(al, x.data["args"][0], through_fields=True), "prefix") for x in olv):
                                ctx.violation([al.name, "bare-prefix-line-trimmed"], "the bare-prefix continuation form compares the trimmed prefix "
                                              "with a TRIMMED rest of the line: a bare prefix followed by other whitespace is swallowed as an "
                                              "empty argument instead of ending the directive", site=ctx.site(al, bb))
        if nm == "std::slice::<impl [T]>::get":
            # byte-level spelling of "starts with len(prefix) spaces": bytes.get(..len(prefix)) whose items are compared with b' '
            from rules_panic import range_parts, len_of
            kind, parts = range_parts(al, t["args"][1])
            lo = len_of(al, parts.get("end")) if kind == "RangeTo" else None
            if lo and any(x[0] == "field" and any(n == "prefix" for (_o, _v, n) in x[1]) for x in lo):
                for bb2, si2, st2 in al.stmts():
                    rv2 = st2["rv"] if st2["k"] == "assign" else None
                    if rv2 and rv2["k"] == "binop" and rv2["op"] in ("Eq", "Ne"):
                        for x, y in ((rv2["a"], rv2["b"]), (rv2["b"], rv2["a"])):
                            if C.op_const(y) == "32_u8" and any(l.kind == "call" and l.bb == bb for l in C.trace(
                                    al, x, transparent=lambda tt: C.callee_name(tt) != nm and (
                                        C.is_transparent(tt) or T.item_preserving(C.callee_name(tt))))):
                                forms.add("spaces-of-prefix-length")
    want = {"same-prefix", "spaces-of-prefix-length", "prefix-without-trailing-whitespace"}
    if forms == want:
        ctx.ok("the three continuation forms are tested: %s" % sorted(forms), site=ctx.site(al, 0))
    else:
        ctx.violation(["forms", ",".join(sorted(want - forms))], "continuation form(s) %s no longer recognised by add_line" % sorted(want - forms), site=ctx.site(al, 0))
    # the appended argument is the line with exactly the prefix-long head removed, right-trimmed (or "" for the bare-prefix form):
    # push <- [to_string] <- trim_end_matches(is_whitespace) <- line[len(prefix)..] | strip_prefix(line, prefix|spaces) ; nothing else
    TRIMS = ("std::str::<impl str>::trim_end_matches", "std::str::<impl str>::trim_end")
    for bb, t in pushes:
        verdict = []
        # (body, leaf, was a right-trim passed on the way from the push to this leaf?)
        work = [(al, l, False) for l in C.trace(al, t["args"][1])]
        seen_w = 0
        while work and seen_w < 60:
            seen_w += 1
            fb, l, trimmed = work.pop()
            if l.kind == "const" and C.op_const(l.data) == '""':
                verdict.append("ok")
                continue
            nm = l.callee() if l.kind == "call" else None
            if nm == "std::string::String::new":
                verdict.append("ok")          # the empty argument of the bare-prefix form
                continue
            if nm in TRIMS:
                work += [(fb, m, True) for m in C.trace(fb, l.data["args"][0])]
                continue
            if nm in ("std::option::Option::<T>::or_else", "std::option::Option::<T>::or"):
                work += [(fb, m, trimmed) for m in C.trace(fb, l.data["args"][0])]
                clb = lib.bodies.get(l.data["arg_tys"][1].get("closure", "")) if len(l.data["arg_tys"]) > 1 else None
                if clb is not None:
                    work += [(clb, m, trimmed) for m in C.trace(clb, {"l": 0, "p": []})]
                else:
                    work += [(fb, m, trimmed) for m in C.trace(fb, l.data["args"][1])]
                continue
            if nm == "std::str::traits::<impl std::ops::Index<I> for str>::index":
                from rules_panic import range_parts, len_of
                kind, parts = range_parts(fb, l.data["args"][1])
                lo = len_of(fb, parts.get("start")) if kind == "RangeFrom" else None
                pfx = [x for x in (lo or []) if x[0] == "field" and any(n == "prefix" for (_o, _v, n) in x[1])]
                verdict.append(("ok" if trimmed else "not right-trimmed (one of the continuation forms hands the rest of the line on as it is)")
                               if pfx else "slice is not line[prefix.len()..]")
            elif nm == "std::str::<impl str>::strip_prefix":
                # removes the pattern exactly once
                verdict.append("ok" if trimmed else "not right-trimmed (one of the continuation forms hands the rest of the line on as it is)")
            else:
                verdict.append("argument text passes through %s (content would be altered)" % (nm or l.kind))
        bad = [v for v in verdict if v != "ok"]
        if verdict and not bad:
            ctx.ok("appended argument = line minus the prefix-long head, right-trimmed (or empty)", site=ctx.site(al, bb))
        else:
            ctx.violation(["argument-shape", ";".join(sorted(set(bad)))[:100]], "a continuation argument is not `line[prefix.len()..]` right-trimmed: %s" % (
                sorted(set(bad)) or "no origin"), site=ctx.site(al, bb))


def _ext_loop(b):
    """the function peels / inspects extensions inside a loop (a `while` collecting them into a Vec, an iterator over them): a different
    algorithm from the reviewed straight-line one — the shape rules about the name arithmetic then give no verdict"""
    return any(C.callee_name(t) in ("std::path::Path::extension", "std::path::PathBuf::set_extension", "std::path::Path::with_extension")
               and b.in_cycle(bb) for bb, t in b.calls())


def _is_ext_const(b, op):
    return any(l.kind == "const" and (l.data.get("named", "").endswith("TXTPP_EXT") or C.op_const(l.data) == '"txtpp"') for l in C.trace(b, op))


@rule("C11", "R11.6", floor=2)
def r11_6(ctx):
    """the extension constant and the functions that test / strip it"""
    lib = ctx.lib
    c = const_by_name(lib, "TXTPP_EXT")
    if c and c["value"] == '"txtpp"':
        ctx.ok("TXTPP_EXT == \"txtpp\"")
    else:
        ctx.violation(["ext-const"], "the source extension constant is %s, documented \"txtpp\"" % (c["value"] if c else None))
    it = body(ctx, "is_txtpp_file")
    if it:
        cmps = 0
        for bb, t in it.calls():
            if C.callee_name(t).endswith("::eq"):
                for a in t["args"]:
                    if any(l.kind == "const" and (l.data.get("named", "").endswith("TXTPP_EXT") or C.op_const(l.data) == '"txtpp"') for l in C.trace(it, a)):
                        cmps += 1
        if cmps >= 2 and calls_to(it, "std::path::Path::extension"):
            ctx.ok("is_txtpp_file compares the last and the second-to-last extension with TXTPP_EXT", site=ctx.site(it, 0))
        elif cmps >= 1 and _ext_loop(it):
            ctx.unverified("is_txtpp_file inspects the extensions in a loop", site=ctx.site(it, 0),
                           detail="one comparison with TXTPP_EXT inside a loop over peeled extensions: how many extensions are looked at is the "
                                  "loop bound, a value — not decided structurally")
        else:
            ctx.violation(["is_txtpp_file"], "is_txtpp_file no longer compares both the last and the second-to-last extension with TXTPP_EXT (%d comparisons)" % cmps,
                          site=ctx.site(it, 0))
    rt = body(ctx, "remove_txtpp")
    if rt:
        g = bool_call_edges(rt, lib, ROLE["is_txtpp_file"], True)
        # .. or the arm itself tests an extension against the constant (`[outer, inner] if inner == TXTPP_EXT`)
        g |= C.guard_edges(rt, lib, lambda c, v, leaf: c.kind == "bool" and leaf is not None and leaf.kind == "call" and v is True and
                           (C.callee_name(leaf.data) or "").endswith("::eq") and any(_is_ext_const(rt, a) for a in leaf.data["args"]))
        oks = ok_sites(rt)
        if g and oks and all(C.guarded(rt, o, g) for o in oks):
            ctx.ok("remove_txtpp returns Ok only for a path that is_txtpp_file()", site=ctx.site(rt, oks[0]))
        else:
            ctx.violation(["remove_txtpp-guard"], "remove_txtpp can return an output name for a path that is not a .txtpp source", site=ctx.site(rt, 0))


@rule("C01", "R01.5", floor=1)
def r01_5(ctx):
    """no source line is lost around a directive: the line that ended it is re-queued and processed next (= C16 R16.4)"""
    import rules_text
    rules_text.r16_4(ctx)


@rule("C01", "R01.6", floor=4)
def r01_6(ctx):
    """pending-newline skeleton of the line processor: a separator is written exactly when the pending flag is set; the flag is only
    ever `false` initially or `!has_tail` right before a content write; has_tail is true exactly when a terminating line was re-queued"""
    lib = ctx.lib
    ri = body(ctx, "pp_run_internal")
    if not ri:
        return
    # the flag: the bool local whose true edge guards the separator writes
    seps, contents = [], []
    for bb, t in calls_to(ri, ROLE["write_output"]):
        (seps if has_field(C.trace(ri, t["args"][1], through_fields=True), "line_ending") else contents).append((bb, t))
    if len(seps) < 2 or len(contents) != 1:
        ctx.violation(["write-shape"], "the line processor no longer has exactly one content write and two separator writes (%d / %d)" % (
            len(contents), len(seps)), site=ctx.site(ri, 0))
        return
    flag = None
    for l, decl in enumerate(ri.locals):
        if decl["ty"] == "bool" and decl.get("name") and not ri.is_param(l):
            fe = set()
            for sbb in C.switches(ri):
                c = C.switch_cond(ri, sbb)
                if c.kind == "bool" and _is_local(ri, c, l):
                    te = C.bool_edges(ri, sbb).get(True)
                    if te is not None:
                        fe.add(te)
            if fe and all(C.guarded(ri, bb, fe) for bb, t in seps):
                # (a per-iteration `let executing = pp_mode.is_execute()` whose true edge happens to dominate the writes too is not the
                # pending flag: the flag is a mutable bool that is only ever assigned)
                assigned_only = all(r[0] == "assign" for r in ri.defs().get(l, []))
                if flag is None or (assigned_only and not flag[2]):
                    flag = (l, fe, assigned_only)
    if flag is None:
        ctx.violation(["no-pending-flag"], "the separator writes are not all guarded by one pending-newline flag", site=ctx.site(ri, seps[0][0]))
        return
    fl, fe = flag[0], flag[1]
    ctx.ok("every separator write is guarded by the pending flag `%s`" % ri.local_name(fl), site=ctx.site(ri, seps[0][0]))
    # assignments of the flag
    cbb = contents[0][0]
    bad = []
    n_not = 0
    is_some_form = False
    for rec in ri.defs().get(fl, []):
        if rec[0] != "assign":
            bad.append("non-assignment def")
            continue
        rv = rec[3]["rv"]
        if rv["k"] == "use" and C.op_const(rv["op"]) == "false":
            continue
        if rv["k"] == "unop" and rv["op"] == "Not":
            n_not += 1
            src = C.trace(ri, rv["a"])

            def tail_probe(l):
                # `tail.is_some()` on the terminating-line payload, or on the saved tail line itself
                if l.kind != "call" or C.callee_name(l.data) != "std::option::Option::<T>::is_some":
                    return False
                lv = C.trace(ri, l.data["args"][0], through_fields=True)
                return has_field(lv, "execute_tail_line") or any(
                    x.kind == "field" and any(o == ADT["IterDirectiveResult"] and v == "Execute" for (o, v, n) in C.pl_fields(x.data)) for x in lv)
            tail_ok = bool(src) and all((l.kind == "const" and C.op_const(l.data) in ("true", "false")) or tail_probe(l) for l in src)
            if any(tail_probe(l) for l in src):
                is_some_form = True
            # the assignment happens on the way to the content write (same is_execute / Some(to_write) region)
            if not tail_ok or cbb not in ri.reachable(rec[1]) or ri.in_cycle(rec[1]) is False:
                bad.append("pending := !x where x is not the has_tail flag, or not before the content write")
            continue
        bad.append(C.rv_str(rv))
    if bad or n_not != 1:
        ctx.violation(["flag-assignments", ";".join(bad)[:120]], "the pending-newline flag is assigned other than `false` / `!has_tail` (%s; %d negations)" % (bad, n_not),
                      site=ctx.site(ri, cbb))
    else:
        ctx.ok("pending flag := false | !has_tail (once, before the content write)", site=ctx.site(ri, cbb))
    # the in-loop separator precedes the content write; the content write is guarded by Some(to_write)
    inloop = [bb for bb, t in seps if ri.in_cycle(bb)]
    if len(inloop) == 1 and cbb in ri.reachable(inloop[0]) and inloop[0] not in ri.reachable(cbb, cut=out_edges(ri, [b2 for b2, t2 in calls_to(ri, ROLE["get_next_line"])])):
        ctx.ok("the in-loop separator is written before the content of the same iteration", site=ctx.site(ri, inloop[0]))
    else:
        ctx.violation(["separator-order"], "the in-loop separator is no longer written before the content of the same iteration", site=ctx.site(ri, cbb))
    # has_tail == true exactly on the path that re-queues the terminating line
    stores = [bb for bb, si, st in ri.stmts() if st["k"] == "assign" and st["lhs"]["p"] and st["lhs"]["p"][-1].get("name") == "execute_tail_line"]
    # where `has_tail` becomes true: a literal assigned to it, or to a local that only moves into it (the return value of a spliced
    # `fn stash_tail_line(..) -> bool`)
    trues = []
    seen_l = set()
    work = [l for l in range(len(ri.locals)) if ri.locals[l]["ty"] == "bool" and ri.local_name(l) == "has_tail"]
    while work:
        l = work.pop()
        if l in seen_l:
            continue
        seen_l.add(l)
        for rec in ri.defs().get(l, []):
            if rec[0] == "assign" and rec[3]["rv"]["k"] == "use":
                op_ = rec[3]["rv"]["op"]
                if C.op_const(op_) == "true":
                    trues.append((rec[1], l))
                elif op_.get("k") in ("copy", "move") and not op_["pl"]["p"]:
                    work.append(op_["pl"]["l"])
    if is_some_form and stores:
        # has_tail == tail.is_some(); that the tail is re-queued whenever it is Some is R16.4 (= R01.5)
        ctx.ok("has_tail is `tail.is_some()`; re-queuing on the Some path is R01.5", site=ctx.site(ri, stores[0]))
    elif trues and stores and all(any(tb in ri.reachable(sb) or tb == sb for sb in stores) for tb, _ in trues) and \
            all(C.guarded(ri, tb, out_edges(ri, stores)) or tb in stores for tb, _ in trues):
        ctx.ok("has_tail is set exactly where the terminating line is re-queued", site=ctx.site(ri, trues[0][0]))
    else:
        ctx.violation(["has_tail"], "has_tail is set on a path that does not re-queue the terminating line (a separator would be dropped or doubled)",
                      site=ctx.site(ri, trues[0][0] if trues else 0))


def _is_local(b, cond, l):
    """does the bool switch test exactly local l (through copies)?"""
    t = b.term(cond.bb)
    op = t["discr"]
    seen = set()
    while op and op["k"] in ("copy", "move") and not op["pl"]["p"]:
        x = op["pl"]["l"]
        if x == l:
            return True
        if x in seen:
            return False
        seen.add(x)
        ds = [r for r in b.defs().get(x, []) if r[0] == "assign"]
        if len(ds) != 1 or ds[0][3]["rv"]["k"] != "use":
            return False
        op = ds[0][3]["rv"]["op"]
    return False


@rule("C01", "R01.7", floor=1)
def r01_7(ctx):
    """directive output reaches the file only through the formatter; ordinary lines only through tag injection (= C16 R16.2)"""
    import rules_text
    rules_text.r16_2(ctx)


# ------------------------------------------------------------------ R11.7: dotted-component accounting in remove_txtpp
# Abstract interpretation over the (acyclic) body: for the working copy of the path, the set of possible differences in the
# number of dot-separated name components relative to the input.  std semantics: set_extension("") removes the last component
# (the guards in the function guarantee there is one); set_extension(x), x non-empty, REPLACES the last component when the name
# still has one and APPENDS otherwise -> {d, d+1}; pushing "." and an extension onto the OsString appends -> d+1.

SET_EXT = "std::path::PathBuf::set_extension"


def _component_deltas(prog, b):
    flags = sorted(C.tracked_flags(b))
    fidx = {l: i for i, l in enumerate(flags)}
    results = []      # (bb of the Ok return, frozenset deltas | None for unknown)
    p_self = 1

    def lit(op):
        """the literal an operand denotes: directly, or through the parameter local of a spliced helper (`replace_ext(p, "")`)"""
        c = C.op_const(op)
        if c is not None:
            return c
        lv = C.trace(b, op)
        cs = {C.op_const(l.data) for l in lv if l.kind == "const"}
        return cs.pop() if len(cs) == 1 and all(l.kind == "const" for l in lv) else None

    def step_block(bb, st, env):
        """apply the statements + terminator effects of block bb to the abstract state `st` (dict local -> (deltas, dot_pending))"""
        st = dict(st)
        env = list(env)
        blk = b.blocks[bb]
        for s_ in blk["stmts"]:
            if s_["k"] != "assign":
                continue
            lhs, rv = s_["lhs"], s_["rv"]
            if not lhs["p"] and lhs["l"] in fidx:
                op = rv["op"] if rv["k"] == "use" else None
                if op is None:
                    env[fidx[lhs["l"]]] = None
                elif op["k"] == "const":
                    env[fidx[lhs["l"]]] = True if C.op_const(op) == "true" else False if C.op_const(op) == "false" else None
                else:
                    env[fidx[lhs["l"]]] = env[fidx[op["pl"]["l"]]] if op["k"] in ("copy", "move") and not op["pl"]["p"] and op["pl"]["l"] in fidx else None
            if rv["k"] == "use" and not lhs["p"]:
                src = C.op_place(rv["op"])
                if src is not None and not src["p"] and src["l"] in st:
                    st[lhs["l"]] = st[src["l"]]
            if rv["k"] == "aggregate" and lhs["l"] == 0 and rv["agg"].get("variant") == "Ok":
                src = C.op_place(rv["ops"][0])
                if src is not None and src["l"] in st:
                    results.append((bb, st[src["l"]][0]))
                else:
                    results.append((bb, None))
        t = blk["term"]
        if t["k"] == "call":
            nm = C.callee_name(t)
            dest = t["dest"]["l"]
            if not t["dest"]["p"] and dest in fidx:
                env[fidx[dest]] = None

            def target(i):
                """the tracked local behind argument i (through `&mut p` temporaries)"""
                for l in C.trace(b, t["args"][i]):
                    pass
                p = C.op_place(t["args"][i])
                seen = set()
                while p is not None and p["l"] not in seen:
                    seen.add(p["l"])
                    if p["l"] in st and all(e["k"] == "deref" for e in p["p"]):
                        return p["l"]
                    ds = [r for r in b.defs().get(p["l"], []) if r[0] in ("assign", "call")]
                    if len(ds) != 1:
                        return None
                    if ds[0][0] == "call":
                        t2 = ds[0][2]
                        if C.callee_name(t2) in ("std::path::Path::as_os_str", "std::path::PathBuf::as_path", "<std::path::PathBuf as std::ops::Deref>::deref",
                                                 "std::convert::AsRef::as_ref", "std::ffi::OsString::as_os_str",
                                                 "<std::ffi::OsString as std::ops::Deref>::deref") and t2["args"]:
                            p = C.op_place(t2["args"][0])
                            continue
                        return None
                    rv2 = ds[0][3]["rv"]
                    p = rv2.get("pl") if rv2["k"] in ("ref", "copyforderef") else (C.op_place(rv2["op"]) if rv2["k"] == "use" else None)
                return None
            if nm in ("<std::path::PathBuf as std::clone::Clone>::clone", "std::path::Path::to_path_buf",
                      "<std::path::Path as std::borrow::ToOwned>::to_owned", "std::borrow::ToOwned::to_owned"):
                # a copy: of a working copy (same shape) or of the source path itself (delta 0)
                tl = target(0)
                if tl is not None:
                    st[dest] = st[tl]
                elif any(l.kind == "param" and l.data == p_self for l in C.trace(b, t["args"][0])):
                    st[dest] = (frozenset([0]), False)
            elif nm == SET_EXT:
                tl = target(0)
                if tl is not None:
                    d, pend = st[tl]
                    if d is not None:
                        if lit(t["args"][1]) == '""':
                            d = frozenset(x - 1 for x in d)
                        else:
                            d = frozenset(x for x in d) | frozenset(x + 1 for x in d)
                    st[tl] = (d, False)
            elif nm in ("std::path::PathBuf::into_os_string", "std::path::PathBuf::as_mut_os_string", "std::path::PathBuf::into_boxed_path"):
                tl = target(0)
                if tl is not None:
                    st[dest] = st[tl]
            elif nm in ("std::ffi::OsString::with_capacity", "std::ffi::OsString::new"):
                st[dest] = ("EMPTY", False)
            elif nm == "std::ffi::OsString::push" and target(0) is not None and st[target(0)][0] == "EMPTY":
                src = target(1)
                st[target(0)] = st[src] if src is not None else (None, False)
            elif nm == "std::ffi::OsString::push":
                tl = target(0)
                if tl is not None:
                    d, pend = st[tl]
                    lv = C.trace(b, t["args"][1])
                    is_dot = any(l.kind == "const" and C.op_const(l.data) == '"."' for l in lv)
                    if is_dot:
                        st[tl] = (d, True)
                    elif pend and d is not None:
                        st[tl] = (frozenset(x + 1 for x in d), False)
                    else:
                        st[tl] = (None, False)
            elif nm == "std::path::Path::with_extension":
                # set_extension on a copy: the receiver may be a working copy or the source path itself
                tl = target(0)
                cur = st[tl] if tl is not None else (
                    (frozenset([0]), False) if any(l.kind == "param" and l.data == p_self for l in C.trace(b, t["args"][0])) else None)
                if cur is not None:
                    d = cur[0]
                    if d is not None and d != "EMPTY":
                        if lit(t["args"][1]) == '""':
                            d = frozenset(x - 1 for x in d)
                        else:
                            d = frozenset(x for x in d) | frozenset(x + 1 for x in d)
                    st[dest] = (d, False)
            elif nm in ("std::path::PathBuf::add_extension",):
                tl = target(0)
                if tl is not None and st[tl][0] is not None:
                    st[tl] = (frozenset(x + 1 for x in st[tl][0]), False)
            elif nm in ("std::path::Path::with_added_extension",):
                tl = target(0)
                if tl is not None and st[tl][0] is not None:
                    st[dest] = (frozenset(x + 1 for x in st[tl][0]), False)
            elif nm in ("<std::path::PathBuf as std::convert::From<std::ffi::OsString>>::from", "<T as std::convert::Into<U>>::into",
                        "<std::path::PathBuf as std::convert::From<T>>::from") or nm.endswith("::from") and "PathBuf" in nm:
                tl = target(0)
                if tl is not None:
                    st[dest] = st[tl]
            else:
                # any other call taking the working path mutably makes its shape unknown
                for i, a in enumerate(t["args"]):
                    if i < len(t.get("arg_tys", [])) and t["arg_tys"][i]["ty"].startswith("&mut"):
                        tl = target(i)
                        if tl is not None:
                            st[tl] = (None, False)
        return st, tuple(env)

    seen = set()
    stack = [(0, {}, tuple([None] * len(flags)))]
    while stack:
        bb, st, env = stack.pop()
        key = (bb, tuple(sorted((k, v) for k, v in st.items())), env)
        if key in seen:
            continue
        seen.add(key)
        if len(seen) > 20000:
            return "BUDGET"
        st2, env2 = step_block(bb, st, env)
        t = b.blocks[bb]["term"]
        known = None
        if t["k"] == "switch":
            op = t["discr"]
            if op["k"] in ("copy", "move") and not op["pl"]["p"] and op["pl"]["l"] in fidx:
                known = env2[fidx[op["pl"]["l"]]]
        for i, (s, lab) in enumerate(b.raw_succs(bb)):
            if b.blocks[s]["cleanup"]:
                continue
            if known is not None and lab is not None:
                val = int(known)
                if (lab[0] == "val" and lab[1] != val) or (lab[0] == "otherwise" and val in lab[1]):
                    continue
            stack.append((s, st2, env2))
    return results


@rule("C11", "R11.7", floor=1)
def r11_7(ctx):
    """the output name has exactly one dotted component fewer than the source name (only `.txtpp` is removed), on every Ok path"""
    b = body(ctx, "remove_txtpp")
    if not b:
        return
    if _ext_loop(b):
        ctx.unverified("remove_txtpp peels the extensions in a loop", site=ctx.site(b, 0),
                       detail="the number of components removed depends on the loop bound (a value): not decided structurally")
        return
    res = _component_deltas(ctx.lib, b)
    if res == "BUDGET":
        ctx.unverified("component arithmetic of remove_txtpp: exploration budget exceeded", site=ctx.site(b, 0))
        return
    if not res:
        ctx.anchor_missing("Ok return of remove_txtpp carrying the working copy of the path")
        return
    res = [(bb, None if d == "EMPTY" else d) for bb, d in res]
    bad = [(bb, d) for bb, d in res if d != frozenset([-1])]
    if bad:
        bb, d = bad[0]
        ctx.violation(["component-count", "unknown" if d is None else ",".join(str(x) for x in sorted(d))],
                      "remove_txtpp can return a name whose number of dot-separated components differs from the source's by %s (exactly -1 expected: "
                      "only `.txtpp` is removed). PathBuf::set_extension REPLACES the last component when the remaining stem still contains a dot, so "
                      "`a.b.txtpp.c` becomes `a.c` (not `a.b.c`) and an unrelated file can be overwritten" % ("an unknown amount" if d is None else sorted(d)),
                      site=ctx.site(b, bb))
    else:
        ctx.ok("every Ok path of remove_txtpp removes exactly one dotted component (%d path states)" % len(res), site=ctx.site(b, res[0][0]))


@rule("C01", "R01.8", floor=4)
def r01_8(ctx):
    """the output formatter joins the lines it is given with exactly one separator between consecutive lines (= C12 R12.3: pieces pushed,
    separator placement independent of the accumulated text)"""
    import rules_text
    rules_text.r12_3(ctx)


@rule("C14", "R14.7", floor=4)
def r14_7(ctx):
    """stored tag content is substituted with its line endings normalised: replace_line_ending / inject_tags assemble their result only
    from lines() items, slices of the line and the line_ending value (= C12 R12.3)"""
    import rules_text
    rules_text.r12_3(ctx)


@rule("C15", "R15.6", floor=3)
def r15_6(ctx):
    """the grammar functions see the source line itself: detect_from / add_line are applied to the unmodified line read from the file
    (a trimmed or otherwise edited line changes which whitespace-only lines continue a directive) (= C16 R16.1)"""
    import rules_text
    rules_text.r16_1(ctx)


@rule("C11", "R11.8", floor=1)
def r11_8(ctx):
    """no requested input is silently dropped: in resolve_inputs every item of the input list is pushed (as a file or a directory to
    scan) or makes the function return an error, on every path back to the loop head"""
    lib = ctx.lib
    ri = body(ctx, "resolve_inputs")
    if not ri:
        return
    heads = [(bb, t) for bb, t in ri.calls() if C.callee_name(t).endswith("as std::iter::Iterator>::next")]
    some_e = enum_edges(ri, lib, "std::option::Option", lambda vs: vs == {"Some"},
                        src_pred=lambda c: any(l.kind == "call" and C.callee_name(l.data).endswith("as std::iter::Iterator>::next") and
                                               any(x.kind == "param" and ri.local_name(x.data) == "inputs"
                                                   for x in C.trace(ri, l.data["args"][0], transparent=lambda t: C.is_transparent(t) or T.item_preserving(C.callee_name(t))))
                                               for l in c.src))
    item_pres = lambda t: C.is_transparent(t) or T.item_preserving(C.callee_name(t))
    # the loop over the inputs (not a loop inside a spliced helper, e.g. over the components of one input)
    heads = [(bb, t) for bb, t in heads if any(x.kind == "param" and ri.local_name(x.data) == "inputs"
                                                for x in C.trace(ri, t["args"][0], transparent=item_pres))]
    if not heads or not some_e:
        ctx.anchor_missing("loop over the inputs in resolve_inputs")
        return
    pushes = [bb for bb, t in calls_to(ri, "std::vec::Vec::<T, A>::push")
              if has_field(C.trace(ri, t["args"][0], through_fields=True), "files") or has_field(C.trace(ri, t["args"][0], through_fields=True), "subdirs")]
    errs = err_sites(ri)
    reached = C.after_edges(ri, some_e, cut=out_edges(ri, pushes + list(errs)))
    esc = [bb for bb, t in heads if bb in reached] + [bb for bb in reached if ri.term(bb)["k"] == "return"]
    if esc:
        ctx.violation(["input-dropped"], "resolve_inputs can go on to the next input (or return) without having scheduled the current one or "
                      "reported an error: a requested source / directory would be silently skipped", site=ctx.site(ri, esc[0]),
                      witness=C.witness(ri, esc[0], out_edges(ri, pushes + list(errs))))
    else:
        ctx.ok("every input is scheduled or is an error", site=ctx.site(ri, heads[0][0]))


@rule("C11", "R11.14", floor=1)
def r11_14(ctx):
    """a requested input names `base/<input>` with the input as typed: what resolve_inputs joins onto the base directory is the item of the
    input list itself (borrowed, converted, cloned — not rewritten). Lexical clean-up of the typed path before the join (`..` folded by
    hand) can change which file is meant: `../../a.txt` folded to `a.txt` processes a file nobody requested, or reports a valid one missing."""
    lib = ctx.lib
    ri = body(ctx, "resolve_inputs")
    if not ri:
        return
    pb = ri.param_index_by_name("base_abs_path")
    copies = lambda t: C.is_transparent(t) or T.item_preserving(C.callee_name(t)) or (C.callee_name(t) or "").endswith(
        ("::as_ref", "::deref", "::as_str", "::as_path", "::clone", "::to_owned", "::to_path_buf", "::into", "::borrow")) or \
        C.callee_name(t) in ("std::path::Path::new", "<std::path::PathBuf as std::convert::From<T>>::from", "<T as std::convert::From<T>>::from")
    joins = []
    for bb, t in ri.calls():
        nm = C.callee_name(t)
        if nm in ("std::path::Path::join", "std::path::PathBuf::push") and len(t["args"]) > 1:
            recv = C.trace(ri, t["args"][0], through_fields=True, transparent=copies)
            if pb is not None and any(l.kind == "param" and l.data == pb for l in recv):
                joins.append((bb, t))
    if not joins:
        ctx.unverified("no `base.join(input)` in resolve_inputs in the reviewed shape", site=ctx.site(ri, 0))
        return
    for bb, t in joins:
        lv = C.trace(ri, t["args"][1], transparent=copies)
        item = lambda l: (l.kind == "call" and C.callee_name(l.data).endswith("as std::iter::Iterator>::next")) or \
            (l.kind == "param" and ri.local_name(l.data) == "inputs")
        if lv and all(item(l) for l in lv):
            ctx.ok("the path joined onto the base is the input as typed", site=ctx.site(ri, bb))
        else:
            ctx.violation([ri.name, "input-rewritten"], "what resolve_inputs joins onto the base directory is not the requested input as typed (%s): a "
                          "different file than the one named can be processed" % sorted({repr(l) for l in lv if not item(l)})[:3], site=ctx.site(ri, bb))


@rule("C10", "R10.5", floor=1)
def r10_5(ctx):
    """try_resolve names exactly one location: the argument itself when absolute, otherwise the argument joined onto the current path
    (`self.p`) — no fallback directory (a second candidate such as the base directory would let clean delete, or temp overwrite, a
    same-named file that is neither an output nor a temp target)"""
    lib = ctx.lib
    tr = body(ctx, "try_resolve")
    if not tr:
        return
    p_ext = tr.param_index_by_name("ext")
    sb = resolved_path_sites(tr)
    if not sb:
        ctx.anchor_missing("share_base call in try_resolve")
    for bb, sb_op in sb:
        lv = C.trace(tr, sb_op)
        bad = []
        for l in lv:
            if l.kind == "param" and l.data == p_ext:
                continue
            if l.kind == "call" and C.callee_name(l.data) == "std::path::Path::join":
                a0 = C.trace(tr, l.data["args"][0], through_fields=True)
                a1 = C.trace(tr, l.data["args"][1])
                if has_field(a0, "p") and not has_field(a0, "b") and a1 and all(x.kind == "param" and x.data == p_ext for x in a1):
                    continue
            if l.kind == "field" and has_field([l], "p") and not has_field([l], "b"):
                # `let mut j = self.p.clone(); j.push(ext); j` is join spelled in place: every path from the copy of self.p to this
                # use passes a PathBuf::push(copy, ext), and nothing else mutates the copy
                copies = [cb for cb, ct in tr.calls() if C.callee_name(ct) in ("<std::path::PathBuf as std::clone::Clone>::clone",
                                                                                "std::path::Path::to_path_buf", "std::borrow::ToOwned::to_owned")
                          and has_field(C.trace(tr, ct["args"][0], through_fields=True), "p")]
                pushes = [pb for pb, pt in calls_to(tr, "std::path::PathBuf::push")
                          if (lambda a1: a1 and all(x.kind == "param" and x.data == p_ext for x in a1))(C.trace(tr, pt["args"][1]))]
                other_mut = [ob for ob, ot in tr.calls() if C.callee_name(ot).startswith("std::path::PathBuf::") and ob not in pushes and
                             ot.get("arg_tys") and ot["arg_tys"][0]["ty"].startswith("&mut")]
                if copies and pushes and not other_mut and bb not in C.after_edges(tr, out_edges(tr, copies), cut=out_edges(tr, pushes)):
                    continue
            bad.append(repr(l))
        if bad or not lv:
            ctx.violation([tr.name, "resolve-candidates"], "try_resolve can return a path other than `ext` / `self.p.join(ext)`: %s" % bad[:3], site=ctx.site(tr, bb))
        else:
            ctx.ok("resolved path is ext or self.p.join(ext)", site=ctx.site(tr, bb))


@rule("C01", "R01.9", floor=1)
def r01_9(ctx):
    """directive output keeps its final newline iff it had one: the flag handed to the output formatter is `raw.ends_with('\\n')` of
    the very text whose lines() are formatted (lines() accepts both \\n and \\r\\n, so testing for the FILE's line ending instead loses
    the final newline of LF output in a CRLF file and glues the next source line on)"""
    lib = ctx.lib
    fdo = body(ctx, "format_directive_output")
    if not fdo:
        return
    p_flag = fdo.param_index_by_name("has_trailing_newline")
    p_it = fdo.param_index_by_name("raw_output")
    EW = "std::str::<impl str>::ends_with"
    n = 0
    for (b, bb, t) in C.all_call_sites(lib, lambda ns, t: fdo.name in ns):
        flag = t["args"][p_flag - 1]
        if C.op_const(flag) in ("true", "false"):
            continue      # temp content: a literal
        n += 1
        site = ctx.site(b, bb)
        lv = C.trace(b, flag)
        ok = bool(lv)
        for l in lv:
            if not (l.kind == "call" and C.callee_name(l.data) == EW and C.op_const(l.data["args"][1]) == "'\\n'"):
                ok = False
                continue
            # same text as the one whose lines() are formatted
            txt = {(x.kind, x.bb, C.pl_str(x.data) if x.kind == "field" else None) for x in C.trace(b, l.data["args"][0])}
            its = C.trace(b, t["args"][p_it - 1], transparent=lambda tt: C.is_transparent(tt) or T.item_preserving(C.callee_name(tt)))
            src = set()
            for x in its:
                if x.kind == "call" and C.callee_name(x.data) == "std::str::<impl str>::lines":
                    src |= {(y.kind, y.bb, C.pl_str(y.data) if y.kind == "field" else None) for y in C.trace(b, x.data["args"][0])}
            if not (txt & src):
                ok = False
        if ok:
            ctx.ok("trailing-newline flag = ends_with('\\n') of the formatted text|%s" % b.name, site=site)
        else:
            ctx.violation([b.name, "trailing-newline-flag"], "the trailing-newline flag of directive output is not `ends_with('\\n')` of the text being "
                          "formatted: %s" % [repr(l) for l in lv][:3], site=site)
    if n == 0:
        ctx.anchor_missing("a format_directive_output call with a computed trailing-newline flag")


@rule("C10", "R10.6", floor=2)
def r10_6(ctx):
    """which names are sources is decided the way the output name is computed: is_txtpp_file compares Path::extension() of the name and
    of the name without its last extension with the constant (= C11 R11.6); a string-based test disagrees with remove_txtpp on dot-files
    (`.txtpp`), whose 'output' would then be the file itself"""
    r11_6(ctx)


@rule("C16", "R16.7", floor=1)
def r16_7(ctx):
    """while a directive is open, a line is only ever offered to add_line: detect_from is not consulted on the path where a current
    directive exists (text inside a write block that looks like a directive must stay text)"""
    lib = ctx.lib
    it = body(ctx, "iterate_directive")
    if not it:
        return
    is_cur = lambda c: has_field(C.trace(it, c.place, through_fields=True), "cur_directive") or has_field(c.src, "cur_directive")
    none_e = enum_edges(it, lib, "std::option::Option", lambda vs: vs == {"None"}, src_pred=is_cur)
    some_e = enum_edges(it, lib, "std::option::Option", lambda vs: vs == {"Some"}, src_pred=is_cur)
    dets = calls_to(it, ROLE["detect_from"])
    if not dets or not some_e:
        ctx.anchor_missing("detect_from call / match on cur_directive in iterate_directive")
        return
    reg = C.region(it, some_e)
    for bb, t in dets:
        if bb in reg:
            ctx.violation([it.name, "detect-while-open"], "detect_from is applied to a line while a directive is being continued: argument text "
                          "that looks like a directive would be treated as one", site=ctx.site(it, bb))
        else:
            ctx.ok("detect_from only when no directive is open", site=ctx.site(it, bb))


@rule("C15", "R15.8", floor=1)
def r15_8(ctx):
    """the marker is consumed exactly once: detect_from applies no repeated-strip / replace API (`trim_start_matches`, `trim_matches`,
    `replace` ..) with the `TXTPP#` marker as its pattern — `TXTPP#TXTPP#run` is ordinary text, the name must follow the FIRST marker"""
    lib = ctx.lib
    df = body(ctx, "detect_from")
    if not df:
        return
    REP = re.compile(r"^std::str::<impl str>::(trim_start_matches|trim_left_matches|trim_matches|trim_end_matches|trim_right_matches|replace|replacen|"
                     r"split|rsplit|split_terminator|matches|match_indices|rmatch_indices)$")
    bad = []
    n = 0
    for b in [df] + lib.closures_of(df):
        for bb, t in b.calls():
            if REP.match(C.callee_name(t) or "") and len(t["args"]) > 1:
                n += 1
                if any(l.kind == "const" and (l.data.get("named", "").endswith("TXTPP_HASH") or C.op_const(l.data) == '"TXTPP#"') for l in C.trace(b, t["args"][1])):
                    bad.append((b, bb, C.callee_name(t)))
    if bad:
        b, bb, nm = bad[0]
        ctx.violation([df.name, "marker-stripped-repeatedly", nm], "detect_from applies %s with the TXTPP# marker: several adjacent markers are consumed, "
                      "the directive name must follow the first one" % nm.rsplit("::", 1)[-1], site=ctx.site(b, bb))
    else:
        ctx.ok("the marker is not the pattern of any repeated-strip / replace call (%d such calls)" % n, site=ctx.site(df, 0))


@rule("C15", "R15.7", floor=2)
def r15_7(ctx):
    """a detected or continued directive is always kept open: in iterate_directive, from the `Some` edge of detect_from's result and from
    the `Ok` edge of add_line's result, a normal return is reached only past a store of `Some(..)` into `cur_directive` (or through the
    prefix error). Whether the directive stays open must not depend on the mode, the pass or the directive type — otherwise its
    continuation lines are re-read as fresh lines"""
    lib = ctx.lib
    it = body(ctx, "iterate_directive")
    if not it:
        return
    stores = set()
    for bb, si, st in it.stmts():
        if st["k"] == "assign" and st["lhs"]["p"] and st["lhs"]["p"][-1].get("name") == "cur_directive":
            lv = C.trace(it, st["rv"]["op"]) if st["rv"]["k"] == "use" else [1]
            if st["rv"]["k"] == "aggregate" and st["rv"]["agg"].get("variant") == "None":
                continue
            if st["rv"]["k"] == "use" and not lv:
                continue        # a None aggregate carries nothing
            stores.add(bb)
    for bb, t in it.calls():
        if t["dest"]["p"] and t["dest"]["p"][-1].get("name") == "cur_directive":
            stores.add(bb)
    det = enum_edges(it, lib, "std::option::Option", lambda vs: vs == {"Some"}, src_pred=lambda c: has_call(c.src, ROLE["detect_from"]))
    add = enum_edges(it, lib, "std::result::Result", lambda vs: vs == {"Ok"}, src_pred=lambda c: has_call(c.src, ROLE["add_line"]))
    if not stores or not det or not add:
        ctx.anchor_missing("store into cur_directive / test of detect_from's and add_line's result in iterate_directive")
        return
    oks = set(ok_sites(it)) | {bb for bb in it.normal_blocks() if it.term(bb)["k"] == "return"}
    for nm, edges in (("detect_from found a directive", det), ("add_line accepted the line", add)):
        reach = C.after_edges(it, edges, cut=out_edges(it, stores) | out_edges(it, err_sites(it)))
        bad = sorted(bb for bb in reach if bb in oks and bb not in stores)
        if bad:
            ctx.violation([it.name, "directive-not-kept", nm.split()[0]], "after %s, iterate_directive can return without keeping the directive "
                          "in cur_directive (its continuation lines would be read as fresh lines)" % nm, site=ctx.site(it, bad[0]))
        else:
            ctx.ok("after `%s` the directive is stored in cur_directive on every normal path" % nm, site=ctx.site(it, min(e[0] for e in edges)))


@rule("C01", "R01.10", floor=1)
def r01_10(ctx):
    """a temp directive always reaches the temp writer: execute_directive_temp returns Ok only past a write_temp_file call (whether the
    file is rewritten is decided there, by comparing contents — not earlier, by something like a timestamp)"""
    lib = ctx.lib
    et = body(ctx, "execute_directive_temp")
    if not et:
        return
    ws = [bb for bb, t in calls_to(et, ROLE["write_temp_file"])]
    if not ws:
        ctx.anchor_missing("write_temp_file call in execute_directive_temp")
        return
    cut = out_edges(et, ws)
    bad = [bb for bb in ok_sites(et) if not C.guarded(et, bb, cut)]
    if bad:
        ctx.violation([et.name, "temp-skipped"], "execute_directive_temp can return Ok without handing the target to write_temp_file",
                      site=ctx.site(et, bad[0]), witness=C.witness(et, bad[0], cut))
    else:
        ctx.ok("temp directives always reach write_temp_file", site=ctx.site(et, ws[0]))


PATH_NAME_SURGERY = re.compile(r"^std::path::(Path|PathBuf)::(file_stem|file_prefix|with_file_name|set_file_name|to_str|to_string_lossy|display|parent|join|push|pop"
                               r"|components|iter|strip_prefix|starts_with|ends_with)$|^std::ffi::(OsStr|OsString)::(to_str|to_string_lossy|into_string|as_encoded_bytes|to_ascii_.*)$")


@rule("C11", "R11.9", floor=3)
def r11_9(ctx):
    """source <-> output names are related only through the extension of the full file name: is_txtpp_file / get_txtpp_file / remove_txtpp
    use Path::extension, set_extension / with_extension and OsString concatenation, never stem / file-name surgery or string conversion
    (`with_file_name(file_stem()).with_extension(..)` drops the inner dots of `a.b.c`; a string test disagrees with extension() on
    dot-files)"""
    lib = ctx.lib
    for role_name in ("is_txtpp_file", "get_txtpp_file", "remove_txtpp"):
        b = body(ctx, role_name)
        if not b:
            continue
        def appends_to_own_name(t):
            """`p.with_file_name(name)` with `name` = `p.file_name()` plus pushed text, and that `file_name()` itself: the name is only
            appended to (which components are appended is R11.10's account)"""
            nm = C.callee_name(t)
            OS_COPY = lambda t2: C.is_transparent(t2) or C.is_try_branch(t2) or (C.callee_name(t2) or "") in (
                "std::ffi::OsStr::to_os_string", "<std::ffi::OsStr as std::borrow::ToOwned>::to_owned", "<std::ffi::OsString as std::clone::Clone>::clone",
                "std::ffi::OsString::as_os_str", "<std::ffi::OsString as std::ops::Deref>::deref", "std::convert::AsRef::as_ref")
            recv = lambda tt: frozenset((l.kind, l.data if l.kind == "param" else l.bb) for l in C.trace(b, tt["args"][0], through_fields=True))
            if nm == "std::path::Path::with_file_name" and len(t["args"]) == 2:
                lv = C.trace(b, t["args"][1], transparent=OS_COPY)
                return bool(lv) and all(l.kind == "call" and C.callee_name(l.data) == "std::path::Path::file_name" and recv(l.data) == recv(t) for l in lv)
            if nm == "std::path::Path::file_name":
                # only as the starting point of such a with_file_name
                return any(C.callee_name(t2) == "std::path::Path::with_file_name" and len(t2["args"]) == 2 and
                           any(l.kind == "call" and l.data is t for l in C.trace(b, t2["args"][1], transparent=OS_COPY)) and appends_to_own_name(t2)
                           for bb2, t2 in b.calls())
            return False
        bad = sorted({C.callee_name(t) for bb, t in b.calls() if PATH_NAME_SURGERY.match(C.callee_name(t) or "")
                      and not (t["span"].get("macro") or t["span"].get("exp")) and not appends_to_own_name(t)})
        # error messages may display the path
        bad = [x for x in bad if not x.endswith("::display")]
        if bad:
            ctx.violation([b.name, "name-surgery", ",".join(bad)[:120]], "%s manipulates the file name through %s (only the extension of the full name "
                          "may be inspected / replaced)" % (role_name, bad), site=ctx.site(b, 0))
        else:
            ctx.ok("%s works on the extension of the full name only" % role_name, site=ctx.site(b, 0))


def _is_found_position(b, leaf):
    """the byte offset of the FIRST occurrence of a pattern: `s.find(p)`, or `before.len()` with `(before, _) = s.split_once(p)`"""
    if leaf.kind != "call":
        return False
    nm = C.callee_name(leaf.data)
    if nm == "std::str::<impl str>::find":
        return True
    if nm != "std::str::<impl str>::len" or not leaf.data["args"]:
        return False
    p = C.op_place(leaf.data["args"][0])
    seen = set()
    while p is not None and p["l"] not in seen:
        seen.add(p["l"])
        tup = [e for e in p["p"] if e["k"] == "field" and e.get("owner") == "(tuple)"]
        if tup:
            src = C.trace(b, {"l": p["l"], "p": []})
            return tup[-1]["i"] == 0 and bool(src) and all(x.kind == "call" and C.callee_name(x.data) == "std::str::<impl str>::split_once" for x in src)
        ds = [r for r in b.defs().get(p["l"], []) if r[0] == "assign"]
        if len(ds) != 1:
            return False
        rv = ds[0][3]["rv"]
        p = rv["pl"] if rv["k"] in ("ref", "copyforderef") else C.op_place(rv["op"]) if rv["k"] == "use" else None
    return False


@rule("C14", "R14.8", floor=1)
def r14_8(ctx):
    """leftmost-first: the candidates for substitution are ordered by the position where each tag was FOUND (the `find` result itself, not
    position + length or any other derived number)"""
    lib = ctx.lib
    inj = body(ctx, "tag_inject")
    if not inj:
        return
    sorts = [(bb, t) for bb, t in inj.calls() if T.SORT_RE.match(C.callee_name(t) or "")]
    if not sorts:
        ctx.anchor_missing("sort of the injection candidates in inject_tags")
        return
    bodies = [inj] + lib.closures_of(inj)
    for bb, t in sorts:
        cl = lib.bodies.get((t["arg_tys"][1].get("closure") if len(t.get("arg_tys", [])) > 1 else "") or "")
        if cl is None:
            ctx.unverified("sort without a local key / comparator closure", site=ctx.site(inj, bb))
            continue
        elem_ty = None
        if len(cl.locals) > 2:
            elem_ty = re.sub(r"^&(mut )?", "", cl.locals[2]["ty"])
        # fields of the element the closure reads
        keys = set()
        for cbb, si, st in cl.stmts():
            for pl in _places_of(st):
                if cl.is_param(pl["l"]) and pl["l"] >= 2:
                    fl = [e for e in pl["p"] if e["k"] == "field"]
                    if fl:
                        keys.add((fl[0].get("owner"), fl[0].get("i"), tuple((e.get("owner"), e.get("i")) for e in fl[1:])))
        for cbb, ct in cl.calls():
            for a in ct["args"]:
                pl = C.op_place(a)
                if pl is not None and cl.is_param(pl["l"]) and pl["l"] >= 2:
                    fl = [e for e in pl["p"] if e["k"] == "field"]
                    if fl:
                        keys.add((fl[0].get("owner"), fl[0].get("i"), tuple((e.get("owner"), e.get("i")) for e in fl[1:])))
        if not keys:
            ctx.unverified("sort key closure reads no element field", site=ctx.site(inj, bb))
            continue
        bad = []
        found = 0
        for (owner, idx, rest) in keys:
            for b2 in bodies:
                for abb, st in [(x, y) for x, _si, y in b2.stmts() if y["k"] == "assign" and y["rv"]["k"] == "aggregate"]:
                    a = st["rv"]["agg"]
                    if not ((a["k"] == "tuple" and owner == "(tuple)") or (a["k"] == "adt" and a.get("adt") == owner)):
                        continue
                    # only the elements of the sorted collection: same type as what the key closure is handed
                    if elem_ty and not st["lhs"]["p"] and b2.locals[st["lhs"]["l"]]["ty"] != elem_ty:
                        continue
                    if idx is None or idx >= len(st["rv"]["ops"]):
                        continue
                    op = st["rv"]["ops"][idx]
                    for (o2, i2) in rest:
                        # nested: the key is a field of a struct stored in the element (e.g. a Range's end)
                        srcs = C._agg_sources(b2, C.op_place(op)["l"], {"owner": o2, "i": i2}, C.is_transparent) if C.op_place(op) else None
                        if not srcs:
                            op = None
                            break
                        op = srcs[0][1][i2]
                    if op is None:
                        bad.append("key field not traceable")
                        continue
                    lv = C.trace(b2, op)
                    if not lv:
                        continue
                    found += 1
                    for l in lv:
                        if not _is_found_position(b2, l):
                            bad.append(repr(l))
        if found == 0:
            ctx.unverified("element construction of the sorted candidates not found", site=ctx.site(inj, bb))
        elif bad:
            ctx.violation([inj.name, "sort-key"], "the injection candidates are not ordered by the position found: the sort key derives from %s" % sorted(set(bad))[:3],
                          site=ctx.site(inj, bb))
        else:
            ctx.ok("candidates are sorted by the find() position", site=ctx.site(inj, bb))


def _places_of(st):
    out = []
    if st["k"] != "assign":
        return out
    rv = st["rv"]
    for key in ("op", "a", "b"):
        o = rv.get(key)
        if isinstance(o, dict) and o.get("k") in ("copy", "move"):
            out.append(o["pl"])
    if "pl" in rv and isinstance(rv["pl"], dict):
        out.append(rv["pl"])
    for o in rv.get("ops", []) or []:
        if o.get("k") in ("copy", "move"):
            out.append(o["pl"])
    return out


# ------------------------------------------------------------------ R11.10: the candidate source names of get_txtpp_file
# Same idea as R11.7, for the inverse direction: every candidate `get_txtpp_file` can return has exactly ONE dotted component more than
# the name it was asked about (`txtpp` inserted before or after the last extension, or appended when there is none).  Abstract state per
# PathBuf local: the set of possible component deltas, how many trailing extension components the name is KNOWN to have (`trailing`), or
# that it is known to have none (`noext`); per OsString local: how many components the extension value has.  set_extension(x) with k
# components: replaces the last component when one is known to exist (delta += k-1), appends when none exists (delta += k), and is
# {replace, append} when unknown — which is exactly the imprecision a wrong construction introduces (`a.b.c` -> with_extension("") ->
# with_extension("txtpp.c") may replace `.b`).

def _candidate_deltas(prog, b):
    p_self = 1
    EXT = "std::path::Path::extension"
    is_self = lambda op: any(l.kind == "param" and l.data == p_self for l in C.trace(b, op))
    some_e = enum_edges(b, prog, "std::option::Option", lambda vs: vs == {"Some"},
                        src_pred=lambda c: any(l.kind == "call" and C.callee_name(l.data) == EXT and is_self(l.data["args"][0]) for l in c.src))
    none_e = enum_edges(b, prog, "std::option::Option", lambda vs: vs == {"None"},
                        src_pred=lambda c: any(l.kind == "call" and C.callee_name(l.data) == EXT and is_self(l.data["args"][0]) for l in c.src))
    in_some = (C.region(b, some_e) - C.region(b, none_e)) if some_e else set()
    in_none = (C.region(b, none_e) - C.region(b, some_e)) if none_e else set()
    results = []
    COPY = ("<std::path::PathBuf as std::clone::Clone>::clone", "std::path::Path::to_path_buf", "<std::path::Path as std::borrow::ToOwned>::to_owned",
            "std::borrow::ToOwned::to_owned")
    VIEW = ("std::path::Path::as_os_str", "std::path::PathBuf::as_path", "<std::path::PathBuf as std::ops::Deref>::deref", "std::convert::AsRef::as_ref",
            "std::ffi::OsString::as_os_str", "<std::ffi::OsString as std::ops::Deref>::deref", "std::ffi::OsStr::new", "std::borrow::Borrow::borrow")

    def root(st, op):
        """tracked local behind an operand (through refs / views), or None"""
        pl = C.op_place(op)
        seen = set()
        while pl is not None and pl["l"] not in seen:
            seen.add(pl["l"])
            payload = lambda e: e["k"] == "deref" or e["k"] == "downcast" or (
                e["k"] == "field" and e.get("owner") in ("std::option::Option", "std::ops::ControlFlow") and e.get("variant") in ("Some", "Continue"))
            if pl["l"] in st and all(payload(e) for e in pl["p"]):
                return pl["l"]
            ds = [r for r in b.defs().get(pl["l"], []) if r[0] in ("assign", "call")]
            if len(ds) != 1:
                return None
            if ds[0][0] == "call":
                t2 = ds[0][2]
                if (C.callee_name(t2) in VIEW or C.is_try_branch(t2)) and t2["args"]:
                    pl = C.op_place(t2["args"][0])
                    continue
                return None
            rv2 = ds[0][3]["rv"]
            pl = rv2.get("pl") if rv2["k"] in ("ref", "copyforderef") else (C.op_place(rv2["op"]) if rv2["k"] in ("use", "cast") else None)
        return None

    def unwrapped_later(l):
        fw = {l}
        changed = True
        while changed:
            changed = False
            for bb2, si2, st2 in b.stmts():
                if st2["k"] == "assign" and st2["rv"]["k"] == "use" and not st2["lhs"]["p"]:
                    sp = C.op_place(st2["rv"]["op"])
                    if sp is not None and not sp["p"] and sp["l"] in fw and st2["lhs"]["l"] not in fw:
                        fw.add(st2["lhs"]["l"])
                        changed = True
        return any(C.is_try_branch(t2) and t2["args"] and (C.op_place(t2["args"][0]) or {}).get("l") in fw for bb2, t2 in b.calls())

    def comps(st, op):
        """number of dot-separated components of an extension operand, or None"""
        r = root(st, op)
        if r is not None and st[r][0] == "E":
            return st[r][1]
        lv = C.trace(b, op, transparent=lambda t: C.is_transparent(t) or C.callee_name(t) in VIEW)
        vals = set()
        for l in lv:
            if l.kind == "const":
                c_ = C.op_const(l.data) or ""
                if len(c_) >= 2 and c_[0] == c_[-1] == '"':
                    vals.add(0 if c_ == '""' else c_.count(".") + 1)
                else:
                    return None
            elif l.kind == "call" and C.callee_name(l.data) == EXT:
                vals.add(1)          # an extension is one component by definition
            else:
                return None
        return vals.pop() if len(vals) == 1 else None

    def self_state(bb):
        return ("P", frozenset([0]), 1 if bb in in_some else 0, bb in in_none, True)

    def refine(v, bb):
        kind, d, tr, noext, pristine = v
        if pristine and d == frozenset([0]):
            if bb in in_some:
                tr = max(tr, 1)
            if bb in in_none:
                noext = True
        return (kind, d, tr, noext, pristine)

    def apply_ext(v, k, bb):
        kind, d, tr, noext, pristine = refine(v, bb)
        if d is None or k is None:
            return ("P", None, 0, False, False)
        if k == 0:
            if tr >= 1:
                return ("P", frozenset(x - 1 for x in d), tr - 1, False, False)
            if noext:
                return ("P", d, 0, True, False)
            return ("P", frozenset(x - 1 for x in d) | d, 0, False, False)
        if tr >= 1:
            return ("P", frozenset(x + k - 1 for x in d), tr - 1 + k, False, False)
        if noext:
            return ("P", frozenset(x + k for x in d), k, False, False)
        return ("P", frozenset(x + k - 1 for x in d) | frozenset(x + k for x in d), k, False, False)

    def step(bb, st):
        st = dict(st)
        blk = b.blocks[bb]
        for s_ in blk["stmts"]:
            if s_["k"] != "assign":
                continue
            rv = s_["rv"]
            if rv["k"] == "aggregate" and rv["agg"]["k"] == "array":
                # `vec![cand1, cand2]` (written through the box): a list of candidates to probe
                for o in rv["ops"]:
                    r = root(st, o)
                    if r is not None and st[r][0] == "P":
                        results.append((bb, st[r][1]))
                continue
            if s_["lhs"]["p"]:
                continue
            if rv["k"] == "use":
                src = C.op_place(rv["op"])
                if src is not None and not src["p"] and src["l"] in st:
                    st[s_["lhs"]["l"]] = st[src["l"]]
            elif rv["k"] == "aggregate" and rv["agg"].get("adt") == "std::option::Option" and rv["agg"].get("variant") == "Some" and rv["ops"]:
                r = root(st, rv["ops"][0])
                if r is not None and st[r][0] == "P":
                    if unwrapped_later(s_["lhs"]["l"]):
                        # `Some(p)` handed back by a spliced helper and taken apart again with `?`: an intermediate value, tracked on
                        st[s_["lhs"]["l"]] = st[r]
                    else:
                        results.append((bb, st[r][1]))
            elif rv["k"] == "aggregate" and rv["agg"]["k"] == "array":
                # `vec![cand1, cand2]`: a list of candidates to probe
                for o in rv["ops"]:
                    r = root(st, o)
                    if r is not None and st[r][0] == "P":
                        results.append((bb, st[r][1]))
        t = blk["term"]
        if t["k"] != "call":
            return st
        nm = C.callee_name(t) or ""
        dest = t["dest"]["l"]
        a = t["args"]
        if nm in COPY and a:
            r = root(st, a[0])
            if r is not None:
                st[dest] = st[r]
            elif is_self(a[0]):
                st[dest] = self_state(bb)
        elif nm == SET_EXT and len(a) == 2:
            r = root(st, a[0])
            if r is not None and st[r][0] == "P":
                st[r] = apply_ext(st[r], comps(st, a[1]), bb)
        elif nm == "std::path::Path::with_extension" and len(a) == 2:
            r = root(st, a[0])
            cur = st[r] if (r is not None and st[r][0] == "P") else (self_state(bb) if is_self(a[0]) else None)
            if cur is not None:
                st[dest] = apply_ext(cur, comps(st, a[1]), bb)
        elif nm == "std::path::Path::file_name" and a:
            # the whole file name of a tracked path: components appended to it (`name.push("."); name.push(ext)`) are components appended
            # to the path, once it is put back with with_file_name
            r = root(st, a[0])
            cur = st[r] if (r is not None and st[r][0] == "P") else (self_state(bb) if is_self(a[0]) else None)
            if cur is not None:
                st[dest] = ("F", refine(cur, bb), 0, False)
        elif nm == "std::path::Path::with_file_name" and len(a) == 2:
            r = root(st, a[0])
            cur = st[r] if (r is not None and st[r][0] == "P") else (self_state(bb) if is_self(a[0]) else None)
            rn = root(st, a[1])
            if cur is not None and rn is not None and st[rn][0] == "F" and st[rn][1][1] is not None and st[rn][1][:2] == refine(cur, bb)[:2] \
                    and st[rn][2] is not None and not st[rn][3]:
                base, n = st[rn][1], st[rn][2]
                st[dest] = ("P", frozenset(x + n for x in base[1]), n if n else base[2], base[3] if not n else False, False)
            elif cur is not None:
                st[dest] = ("P", None, 0, False, False)
        elif a and root(st, a[0]) is not None and st[root(st, a[0])][0] == "F" and (
                nm in ("std::ffi::OsStr::to_os_string", "<std::ffi::OsStr as std::borrow::ToOwned>::to_owned", "<std::ffi::OsString as std::clone::Clone>::clone")
                or (nm.endswith("::from") and "OsString" in nm) or nm in COPY):
            st[dest] = st[root(st, a[0])]
        elif nm == "std::ffi::OsString::push" and len(a) == 2 and root(st, a[0]) is not None and st[root(st, a[0])][0] == "F":
            r = root(st, a[0])
            _k, base, n, pend = st[r]
            lv = C.trace(b, a[1], transparent=lambda t2: C.is_transparent(t2) or C.callee_name(t2) in VIEW)
            if lv and all(l.kind == "const" and C.op_const(l.data) == '"."' for l in lv):
                st[r] = ("F", base, n, True)
            else:
                k = comps(st, a[1])
                st[r] = ("F", base, (n + k) if (pend and n is not None and k is not None) else None, False)
        elif nm in ("std::ffi::OsStr::to_os_string", "<std::ffi::OsString as std::convert::From<&T>>::from", "<std::ffi::OsString as std::convert::From<T>>::from",
                    "<std::ffi::OsStr as std::borrow::ToOwned>::to_owned", "<std::ffi::OsString as std::clone::Clone>::clone") or \
                (nm.endswith("::from") and "OsString" in nm) or (nm in COPY and a and "OsStr" in (t.get("dest_ty") or "")):
            st[dest] = ("E", comps(st, a[0]) if a else None, False)
        elif nm in ("std::ffi::OsString::new", "std::ffi::OsString::with_capacity"):
            st[dest] = ("E", 0, False)
        elif nm == "std::ffi::OsString::push" and len(a) == 2:
            r = root(st, a[0])
            if r is not None and st[r][0] == "E":
                _k, n, pend = st[r]
                lv = C.trace(b, a[1], transparent=lambda t2: C.is_transparent(t2) or C.callee_name(t2) in VIEW)
                if lv and all(l.kind == "const" and C.op_const(l.data) == '"."' for l in lv):
                    st[r] = ("E", n, True)
                else:
                    k = comps(st, a[1])
                    if n is None or k is None:
                        st[r] = ("E", None, False)
                    elif pend or n == 0:
                        st[r] = ("E", n + k, False)
                    else:
                        st[r] = ("E", None, False)      # appended without a dot: glued onto the last component
        elif nm == "std::vec::Vec::<T, A>::push" and len(a) == 2 and root(st, a[1]) is not None and st[root(st, a[1])][0] == "P":
            results.append((bb, st[root(st, a[1])][1]))
        elif nm in ("std::bool::<impl bool>::then_some",) and len(a) == 2:
            r = root(st, a[1])
            if r is not None and st[r][0] == "P":
                results.append((bb, st[r][1]))
        else:
            for i, x in enumerate(a):
                if i < len(t.get("arg_tys", [])) and t["arg_tys"][i]["ty"].startswith("&mut"):
                    r = root(st, x)
                    if r is not None:
                        st[r] = ("P", None, 0, False, False) if st[r][0] == "P" else ("E", None, False)
        return st

    seen = set()
    stack = [(0, {})]
    while stack:
        bb, st = stack.pop()
        key = (bb, tuple(sorted(st.items())))
        if key in seen or len(seen) > 20000:
            continue
        seen.add(key)
        st2 = step(bb, st)
        for (s2, lab) in b.raw_succs(bb):
            if not b.blocks[s2]["cleanup"]:
                stack.append((s2, st2))
    return results


@rule("C11", "R11.10", floor=1)
def r11_10(ctx):
    """every candidate source get_txtpp_file can return has exactly one dotted component more than the requested name (`txtpp` put before
    or after its last extension, or appended): candidates built by replacing extensions are followed through set_extension /
    with_extension with the component count of each extension value"""
    b = body(ctx, "get_txtpp_file")
    if not b:
        return
    if _ext_loop(b):
        ctx.unverified("get_txtpp_file obtains the name's extensions from a loop", site=ctx.site(b, 0),
                       detail="the extension a candidate is built from is read out of a collection filled by a loop: that it is the name's own "
                              "last extension is a value-level fact, so the component accounting does not apply")
        return
    res = _candidate_deltas(ctx.lib, b)
    if not res:
        ctx.unverified("no candidate construction through set_extension / with_extension found in get_txtpp_file", site=ctx.site(b, 0))
        return
    unknown = [bb for bb, d in res if d is None]
    bad = [(bb, d) for bb, d in res if d is not None and d != frozenset([1])]
    if bad:
        bb, d = bad[0]
        ctx.violation([b.name, "candidate-components", ",".join(str(x) for x in sorted(d))], "get_txtpp_file can return a candidate whose number of dot-separated "
                      "components differs from the requested name's by %s (exactly +1 expected): replacing the extension of a name whose stem still contains a dot "
                      "replaces that inner component (`a.b.c` -> `a.txtpp.c` instead of `a.b.txtpp.c`)" % sorted(d), site=ctx.site(b, bb))
    elif unknown:
        ctx.unverified("a candidate of get_txtpp_file is built in a way the component accounting does not follow", site=ctx.site(b, unknown[0]))
    else:
        ctx.ok("every candidate has exactly one component more than the requested name (%d path states)" % len(res), site=ctx.site(b, res[0][0]))


@rule("C01", "R01.11", floor=6)
def r01_11(ctx):
    """README `run`: the COMMAND is the directive's argument lines joined with single spaces (none dropped, none added), handed to the
    shell as one argument, and its stdout is the directive output (= C17 R17.2)"""
    import rules_run
    rules_run.r17_2(ctx)


def _cli_field_flow(ctx, fn_suffix, pairs):
    """in the CLI front end (spliced into main), Config.<dst> is given exactly the flag <src> of the parsed command line (moved, cloned;
    not negated, not combined)"""
    binp = ctx.bin
    if binp is None:
        ctx.anchor_missing("binary crate facts")
        return
    b = ctx.role(binp, fn_suffix)
    if not b:
        return
    CONV = ("std::convert::Into::into", "std::convert::From::from", "std::string::ToString::to_string", "std::borrow::ToOwned::to_owned",
            "std::clone::Clone::clone")
    # `.map(Into::into)` / `.map(String::from)`: an element-wise conversion named as a function item copies the items
    conv_map = lambda tt: C.callee_name(tt) in ("std::iter::Iterator::map", "std::option::Option::<T>::map") and len(tt.get("arg_tys", [])) > 1 and \
        (tt["arg_tys"][1].get("fndef") in CONV or str(tt["arg_tys"][1].get("fndef")).endswith(("::from", "::into")))
    copies = lambda tt: C.is_transparent(tt) or T.item_preserving(C.callee_name(tt)) or conv_map(tt) or \
        (C.callee_name(tt) or "").endswith(("::to_vec", "::to_owned", "::clone", "::to_string", "::into", "::collect", "::into_iter"))
    for dst, src in pairs:
        vals = field_values(b, CLI_CONFIG, dst)
        if not vals:
            ctx.violation([fn_suffix, dst, "unset"], "the CLI no longer passes `%s` on to Config.%s" % (src, dst), site=ctx.site(b, 0))
            continue
        for bb, op, st in vals:
            if op is None and st.get("k") == "call":
                lv = [l for a in st["args"] for l in C.trace(b, a, through_fields=True, transparent=copies)]
                fine_call = C.callee_name(st).endswith(("::clone", "::to_vec", "::to_owned", "::collect"))
            else:
                lv = C.trace(b, op, through_fields=True, transparent=copies) if op is not None else []
                fine_call = True
            is_flag = lambda l: l.kind == "field" and has_field([l], src) and not any(o in CLI_CONFIG for (o, v, n) in C.pl_fields(l.data))
            is_default_call = lambda l: l.kind == "call" and re.search(r"^<(%s) as std::default::Default>::default$" % "|".join(map(re.escape, CLI_CONFIG)),
                                                                       C.callee_name(l.data) or "")
            from_default = bool(lv) and any(l.kind == "field" for l in lv) and all(
                (l.kind == "field" and any(o in CLI_CONFIG for (o, v, n) in C.pl_fields(l.data))) or is_default_call(l) for l in lv)
            if from_default:
                continue        # `..Config::default()`: not the value the command line decides
            # (through_fields also reports the containers the flag sits in: `args.flags`, and where `args` comes from: Parser::parse)
            container = lambda l: (l.kind == "field" and not l.neg and not any(o in CLI_CONFIG for (o, v, n) in C.pl_fields(l.data))) or \
                l.kind == "param" or (l.kind == "call" and (C.callee_name(l.data) or "").startswith("clap::Parser::"))
            good = fine_call and bool(lv) and any(is_flag(l) and not l.neg for l in lv) and all(container(l) for l in lv)
            if good:
                ctx.ok("Config.%s = flag `%s`" % (dst, src), site=ctx.site(b, bb))
            else:
                ctx.violation([fn_suffix, dst], "Config.%s is not given the `%s` flag as parsed (%s)" % (dst, src, [repr(l) for l in lv][:3]),
                              site=ctx.site(b, bb))


@rule("C11", "R11.11", floor=2)
def r11_11(ctx):
    """CLI plumbing: Config.recursive is the `--recursive` flag as given and Config.inputs the positional arguments as given (an inverted
    or defaulted flag changes which files are picked up)"""
    _cli_field_flow(ctx, "txtpp::main", [("recursive", "recursive"), ("inputs", "inputs")])


@rule("C16", "R16.9", floor=2)
def r16_9(ctx):
    """the lines the processor sees are the source's lines as `BufRead::lines()` yields them: IOCtx.input is built from `lines()` of the
    opened input file and nothing else (no cached, trimmed or re-assembled first line chained in front), and next_line hands out the
    items of that iterator unmodified"""
    lib = ctx.lib
    nw = body(ctx, "ioctx_new")
    nl = body(ctx, "next_line")
    LINES_IO = ("std::io::BufRead::lines",)
    if nw:
        ags = aggregates(nw, ADT["IOCtx"]) if "IOCtx" in ADT else []
        if not ags:
            ags = [(bb, st) for bb, si, st in nw.stmts() if st["k"] == "assign" and st["rv"]["k"] == "aggregate" and st["rv"]["agg"]["k"] == "adt"
                   and "input" in (st["rv"]["agg"].get("fields") or [])]
        if not ags:
            ctx.anchor_missing("IOCtx { input, .. } aggregate in IOCtx::new")
        for bb, st in ags:
            flds = st["rv"]["agg"]["fields"]
            if "input" not in flds:
                continue
            at = piece_atoms(lib, nw, st["rv"]["ops"][flds.index("input")])
            if at and at <= {("call", n) for n in LINES_IO}:
                ctx.ok("IOCtx.input = lines() of the opened source", site=ctx.site(nw, bb))
            else:
                ctx.violation([nw.name, "line-source"], "the line iterator of IOCtx is not just BufRead::lines() of the source: %s" % sorted(map(str, at))[:4],
                              site=ctx.site(nw, bb))
    if nl:
        import tables as T
        lv = C.trace(nl, {"l": 0, "p": []}, through_fields=True, through_decorators=True, transparent=lambda tt: C.is_transparent(tt) or T.item_preserving(C.callee_name(tt)) or
                     C.callee_name(tt) in ("std::option::Option::<T>::map", "std::result::Result::<T, E>::map_err", "std::option::Option::<std::result::Result<T, E>>::transpose"))
        bad = [l for l in lv if not (l.kind == "field" and has_field([l], "input")) and l.kind not in ("param",) and
               not (l.kind == "const" and C.op_const(l.data) is None)]
        bad = [l for l in bad if l.kind == "call" or (l.kind == "const" and "str" in str(l.data.get("ty", "")))]
        if has_field(lv, "input") and not bad:
            ctx.ok("next_line yields the items of IOCtx.input", site=ctx.site(nl, 0))
        else:
            ctx.violation([nl.name, "line-items"], "next_line does not simply hand out the items of IOCtx.input: %s" % [repr(l) for l in bad][:3], site=ctx.site(nl, 0))


@rule("C01", "R01.12", floor=3)
def r01_12(ctx):
    """README `tag`: tags are replaced left to right in the SOURCE line, a tag name inside another tag's content is not replaced, used tags
    are removed (= C14 R14.6: occurrences are located once, in the line as read, and exactly the substituted tags leave the store)"""
    r14_6(ctx)


@rule("C16", "R16.10", floor=3)
def r16_10(ctx):
    """text produced by a directive and stored through `tag` is inert: it is never searched for tag names again after it was spliced in
    (= C14 R14.6)"""
    r14_6(ctx)


@rule("C11", "R11.12", floor=2)
def r11_12(ctx):
    """the transitive .txtpp dependencies of the requested sources are processed in every building / verifying mode: the first pass reports
    dependencies whatever the Mode (= C02 R02.12)"""
    import rules_sched
    rules_sched.r02_12(ctx)


@rule("C14", "R14.9", floor=1)
def r14_9(ctx):
    """an overlapped occurrence is skipped, the rest of the line is still substituted: inside the substitution loop of inject_tags, an edge
    of an ordering test that bypasses the substitution leads back to the loop head — not out of the loop (`break` instead of `continue`
    would leave every later tag of the line in the text and in the store)"""
    lib = ctx.lib
    inj = body(ctx, "tag_inject")
    if not inj:
        return
    subst = [bb for bb, t, a in _tag_emits(inj)]
    heads = [bb for bb, t in inj.calls() if C.callee_name(t).endswith(("Iterator>::next", "DoubleEndedIterator>::next_back", "Vec::<T, A>::pop")) and inj.in_cycle(bb)]
    if not subst or not heads:
        ctx.unverified("substitution loop of inject_tags not in the reviewed shape (no push of normalised content inside a loop)", site=ctx.site(inj, 0))
        return
    tests = 0
    for sbb in C.switches(inj):
        c = C.switch_cond(inj, sbb)
        if c.kind != "bool" or not inj.in_cycle(sbb) or not any(l.kind == "binop" and l.data["op"] in ("Lt", "Le", "Gt", "Ge") for l in c.src):
            continue
        own = [h for h in heads if sbb in inj.reachable(h) and h in inj.reachable(sbb)]      # the head(s) of the loop the test sits in
        for eid, succ, lab in inj.edges(sbb):
            reach = C.after_edges(inj, {eid}, cut=out_edges(inj, heads))
            if any(x in reach for x in subst):
                continue            # this edge goes on to substitute
            tests += 1
            if any(h in reach for h in own):
                ctx.ok("the skipping edge of the overlap test continues with the next occurrence", site=ctx.site(inj, sbb))
            else:
                ctx.violation([inj.name, "skip-leaves-loop"], "an occurrence that is skipped (overlap test) ends the substitution loop: later tags of the "
                              "line are neither substituted nor removed", site=ctx.site(inj, sbb))
    if not tests:
        ctx.unverified("no ordering test that skips an occurrence found in the substitution loop", site=ctx.site(inj, 0))


def _sort_direction(lib, inj, t):
    """+1 ascending, -1 descending, 0 unknown — for one sort call of inject_tags"""
    nm = C.callee_name(t)
    cl = lib.bodies.get((t["arg_tys"][1].get("closure") if len(t.get("arg_tys", [])) > 1 else "") or "")
    if re.search(r"::(sort|sort_unstable)$", nm):
        return 1
    if cl is None:
        return 0
    if re.search(r"::(sort_by_key|sort_unstable_by_key|sort_by_cached_key)$", nm):
        return 0 if "Reverse" in cl.locals[0]["ty"] else 1
    # comparator: one cmp / partial_cmp call whose operands derive from (a, b) in this order
    cmps = [ct for cbb, ct in cl.calls() if re.search(r"::(cmp|partial_cmp)$", C.callee_name(ct))]
    if len(cmps) != 1 or any(C.callee_name(ct).endswith(("Ordering::reverse", "::rev")) for cbb, ct in cl.calls()):
        return 0
    def params(op):
        return {l.data for l in C.trace(cl, op, through_fields=True) if l.kind == "param"}
    a, b = params(cmps[0]["args"][0]), params(cmps[0]["args"][1])
    if len(a) == 1 and len(b) == 1 and a != b:
        return 1 if min(a) < min(b) else -1          # closure locals: _1 = environment, _2 = first element, _3 = second element
    return 0


@rule("C14", "R14.10", floor=1)
def r14_10(ctx):
    """of two overlapping occurrences the LEFT one wins: the loop that holds the overlap test walks the candidates in ascending order of
    position — sorted ascending and consumed front to back (or descending and back to front); a reversed walk makes the rightmost win"""
    lib = ctx.lib
    inj = body(ctx, "tag_inject")
    if not inj:
        return
    subst = [bb for bb, t, a in _tag_emits(inj)]
    sorts = [(bb, t) for bb, t in inj.calls() if T.SORT_RE.match(C.callee_name(t) or "")]
    heads = [(bb, t) for bb, t in inj.calls() if C.callee_name(t).endswith(("Iterator>::next", "DoubleEndedIterator>::next_back", "Vec::<T, A>::pop"))
             and inj.in_cycle(bb)]
    if not subst or not sorts or not heads:
        ctx.unverified("substitution loop of inject_tags not in the reviewed shape (sort, loop, emission)", site=ctx.site(inj, 0))
        return
    direction = {_sort_direction(lib, inj, t) for bb, t in sorts}
    decided = 0
    for sbb in C.switches(inj):
        c = C.switch_cond(inj, sbb)
        if c.kind != "bool" or not inj.in_cycle(sbb) or not any(l.kind == "binop" and l.data["op"] in ("Lt", "Le", "Gt", "Ge") for l in c.src):
            continue
        # an overlap test: one of its edges bypasses the emission
        hb = [h for h, t in heads]
        if all(any(x in C.after_edges(inj, {eid}, cut=out_edges(inj, hb)) for x in subst) for eid, succ, lab in inj.edges(sbb)):
            continue
        for hbb, ht in heads:
            if not (sbb in inj.reachable(hbb) and hbb in inj.reachable(sbb)):
                continue
            nm = C.callee_name(ht)
            rev = nm.endswith(("next_back", "::pop"))
            it_leaves = C.trace(inj, ht["args"][0], through_fields=True)
            n_rev = sum(1 for l in it_leaves if l.kind == "call" and C.callee_name(l.data) == "std::iter::Iterator::rev")
            if "std::iter::Rev<" in nm:
                n_rev = max(n_rev, 1)
            backwards = rev ^ (n_rev % 2 == 1)
            decided += 1
            if direction == {1} and not backwards or direction == {-1} and backwards:
                ctx.ok("the loop with the overlap test sees the occurrences from left to right", site=ctx.site(inj, hbb))
            elif direction in ({1}, {-1}):
                ctx.violation([inj.name, "right-to-left"], "the loop that skips overlapped occurrences walks them from right to left: of two overlapping "
                              "tags the RIGHT one is substituted (the documented winner is the leftmost)", site=ctx.site(inj, hbb))
            else:
                ctx.unverified("direction of the candidate sort not recognised", site=ctx.site(inj, hbb))
    if not decided:
        ctx.unverified("no overlap test found in a loop over the sorted candidates", site=ctx.site(inj, 0))


@rule("C15", "R15.9", floor=2)
def r15_9(ctx):
    """one grammar for both passes: which lines start / continue / end a directive is decided by detect_from and add_line in every pass —
    neither call (nor the store that keeps a directive open) sits behind a test of the pass mode (`pp_mode`: first pass / collecting
    dependencies / second pass). A cheaper stand-in predicate for the dependency scan is a second grammar that must agree on every line."""
    lib = ctx.lib
    for role_name in ("iterate_directive", "get_next_line", "pp_run_internal"):
        b = body(ctx, role_name)
        if not b:
            continue
        sites = []
        for bb, t in b.calls():
            if any(n in (ROLE["detect_from"], ROLE["add_line"], ROLE["next_line"]) for n in C.callee_names(t)):
                sites.append((bb, C.callee_name(t).rsplit("::", 1)[-1]))
        for bb, si, st in b.stmts():
            if st["k"] == "assign" and st["lhs"]["p"] and st["lhs"]["p"][-1].get("name") in ("cur_directive", "execute_tail_line"):
                sites.append((bb, "store " + st["lhs"]["p"][-1]["name"]))
        if role_name == "pp_run_internal":
            # the line processor: only the re-queueing of the line that ended a directive belongs to the grammar (whether text is
            # WRITTEN does depend on the pass)
            sites = [(bb, w) for bb, w in sites if w == "store execute_tail_line"]
            if not sites:
                continue
        if role_name == "iterate_directive" and not {"detect_from", "add_line"} <= {w for bb, w in sites}:
            ctx.anchor_missing("detect_from and add_line calls in iterate_directive")
            continue
        pps = []
        for sbb in C.switches(b):
            c = C.switch_cond(b, sbb)
            if has_field(c.src, "pp_mode") or (c.adt or "").endswith("::PpMode") or any(
                    l.kind == "call" and "PpMode" in C.callee_name(l.data) for l in c.src):
                pps.append(sbb)
        live = C.live(b)
        for bb, what in sites:
            bad = None
            for sbb in pps:
                es = [eid for eid, succ, lab in b.edges(sbb)]
                for e in es:
                    if not C.after_edges(b, {e}):
                        continue
                    if bb in live and C.guarded(b, bb, set(es) - {e}):
                        # reachable through this switch, but not when `e` is the only edge taken
                        bad = sbb
            if bad is None:
                ctx.ok("%s|%s does not depend on the pass mode" % (role_name, what), site=ctx.site(b, bb))
            else:
                ctx.violation([b.name, "pass-dependent-parse", what], "`%s` in %s happens only for some values of the pass mode (test at %s): the "
                              "dependency scan and the executing pass can disagree about which lines belong to a directive"
                              % (what, role_name, ctx.site(b, bad)["loc"]), site=ctx.site(b, bb))


@rule("C02", "R02.14", floor=2)
def r02_14(ctx):
    """the dependency scan sees every line the executing pass sees (= C15 R15.9): reading, detection, continuation and the re-queueing of
    the line that ended a directive do not depend on the pass mode — a line that is dropped only while collecting dependencies can be
    the `include` of a generated file, which is then neither waited for nor scheduled"""
    r15_9(ctx)


@rule("C02", "R02.13", floor=1)
def r02_13(ctx):
    """the dependency lookup recognises every documented spelling of a source: the candidates get_txtpp_file probes are the requested name
    with one `txtpp` component inserted (= C11 R11.10) — a candidate that can never exist means `include X` is not ordered after X"""
    r11_10(ctx)


@rule("C16", "R16.11", floor=1)
def r16_11(ctx):
    """text written by a directive keeps its own final line break: the flag handed to the formatter is `ends_with('\\n')` of the raw
    output, not a test for the file's line ending (= C01 R01.9)"""
    r01_9(ctx)


@rule("C01", "R01.13", floor=1)
def r01_13(ctx):
    """a well-formed project is never failed by the coordinator itself: the only errors the coordinator constructs (rather than passes on
    from a worker or an IO call) are made after the receive loop has drained — a cycle check run early, on a partially known graph, can
    mistake a diamond for a loop (= C05 R05.5)"""
    import rules_sched
    rules_sched.r05_5(ctx)


@rule("C13", "R13.5", floor=4)
def r13_5(ctx):
    """every line ending but the last is written where it is decided: the line processor hands the separator to write_output itself, before
    the next content (= C01 R01.6) — a separator parked in a queue reaches the file only with a later write, which the trailing-newline
    option may suppress: the option would then control more than one line ending"""
    r01_6(ctx)


@rule("C16", "R16.12", floor=9)
def r16_12(ctx):
    """a line is a directive only if what follows the marker up to the first space is exactly a directive name (= C15 R15.1): with any
    looser split (letters only, any whitespace, punctuation) ordinary text that merely mentions `TXTPP#name` is taken for a directive
    and disappears from the output"""
    r15_1(ctx)


@rule("C14", "R14.11", floor=7)
def r14_11(ctx):
    """every output-producing directive offers its output to the listening tag, empty or not: the arms of `run`, `include` and `write` yield
    Some(output) and execute_directive hands that on unchanged (= C01 R01.1) — an empty output that becomes None leaves the tag listening:
    it captures a later directive's output or is reported unused"""
    r01_1(ctx)


@rule("C16", "R16.13", floor=1)
def r16_13(ctx):
    """what a directive produced reaches the tag store and the formatter as produced (= C14 R14.3): nothing is stripped from the raw output
    on the way (a leading U+FEFF removed "because it came from an included file" is also removed from text written with `write`)"""
    r14_3(ctx)


@rule("C03", "R03.11", floor=3)
def r03_11(ctx):
    """nothing of a file is executed twice in one build: a first pass that finds a dependency with a .txtpp source executes no directive
    from there on (= C02 R02.2) — the file is run again from the top as its second pass, so whatever the first pass had gone on to execute
    (a `run` command, a `temp` write between two includes) would happen twice"""
    import rules_sched
    rules_sched.r02_2(ctx)


@rule("C07", "R07.10", floor=1)
def r07_10(ctx):
    """the name the temp guard judges is the name that is written and removed: write_temp_file resolves its `temp_path` parameter as given
    (= C10 R10.2) — a path normalised after the "not a txtpp file" guard has seen it (`notes.txtpp\\` → `notes.txtpp`) lets clean delete
    a source"""
    wt = body(ctx, "write_temp_file")
    if not wt:
        return
    sites = calls_to(wt, ROLE["try_resolve"])
    if not sites:
        ctx.anchor_missing("try_resolve call in write_temp_file")
        return
    for bb, t in sites:
        lv = C.trace(wt, t["args"][1])
        if has_param(lv, wt, "temp_path") and all(l.kind == "param" for l in lv):
            ctx.ok("write_temp_file resolves temp_path as given", site=ctx.site(wt, bb))
        else:
            ctx.violation([wt.name, "temp-path-rewritten"], "write_temp_file resolves something other than its temp_path parameter as given (%s): the "
                          "guard against txtpp-looking temp targets judged a different name than the one written / removed"
                          % sorted({l.describe() if hasattr(l, "describe") else repr(l) for l in lv})[:3], site=ctx.site(wt, bb))


@rule("C09", "R09.6", floor=1)
def r09_6(ctx):
    """a needed-build fails exactly where a normal build fails: the unused-tag error at the end of a file is raised in every mode but
    Clean (= C14 R14.4) — a positive list of modes that forgets InMemoryBuild makes `--needed` accept what `build` rejects"""
    r14_4(ctx)


@rule("C11", "R11.13", floor=5)
def r11_13(ctx):
    """a requested source whose dependencies are all finished is processed to the end: it is re-run as a second pass (= C02 R02.1; a
    first-pass call at that point is swallowed by the de-duplication and the source is never completed)"""
    import rules_sched
    rules_sched.r02_1(ctx)


@rule("C11", "R11.15", floor=2)
def r11_15(ctx):
    """the inputs and the recursion flag that are processed are those given to the command in effect (`txtpp clean -r dir`: the `-r` and
    `dir` after `clean`), see R17.6"""
    from rules_io import _cli_flags_of_subcommand
    _cli_flags_of_subcommand(ctx, "inputs", "inputs")
    _cli_flags_of_subcommand(ctx, "recursive", "recursive")


@rule("C13", "R13.6", floor=1)
def r13_6(ctx):
    """`txtpp verify -n` verifies without the trailing newline: Config.trailing_newline is decided by the `-n` of the command in effect, see
    R17.6"""
    from rules_io import _cli_flags_of_subcommand
    _cli_flags_of_subcommand(ctx, "trailing_newline", "no_trailing_newline")


def _canon_place(b, pl):
    """a place with its base resolved through unnamed single-definition temporaries that only copy a value or a reference
    (`_14 = copy (_1.0); (*_14) = ..` is a store to `(*(_1.0))`)"""
    seen = set()
    while pl is not None and pl["l"] not in seen and not b.is_param(pl["l"]) and not b.local_name(pl["l"]):
        seen.add(pl["l"])
        ds = [r for r in b.defs().get(pl["l"], []) if r[0] != "passign"]       # (stores through the temporary do not redefine it)
        if len(ds) == 1 and ds[0][0] == "assign" and ds[0][3]["rv"]["k"] in ("use", "copyforderef"):
            rv = ds[0][3]["rv"]
            src = C.op_place(rv["op"]) if rv["k"] == "use" else rv["pl"]
            if src is None:
                break
            pl = {"l": src["l"], "p": list(src["p"]) + list(pl["p"])}
        else:
            break
    return pl


def _root_place(b, op):
    """the place a compared / assigned operand is loaded from"""
    pl = C.op_place(op)
    return _canon_place(b, pl) if pl is not None else None


def _overlap_accumulator(ctx, rule_tag):
    lib = ctx.lib
    inj = body(ctx, "tag_inject")
    if not inj:
        return
    ORD = ("Lt", "Le", "Gt", "Ge")
    KEEP = {("Lt", False): False, ("Ge", False): True, ("Gt", False): True, ("Le", False): False,
            ("Le", True): True, ("Gt", True): False, ("Lt", True): True, ("Ge", True): False}
    found = 0
    for B in [inj] + lib.closures_of(inj):
        stores = {}
        for bb, si, st in B.stmts():
            if st["k"] == "assign" and not (st["rv"]["k"] == "use" and st["rv"]["op"].get("k") == "const"):
                # (`_t = copy acc` defines the temporary; only a store THROUGH a temporary reference is a store to what it refers to)
                lhs = _canon_place(B, st["lhs"]) if st["lhs"]["p"] else st["lhs"]
                stores.setdefault(C.pl_str(lhs), []).append((bb, st))
        for bb, si, st in B.stmts():
            if not (st["k"] == "assign" and st["rv"]["k"] == "binop" and st["rv"]["op"] in ORD):
                continue
            rv = st["rv"]
            for first in (True, False):
                acc_op = rv["a"] if first else rv["b"]
                P = _root_place(B, acc_op)
                if P is None:
                    continue
                key = C.pl_str(P)
                # an accumulator: a named local or a captured `&mut usize`, reassigned in this body
                named = (not P["p"] and B.local_name(P["l"])) or any(e.get("upvar") for e in P["p"])
                # .. after the test, within the same iteration (the loop variable that holds the position is assigned BEFORE it)
                heads_ = [hbb for hbb, ht in B.calls() if C.callee_name(ht).endswith(("Iterator>::next", "DoubleEndedIterator>::next_back")) and B.in_cycle(hbb)]
                after = B.reachable(bb, cut=out_edges(B, heads_))
                asg = [(abb, ast) for abb, ast in stores.get(key, []) if ast is not st and abb in after and (abb != bb or True)]
                asg = [(abb, ast) for abb, ast in asg if not (abb == bb and B.blocks[bb]["stmts"].index(ast) < B.blocks[bb]["stmts"].index(st))]
                if not named or not asg:
                    continue
                found += 1
                want = KEEP[(rv["op"], first)]

                def pred(c, v, leaf, rv=rv, bb=bb, want=want):
                    return c.kind == "bool" and leaf is not None and leaf.kind == "binop" and leaf.data is rv and v == want
                keep = C.guard_edges(B, lib, pred)
                for abb, ast in asg:
                    if keep and C.guarded(B, abb, keep):
                        ctx.ok("%s|the end-of-previous accumulator advances only past an occurrence that is kept" % B.name.rsplit("::", 2)[-1],
                               site=ctx.site(B, abb))
                    else:
                        ctx.violation([inj.name, "accumulator-advances-on-skip"], "the end-of-previous accumulator of the overlap test is advanced for "
                                      "an occurrence that is skipped as well: a later occurrence is then compared with the end of a tag that was "
                                      "NOT substituted (it is dropped although nothing overlaps it, or kept although it lies inside an "
                                      "injected tag: the slice bounds cross)", site=ctx.site(B, abb))
    if not found:
        ctx.unverified("no ordering test against a reassigned end-of-previous accumulator found in inject_tags or its closures", site=ctx.site(inj, 0))


@rule("C14", "R14.12", floor=1)
def r14_12(ctx):
    """overlap is judged against what was substituted: the accumulator the overlap test compares positions with (`last_end`) advances only
    on the path that keeps the occurrence — in the substitution loop, or in the closure of a selection pass (`retain` / `filter`)"""
    _overlap_accumulator(ctx, "R14.12")


@rule("C18", "R18.6", floor=1)
def r18_6(ctx):
    """(= C14 R14.12) an accumulator that also advances on skipped occurrences can move backwards: the next kept occurrence then lies inside
    an injected tag and `output[last_end..i]` is sliced with last_end > i — a panic in the worker, which the coordinator waits for forever"""
    _overlap_accumulator(ctx, "R18.6")


@rule("C01", "R01.14", floor=1)
def r01_14(ctx):
    """tags are judged when the file has been executed to the end: the unused-tag error is raised only past the point where a pass that is
    merely collecting dependencies has returned its list (`HasDeps`). A first pass stops executing at its first dependency; a tag created
    before that and used after it is still pending then — checking it there fails a well-formed project."""
    lib = ctx.lib
    ri = body(ctx, "pp_run_internal")
    if not ri:
        return
    has = bool_call_edges(ri, lib, ROLE["tag_has_tags"], True)
    if not has:
        ctx.anchor_missing("test of has_tags() in the line processor")
        return
    errs = [e for e in err_sites(ri) if C.guarded(ri, e, has)]
    adt = ADT.get("PpMode")
    non_collect = enum_edges(ri, lib, adt, lambda vs: "CollectDeps" not in vs) if adt else set()
    if not errs or not non_collect:
        ctx.unverified("no error return behind has_tags() / no test of the pass mode for CollectDeps found in the line processor", site=ctx.site(ri, 0))
        return
    for e in errs:
        if C.guarded(ri, e, non_collect):
            ctx.ok("the unused-tag error is raised only when the pass is not a dependency-collecting one", site=ctx.site(ri, e))
        else:
            ctx.violation([ri.name, "unused-tags-while-collecting"], "the unused-tag error can be raised by a pass that is only collecting dependencies "
                          "(before its HasDeps return): a tag created before the first dependency and used after it fails a well-formed project",
                          site=ctx.site(ri, e))
