"""Fact extraction front end: runs the rustc_private driver (/verif/engine) over a source
tree with `cargo +nightly check` and loads the JSON fact files.  Nothing of txtpp is executed.

Facts are cached under /verif/.cache/<sha256(tree)+sha256(driver)>/<config>/ so that the 18
per-property commands share one extraction.  The hash covers every file of the tree except
target/ and .git/, so any edit of /repo re-extracts.
"""
import hashlib
import json
import os
import shutil
import subprocess
import sys
import tempfile
import time

VERIF = os.path.dirname(os.path.dirname(os.path.abspath(__file__)))
DRIVER = os.path.join(VERIF, "engine", "target", "release", "txtpp-facts")
CACHE = os.environ.get("TXTPP_VERIF_CACHE") or os.path.join(VERIF, ".cache")

# cargo invocations per configuration (cfg universe, DESIGN §4.1)
CONFIGS = {
    "default": [],                                      # lib + bin, default features
    "nodefault": ["--lib", "--no-default-features"],    # library without the cli feature
    "alltargets": ["--all-targets"],                    # + unit-test and integration-test bodies
}

# floors counted by hand on the pinned tree (fail closed when an extraction is short)
FLOORS = {"lib": 150, "bin": 40}


class CheckerBroken(Exception):
    """The machinery itself failed (exit 2): driver did not build/run, facts short, ..."""


def tree_hash(root):
    h = hashlib.sha256()
    for dp, dns, fns in os.walk(root):
        dns[:] = sorted(d for d in dns if not (dp == root and d in ("target", ".git")))
        for fn in sorted(fns):
            p = os.path.join(dp, fn)
            rel = os.path.relpath(p, root)
            h.update(rel.encode() + b"\0")
            try:
                with open(p, "rb") as f:
                    h.update(hashlib.sha256(f.read()).digest())
            except OSError:
                h.update(b"?")
    return h.hexdigest()


def file_hash(p):
    with open(p, "rb") as f:
        return hashlib.sha256(f.read()).hexdigest()


def ensure_driver():
    if os.path.exists(DRIVER):
        return
    env = dict(os.environ, CARGO_NET_OFFLINE="true")
    r = subprocess.run(["cargo", "build", "--release", "--offline"], cwd=os.path.join(VERIF, "engine"),
                       env=env, stdout=subprocess.PIPE, stderr=subprocess.STDOUT, text=True)
    if r.returncode != 0 or not os.path.exists(DRIVER):
        raise CheckerBroken("cannot build the fact driver:\n" + r.stdout[-4000:])


def nightly_sysroot():
    r = subprocess.run(["rustc", "+nightly", "--print", "sysroot"], stdout=subprocess.PIPE, text=True)
    if r.returncode != 0:
        raise CheckerBroken("nightly toolchain not available")
    return r.stdout.strip()


def extract(root, config="default", use_cache=True, manifest_path=None):
    """Return {'lib': facts, 'bin': facts?, 'lib-test': ..., ...} for the tree at `root`."""
    ensure_driver()
    key = None
    cdir = None
    if use_cache:
        key = hashlib.sha256((tree_hash(root) + file_hash(DRIVER)).encode()).hexdigest()[:32]
        cdir = os.path.join(CACHE, key, config)
        if os.path.exists(os.path.join(cdir, "OK")):
            return _load_dir(cdir)
    target = tempfile.mkdtemp(prefix="txtpp-verif-target-")
    out = tempfile.mkdtemp(prefix="txtpp-verif-facts-")
    try:
        env = dict(os.environ)
        env.update({
            "LD_LIBRARY_PATH": os.path.join(nightly_sysroot(), "lib"),
            "RUSTFLAGS": "-Zmir-opt-level=0 -Awarnings",
            "RUSTC_WORKSPACE_WRAPPER": DRIVER,
            "CARGO_TARGET_DIR": target,
            "TXTPP_FACTS_DIR": out,
            "CARGO_NET_OFFLINE": "true",
            "CARGO_INCREMENTAL": "0",
        })
        env.pop("RUSTC_WRAPPER", None)
        cmd = ["cargo", "+nightly", "check", "--offline", "-q"] + CONFIGS[config]
        t0 = time.time()
        r = subprocess.run(cmd, cwd=root, env=env, stdout=subprocess.PIPE, stderr=subprocess.STDOUT, text=True)
        if r.returncode != 0:
            raise CheckerBroken("cargo check with the fact driver failed (%s):\n%s" % (config, r.stdout[-6000:]))
        files = [f for f in os.listdir(out) if f.endswith(".json")]
        if not files:
            raise CheckerBroken("the fact driver wrote no fact file (stale cargo cache?)")
        if cdir:
            os.makedirs(cdir, exist_ok=True)
            for f in files:
                shutil.copy(os.path.join(out, f), os.path.join(cdir, f))
            with open(os.path.join(cdir, "OK"), "w") as fh:
                fh.write("%s %.1fs\n" % (root, time.time() - t0))
            _prune_cache(keep=key)
            return _load_dir(cdir)
        return _load_dir(out)
    finally:
        shutil.rmtree(target, ignore_errors=True)
        shutil.rmtree(out, ignore_errors=True)


def _prune_cache(keep, max_entries=6):
    max_entries = int(os.environ.get("TXTPP_VERIF_CACHE_MAX", max_entries))
    try:
        ents = [(os.path.getmtime(os.path.join(CACHE, e)), e) for e in os.listdir(CACHE)]
    except OSError:
        return
    ents.sort(reverse=True)
    for _, e in ents[max_entries:]:
        if e != keep:
            shutil.rmtree(os.path.join(CACHE, e), ignore_errors=True)


def _load_dir(d):
    res = {}
    for f in sorted(os.listdir(d)):
        if not f.endswith(".json"):
            continue
        with open(os.path.join(d, f)) as fh:
            facts = json.load(fh)
        src = facts.get("src", "")
        name = facts["crate"]
        if src.endswith("lib.rs"):
            kind = "lib"
        elif "Executable" in facts["crate_types"]:
            kind = "bin"
        else:
            kind = "lib"
        if facts["is_test"]:
            # unit tests of lib / bin (the test harness is an executable), integration tests
            kind = kind + "-test" if src.startswith("src/") or "/src/" in src else "itest:" + name
        res[kind] = facts
    for k, floor in FLOORS.items():
        if k in res and res[k]["n_bodies"] < floor:
            raise CheckerBroken("fact file for %s has %d bodies < floor %d" % (k, res[k]["n_bodies"], floor))
    if "lib" not in res:
        raise CheckerBroken("no fact file for the library crate")
    return res


if __name__ == "__main__":
    t0 = time.time()
    r = extract(sys.argv[1] if len(sys.argv) > 1 else "/repo", sys.argv[2] if len(sys.argv) > 2 else "default")
    for k, v in r.items():
        print(k, v["crate"], v["n_bodies"], "bodies")
    print("%.1fs" % (time.time() - t0))
