"""Analysis primitives over the MIR facts (DESIGN §3.2).  Pure Python, no execution of txtpp.

All path primitives work on the *normal-flow* CFG: cleanup blocks and unwind edges are removed
(panics are the subject of C18 and are handled there).
"""
import re
from collections import defaultdict, deque

# ------------------------------------------------------------------ helpers on JSON shapes


def pl_local(pl):
    return pl["l"]


def pl_proj(pl):
    return pl["p"]


def pl_is_local(pl):
    return not pl["p"]


def pl_only_deref(pl):
    return all(e["k"] == "deref" for e in pl["p"])


def pl_fields(pl):
    """[(owner, variant, name/index)] for the field projections of a place, outermost last"""
    out = []
    for e in pl["p"]:
        if e["k"] == "field":
            out.append((e.get("owner"), e.get("variant"), e.get("name", e.get("i"))))
    return out


def pl_str(pl, body=None):
    s = "_%d" % pl["l"]
    if body is not None:
        nm = body.locals[pl["l"]].get("name")
        if nm:
            s = "%s/*%s*/" % (s, nm)
    for e in pl["p"]:
        k = e["k"]
        if k == "deref":
            s = "(*%s)" % s
        elif k == "field":
            s = "%s.%s" % (s, e.get("name", e.get("i")))
        elif k == "downcast":
            s = "(%s as %s)" % (s, e.get("variant"))
        elif k == "index":
            s = "%s[_%d]" % (s, e["l"])
        elif k == "constindex":
            s = "%s[%s%d]" % (s, "-" if e["from_end"] else "", e["offset"])
        elif k == "subslice":
            s = "%s[%d..%s%d]" % (s, e["from"], "-" if e["from_end"] else "", e["to"])
        else:
            s = "%s.?" % s
    return s


def op_str(op, body=None):
    if op is None:
        return "?"
    k = op["k"]
    if k in ("copy", "move"):
        return "%s %s" % (k, pl_str(op["pl"], body))
    if k == "const":
        if "fn" in op:
            return "fn %s" % (op["fn"].get("rpath") or op["fn"]["path"])
        return "const %s" % op.get("ev", op["v"])
    return k


def op_place(op):
    return op["pl"] if op and op["k"] in ("copy", "move") else None


def op_const(op):
    """value string of a constant operand (named consts are evaluated), else None"""
    if op and op["k"] == "const":
        return op.get("ev", op["v"])
    return None


def rv_str(rv, body=None):
    k = rv["k"]
    if k == "use":
        return op_str(rv["op"], body)
    if k == "ref":
        return "&%s%s" % ("mut " if rv["mut"] else "", pl_str(rv["pl"], body))
    if k == "rawptr":
        return "&raw %s" % pl_str(rv["pl"], body)
    if k == "cast":
        return "%s as %s (%s)" % (op_str(rv["op"], body), rv["ty"], rv["ck"])
    if k == "binop":
        return "%s(%s, %s)" % (rv["op"], op_str(rv["a"], body), op_str(rv["b"], body))
    if k == "unop":
        return "%s(%s)" % (rv["op"], op_str(rv["a"], body))
    if k == "discriminant":
        return "discriminant(%s) : %s" % (pl_str(rv["pl"], body), rv.get("adt", rv.get("ty")))
    if k == "aggregate":
        a = rv["agg"]
        if a["k"] == "adt":
            head = "%s::%s" % (a["adt"], a["variant"])
        elif a["k"] == "closure":
            head = "closure %s" % a["def"]
        else:
            head = a["k"]
        return "%s{%s}" % (head, ", ".join(op_str(o, body) for o in rv["ops"]))
    if k == "copyforderef":
        return "deref_copy %s" % pl_str(rv["pl"], body)
    if k == "repeat":
        return "[%s; n]" % op_str(rv["op"], body)
    return k


_NORM_RE = re.compile(r"(?<![:\w])(core|alloc)::")
_norm_cache = {}


def norm(name):
    """libcore/liballoc paths are spelled as their std re-exports (`core::str::..` -> `std::str::..`);
    txtpp's own module `txtpp::core::..` is untouched (it is preceded by `::`)."""
    r = _norm_cache.get(name)
    if r is None:
        r = _NORM_RE.sub("std::", name)
        _norm_cache[name] = r
    return r


def callee_name(term):
    """resolved def path of a call terminator's callee (impl method when resolvable)"""
    c = term.get("callee")
    if not c:
        return None
    return norm(c.get("rpath") or c["path"])


def callee_names(term):
    c = term.get("callee")
    if not c:
        return ()
    return tuple(norm(x) for x in (c.get("rpath"), c["path"]) if x)


def fn_names(fnref):
    return tuple(norm(x) for x in (fnref.get("rpath"), fnref["path"]) if x)


def loc(span):
    return "%s:%s" % (span["file"], span["line"])


# ------------------------------------------------------------------ Program / Body


_KP = None


def _tail2(name):
    """last two path segments outside generic brackets (module-move tolerant key)"""
    depth = 0
    cut = []
    for i, ch in enumerate(name):
        if ch in "<([":
            depth += 1
        elif ch in ">)]":
            depth -= 1
        elif ch == ":" and depth == 0 and i + 1 < len(name) and name[i + 1] == ":":
            cut.append(i)
    return name[cut[-2] + 2:] if len(cut) >= 2 else name


def _known_params():
    global _KP
    if _KP is None:
        import json as _json
        import os as _os
        try:
            _KP = _json.load(open(_os.path.join(_os.path.dirname(_os.path.abspath(__file__)), "known_params.json")))
        except OSError:
            _KP = {}
        for k in list(_KP):
            if not k.startswith("<"):
                _KP.setdefault("~" + _tail2(k), _KP[k])
    return _KP


class Body:
    def __init__(self, j, prog):
        self.j = j
        self.prog = prog
        self.name = j["name"]
        self.kind = j["kind"]
        self.blocks = j["blocks"]
        self.locals = j["locals"]
        self.arg_count = j["arg_count"]
        self.root = j.get("root")
        self.parent = j.get("parent")
        self.upvars = j.get("upvars", [])
        self.span = j["span"]
        self._defs = None
        self._preds = None
        self._thread = None

    def __repr__(self):
        return "<Body %s>" % self.name

    # ---- normal-flow CFG
    def term(self, bb):
        return self.blocks[bb]["term"]

    def is_cleanup(self, bb):
        return self.blocks[bb]["cleanup"]

    def raw_succs(self, bb):
        """[(succ, labelset|None)] of the normal-flow CFG; labelset for switch edges:
        frozenset of ints, or ('otherwise', frozenset(excluded ints))"""
        t = self.blocks[bb]["term"]
        k = t["k"]
        if k == "goto":
            return [(t["t"], None)]
        if k == "switch":
            out = []
            for v, tg in zip(t["vals"], t["targets"]):
                out.append((tg, ("val", v)))
            out.append((t["otherwise"], ("otherwise", frozenset(t["vals"]))))
            return out
        if k in ("call", "drop", "assert"):
            return [(t["t"], None)] if t.get("t") is not None else []
        return []

    def succs(self, bb, cut=None):
        out = []
        for i, (s, lab) in enumerate(self.raw_succs(bb)):
            if self.blocks[s]["cleanup"]:
                continue
            if cut and (bb, i) in cut:
                continue
            out.append(s)
        return out

    def edges(self, bb):
        """[(edge_id, succ, label)]"""
        return [((bb, i), s, lab) for i, (s, lab) in enumerate(self.raw_succs(bb)) if not self.blocks[s]["cleanup"]]

    def reachable(self, start=0, cut=None, stop=None):
        """blocks reachable from `start` (inclusive) on the normal-flow CFG minus `cut` edges;
        `stop`: blocks that are entered but not left"""
        seen = {start}
        dq = deque([start])
        while dq:
            b = dq.popleft()
            if stop and b in stop and b != start:
                continue
            for s in self.succs(b, cut):
                if s not in seen:
                    seen.add(s)
                    dq.append(s)
        return seen

    def reachable_from_edges(self, edge_ids, cut=None):
        """blocks reachable when starting by taking one of the given edges"""
        seen = set()
        dq = deque()
        for (b, i) in edge_ids:
            s = self.raw_succs(b)[i][0]
            if not self.blocks[s]["cleanup"] and s not in seen:
                seen.add(s)
                dq.append(s)
        while dq:
            b = dq.popleft()
            for s in self.succs(b, cut):
                if s not in seen:
                    seen.add(s)
                    dq.append(s)
        return seen

    def path_to(self, target, cut=None, start=0):
        """a witness path (list of blocks) from start to target, or None"""
        prev = {start: None}
        dq = deque([start])
        while dq:
            b = dq.popleft()
            if b == target:
                out = []
                while b is not None:
                    out.append(b)
                    b = prev[b]
                return out[::-1]
            for s in self.succs(b, cut):
                if s not in prev:
                    prev[s] = b
                    dq.append(s)
        return None

    def preds(self):
        if self._preds is None:
            p = defaultdict(list)
            for b in range(len(self.blocks)):
                if self.blocks[b]["cleanup"]:
                    continue
                for s in self.succs(b):
                    p[s].append(b)
            self._preds = p
        return self._preds

    def normal_blocks(self):
        return [b for b in range(len(self.blocks)) if not self.blocks[b]["cleanup"]]

    def live_blocks(self):
        """normal-flow blocks reachable from the entry"""
        return self.reachable(0)

    def in_cycle(self, bb):
        """is bb on a normal-flow CFG cycle?"""
        for s in self.succs(bb):
            if bb in self.reachable(s):
                return True
        return False

    # ---- definitions
    def defs(self):
        """local -> list of def records:
        ('assign', bb, si, stmt)  whole-local assignment
        ('passign', bb, si, stmt) assignment to a projection of the local
        ('call', bb, term)        destination of a call (whole or projected)
        """
        if self._defs is None:
            d = defaultdict(list)
            for bb, blk in enumerate(self.blocks):
                for si, st in enumerate(blk["stmts"]):
                    if st["k"] == "assign":
                        l = st["lhs"]["l"]
                        d[l].append(("assign" if not st["lhs"]["p"] else "passign", bb, si, st))
                    elif st["k"] == "setdiscr":
                        d[st["lhs"]["l"]].append(("passign", bb, si, st))
                t = blk["term"]
                if t["k"] == "call":
                    d[t["dest"]["l"]].append(("call", bb, t))
            self._defs = d
        return self._defs

    def calls(self, live_only=True):
        """[(bb, term)] for all call terminators in normal-flow (reachable) blocks"""
        live = self.live_blocks() if live_only else None
        out = []
        for bb, blk in enumerate(self.blocks):
            if blk["cleanup"]:
                continue
            if live is not None and bb not in live:
                continue
            if blk["term"]["k"] == "call":
                out.append((bb, blk["term"]))
        return out

    def stmts(self, live_only=True):
        live = self.live_blocks() if live_only else None
        for bb, blk in enumerate(self.blocks):
            if blk["cleanup"] or (live is not None and bb not in live):
                continue
            for si, st in enumerate(blk["stmts"]):
                yield bb, si, st

    def is_param(self, l):
        return 1 <= l <= self.arg_count

    def local_name(self, l):
        return self.locals[l].get("name")

    def param_index_by_name(self, name):
        """local index of the parameter called `name`.  A parameter that was merely renamed is re-found through the frozen baseline
        signature (rules/known_params.json): same position, same type, same arity.  Otherwise the anchor is missing (fail closed)."""
        for l in range(1, self.arg_count + 1):
            if self.locals[l].get("name") == name:
                return l
        base = _known_params().get(self.name) or _known_params().get("~" + _tail2(self.name))
        if base and len(base) == self.arg_count:
            for i, (pn, ty) in enumerate(base):
                if pn == name and self.locals[i + 1]["ty"] == ty and self.locals[i + 1].get("name") not in [q for q, _ in base]:
                    return i + 1
        raise AnchorMissing("parameter `%s` of %s" % (name, self.name))

    # ---- pretty printer
    def dump(self, live_only=False):
        out = []
        out.append("fn %s  [%s]  args=%d" % (self.name, loc(self.span), self.arg_count))
        for i, l in enumerate(self.locals):
            out.append("  let _%d: %s%s" % (i, l["ty"], "  // " + l["name"] if l.get("name") else ""))
        live = self.live_blocks()
        for bb, blk in enumerate(self.blocks):
            if live_only and (blk["cleanup"] or bb not in live):
                continue
            out.append("  bb%d%s:" % (bb, " (cleanup)" if blk["cleanup"] else ""))
            for st in blk["stmts"]:
                if st["k"] == "assign":
                    out.append("    %s = %s   // %s" % (pl_str(st["lhs"], self), rv_str(st["rv"], self), st["span"]["line"]))
                else:
                    out.append("    discriminant(%s) = %s" % (pl_str(st["lhs"], self), st["vi"]))
            t = blk["term"]
            k = t["k"]
            ln = t["span"]["line"]
            if k == "call":
                cal = callee_name(t) or op_str(t.get("callee_op"), self)
                out.append("    %s = %s(%s) -> bb%s  // %s%s" % (
                    pl_str(t["dest"], self), cal, ", ".join(op_str(a, self) for a in t["args"]), t["t"], ln,
                    " [exp %s]" % t["span"]["macro"] if t["span"]["exp"] else ""))
            elif k == "switch":
                out.append("    switchInt(%s : %s) -> [%s, otherwise: bb%d]  // %s" % (
                    op_str(t["discr"], self), t["dty"],
                    ", ".join("%d: bb%d" % (v, tg) for v, tg in zip(t["vals"], t["targets"])), t["otherwise"], ln))
            elif k == "drop":
                out.append("    drop(%s : %s) -> bb%d  // %s" % (pl_str(t["pl"], self), t["ty"], t["t"], ln))
            elif k == "assert":
                out.append("    assert(%s == %s, %s) -> bb%d  // %s" % (op_str(t["cond"], self), t["expected"], t["msg"], t["t"], ln))
            elif k == "goto":
                out.append("    goto -> bb%d" % t["t"])
            else:
                out.append("    %s" % k)
        return "\n".join(out)


class Program:
    """One crate's facts (lib or bin)."""

    def __init__(self, facts, label):
        self.facts = facts
        self.label = label
        self.bodies = {}
        for bj in facts["bodies"]:
            b = Body(bj, self)
            self.bodies[b.name] = b
        self.adts = {a["path"]: a for a in facts["adts"]}
        crate = facts.get("crate", "")
        CRATE_ENUMS.update(p_ for p_, a in self.adts.items() if a.get("kind") == "Enum" and crate and p_.startswith(crate + "::"))
        self.consts = {c["path"]: c for c in facts["consts"]}
        self._closures_by_parent = defaultdict(list)
        for b in self.bodies.values():
            if b.kind == "Closure":
                self._closures_by_parent[b.parent].append(b)

    def body(self, name):
        return self.bodies.get(name)

    def find(self, suffix):
        """bodies whose def path ends with `suffix` (on a `::` boundary or whole)"""
        out = []
        for n, b in self.bodies.items():
            if n == suffix or n.endswith("::" + suffix) or n.endswith(suffix) and suffix.startswith("<"):
                out.append(b)
        return out

    def one(self, suffix):
        r = self.find(suffix)
        if len(r) != 1:
            raise AnchorMissing("role `%s` resolves to %d bodies in %s" % (suffix, len(r), self.label))
        return r[0]

    def closures_of(self, body, recursive=True):
        out = []
        for c in self._closures_by_parent.get(body.name, []):
            out.append(c)
            if recursive:
                out.extend(self.closures_of(c, True))
        return out

    def adt(self, suffix):
        r = [a for p, a in self.adts.items() if p == suffix or p.endswith("::" + suffix)]
        if len(r) != 1:
            raise AnchorMissing("ADT `%s` resolves to %d definitions in %s" % (suffix, len(r), self.label))
        return r[0]

    def variant_names(self, adt_path):
        """{discriminant value: variant name} for crate ADTs and the std enums we rely on"""
        a = self.adts.get(adt_path)
        if a:
            return {v["discr"]: v["name"] for v in a["variants"]}
        return STD_ENUMS.get(adt_path)


class AnchorMissing(Exception):
    pass


STD_ENUMS = {
    "std::option::Option": {0: "None", 1: "Some"},
    "std::result::Result": {0: "Ok", 1: "Err"},
    "std::ops::ControlFlow": {0: "Continue", 1: "Break"},
    "std::sync::mpsc::TryRecvError": {0: "Empty", 1: "Disconnected"},
    "std::sync::mpmc::TryRecvError": {0: "Empty", 1: "Disconnected"},
    "std::cmp::Ordering": {-1: "Less", 0: "Equal", 1: "Greater"},
    "std::borrow::Cow": {0: "Borrowed", 1: "Owned"},
}

# ------------------------------------------------------------------ callee classes

TRY_BRANCH = ("std::ops::Try::branch", "<std::result::Result<T, E> as std::ops::Try>::branch",
              "<std::option::Option<T> as std::ops::Try>::branch")
FROM_RESIDUAL = ("std::ops::FromResidual::from_residual",
                 "<std::result::Result<T, F> as std::ops::FromResidual<std::result::Result<std::convert::Infallible, E>>>::from_residual",
                 "<std::option::Option<T> as std::ops::FromResidual<std::option::Option<std::convert::Infallible>>>::from_residual")


def is_try_branch(term):
    return any(n in TRY_BRANCH for n in callee_names(term))


def is_from_residual(term):
    return any(n in FROM_RESIDUAL or n.endswith("::from_residual") for n in callee_names(term))


# value-preserving callees: the result *is* (a view of / a wrapper around) argument 0
TRANSPARENT = {
    "std::ops::Deref::deref", "std::ops::DerefMut::deref_mut", "std::convert::AsRef::as_ref", "std::convert::AsMut::as_mut",
    "std::borrow::Borrow::borrow", "std::clone::Clone::clone", "std::convert::Into::into", "std::convert::From::from",
    "std::borrow::ToOwned::to_owned",
    "<std::string::String as std::ops::Deref>::deref", "<std::path::PathBuf as std::ops::Deref>::deref",
    "<std::vec::Vec<T, A> as std::ops::Deref>::deref", "<std::vec::Vec<T, A> as std::ops::DerefMut>::deref_mut",
    "<std::sync::Arc<T, A> as std::ops::Deref>::deref", "<std::boxed::Box<T, A> as std::ops::Deref>::deref",
    "<std::string::String as std::clone::Clone>::clone", "<std::path::PathBuf as std::clone::Clone>::clone",
    "<T as std::convert::Into<U>>::into", "<T as std::convert::From<T>>::from",
    "<std::path::PathBuf as std::convert::AsRef<std::path::Path>>::as_ref",
    "<std::path::Path as std::convert::AsRef<std::path::Path>>::as_ref",
    "<std::string::String as std::convert::AsRef<str>>::as_ref", "<str as std::convert::AsRef<str>>::as_ref",
    "<std::string::String as std::convert::AsRef<std::path::Path>>::as_ref",
    "<str as std::convert::AsRef<std::path::Path>>::as_ref",
    "<std::path::PathBuf as std::convert::From<&T>>::from", "<std::path::PathBuf as std::convert::From<std::string::String>>::from",
    "std::path::PathBuf::as_path", "std::path::Path::to_path_buf", "std::string::String::as_str", "std::string::String::as_bytes",
    "std::str::<impl str>::as_bytes", "std::str::<impl str>::as_str", "std::vec::Vec::<T, A>::as_slice",
    "std::vec::Vec::<T, A>::as_mut_slice", "std::path::Path::new", "std::path::Path::as_os_str",
    "std::ffi::OsStr::to_os_string", "std::ffi::OsString::as_os_str",
    "<str as std::string::ToString>::to_string", "<std::string::String as std::string::ToString>::to_string",
    "<str as std::borrow::ToOwned>::to_owned", "<std::path::Path as std::borrow::ToOwned>::to_owned",
    "std::option::Option::<T>::as_ref", "std::option::Option::<T>::as_mut", "std::option::Option::<T>::take",
    "std::option::Option::<T>::as_deref", "std::option::Option::<T>::as_deref_mut", "std::result::Result::<T, E>::as_deref",
    "std::option::Option::<&T>::cloned", "std::option::Option::<&T>::copied",
    "std::option::Option::<T>::unwrap_or_default", "std::result::Result::<T, E>::as_ref",
    "std::mem::take", "std::mem::replace",
    # conversions between Option and Result keep the success payload
    "std::option::Option::<T>::ok_or", "std::option::Option::<T>::ok_or_else", "std::result::Result::<T, E>::ok",
}

# the `?` desugaring and error decorators: the value is argument 0 (possibly with a changed error)
ERR_DECORATORS_SUFFIX = (
    "::change_context", "::change_context_lazy", "::attach_printable", "::attach_printable_lazy", "::attach",
    "::attach_lazy", "Result::<T, E>::map_err",
)


def is_transparent(term, extra=()):
    for n in callee_names(term):
        if n in TRANSPARENT or n in extra:
            return True
        if n == "<T as std::string::ToString>::to_string":
            # the blanket impl: transparent only for strings (for other types it is their Display rendering)
            ta = term["callee"].get("targs") or []
            if ta and ta[0]["ty"] in ("str", "std::string::String", "&str"):
                return True
    return False


def is_err_decorator(term):
    for n in callee_names(term):
        if n.endswith(ERR_DECORATORS_SUFFIX):
            return True
    return False


# ------------------------------------------------------------------ backward value tracing (intra)


class Leaf:
    """An origin of a value inside one body."""
    __slots__ = ("kind", "bb", "data", "neg", "via")

    def __init__(self, kind, bb=None, data=None, neg=False, via=()):
        self.kind = kind      # call | const | param | field | binop | unop | aggregate | discr | upvar | other
        self.bb = bb
        self.data = data
        self.neg = neg
        self.via = via        # tuple of transparent callee names passed on the way

    def __repr__(self):
        return "Leaf(%s, bb=%s, %s%s)" % (self.kind, self.bb, self._d(), ", neg" if self.neg else "")

    def _d(self):
        if self.kind == "call":
            return callee_name(self.data)
        if self.kind == "const":
            return op_const(self.data)
        if self.kind in ("field", "upvar"):
            return pl_str(self.data)
        if self.kind == "param":
            return "#%s" % self.data
        if self.kind == "binop":
            return self.data["op"]
        return ""

    def callee(self):
        return callee_name(self.data) if self.kind == "call" else None


def trace(body, op_or_place, transparent=is_transparent, through_try=True, through_decorators=False,
          through_fields=False, depth=60):
    """Backward slice of a value inside `body` to its leaf origins.

    Walks assignments (use/ref/cast/copyforderef), `Not` (polarity), transparent calls (argument 0),
    `Try::branch` (argument 0) and `discriminant(place)` is a leaf of kind 'discr' whose data carries
    the place; the caller may continue from it with trace(body, place).
    """
    leaves = []
    seen = set()

    def from_place(pl, neg, via, d):
        l = pl["l"]
        proj = pl["p"]
        # strip derefs and downcasts that do not select a user field:
        fields = [e for e in proj if e["k"] in ("field", "index", "constindex", "subslice")]
        if fields:
            wrappers = ("std::option::Option", "std::result::Result", "std::ops::ControlFlow")
            if any(e["k"] == "field" and e.get("owner") in ("std::result::Result", "std::ops::ControlFlow") and e.get("variant") in ("Err", "Break")
                   for e in fields):
                leaves.append(Leaf("errpayload", None, pl, neg, via))      # the error side of a Result: not the success payload
                return
            # payload of Option/Result/ControlFlow is the container (transparent wrappers)
            if all(e["k"] == "field" and e.get("owner") in wrappers for e in fields):
                from_local(l, neg, via, d)
                return
            # field-sensitive through locally built structs / tuples: `s = StepOutput { text, has_tail }; .. Ok(Some(s))? .. step.text`
            # continues at the operand the aggregate was built with (every origin of the base value must be such an aggregate)
            k0 = next((i for i, e in enumerate(proj) if e["k"] == "field" and e.get("owner") not in wrappers and not e.get("upvar")), None)
            if k0 is not None and all(e["k"] in ("deref", "downcast") or (e["k"] == "field" and e.get("owner") in wrappers) for e in proj[:k0]):
                f = proj[k0]
                srcs = _agg_sources(body, l, f, transparent)
                if srcs:
                    rest = proj[k0 + 1:]
                    for (abb, ops) in srcs:
                        o = ops[f["i"]]
                        if rest and o.get("k") in ("copy", "move"):
                            from_place({"l": o["pl"]["l"], "p": o["pl"]["p"] + rest}, neg, via, d - 1)
                        elif not [e for e in rest if e["k"] != "deref"]:
                            from_op(o, neg, via, d - 1)
                        else:
                            leaves.append(Leaf("field", None, pl, neg, via))
                    return
            # `(x as Some).0.1`: a tuple inside a wrapper payload — the wrapper is transparent, the tuple field is handled below
            if any(e["k"] == "field" and e.get("owner") in wrappers for e in fields) and \
                    all(e["k"] == "field" and e.get("owner") in wrappers + ("(tuple)",) for e in fields):
                fields = [e for e in fields if e.get("owner") == "(tuple)"]
            if all(e["k"] == "field" and e.get("owner") == "(tuple)" for e in fields) and not body.is_param(l):
                # field-sensitive through locally built tuples: `_t = (a, b); .. _t.1` -> b
                ds = body.defs().get(l, [])
                if len(fields) == 1 and ds and all(r[0] == "assign" and r[3]["rv"]["k"] == "aggregate"
                                                     and r[3]["rv"]["agg"]["k"] == "tuple" for r in ds):
                    for r in ds:
                        ops = r[3]["rv"]["ops"]
                        if fields[0]["i"] < len(ops):
                            from_op(ops[fields[0]["i"]], neg, via, d - 1)
                    return
                from_local(l, neg, via, d)
                return
            # upvar read of an INLINED closure: the environment local was assigned `&closure` where closure = closure{ops}
            if fields and fields[0].get("upvar") and not (l == 1 and body.kind == "Closure"):
                cl_ops = _closure_ops(body, l)
                if cl_ops is not None and fields[0]["i"] < len(cl_ops):
                    if len(fields) == 1:
                        from_op(cl_ops[fields[0]["i"]], neg, via, d - 1)
                        return
                    cop = cl_ops[fields[0]["i"]]
                    if cop.get("k") in ("copy", "move"):
                        # a field of the captured value: continue on the captured place extended by the remaining projection
                        k0 = proj.index(fields[0])
                        from_place({"l": cop["pl"]["l"], "p": cop["pl"]["p"] + proj[k0 + 1:]}, neg, via, d - 1)
                        return
            if through_fields:
                leaves.append(Leaf("field", None, pl, neg, via))
                from_local(l, neg, via, d)
                return
            # upvar of a closure body: _1 is the closure environment
            if l == 1 and body.kind == "Closure" and any(e.get("upvar") for e in fields):
                leaves.append(Leaf("upvar", None, pl, neg, via))
                return
            leaves.append(Leaf("field", None, pl, neg, via))
            return
        from_local(l, neg, via, d)

    def from_op(op, neg, via, d):
        if op["k"] in ("copy", "move"):
            from_place(op["pl"], neg, via, d)
        elif op["k"] == "const":
            leaves.append(Leaf("const", None, op, neg, via))
        else:
            leaves.append(Leaf("other", None, op, neg, via))

    def from_local(l, neg, via, d):
        key = (l, neg)
        if key in seen or d <= 0:
            return
        seen.add(key)
        ds = body.defs().get(l, [])
        found = False
        for rec in ds:
            kind = rec[0]
            if kind == "assign":
                found = True
                _, bb, si, st = rec
                rv = st["rv"]
                k = rv["k"]
                if k == "use":
                    from_op(rv["op"], neg, via, d - 1)
                elif k in ("ref", "copyforderef", "rawptr"):
                    from_place(rv["pl"], neg, via, d - 1)
                elif k == "cast":
                    from_op(rv["op"], neg, via, d - 1)
                elif k == "unop" and rv["op"] == "Not":
                    from_op(rv["a"], not neg, via, d - 1)
                elif k == "discriminant":
                    leaves.append(Leaf("discr", bb, rv, neg, via))
                elif k == "binop":
                    leaves.append(Leaf("binop", bb, rv, neg, via))
                elif k == "unop":
                    leaves.append(Leaf("unop", bb, rv, neg, via))
                elif k == "aggregate":
                    a = rv["agg"]
                    if a["k"] == "adt" and a["adt"] in ("std::result::Result", "std::ops::ControlFlow") and a["variant"] in ("Err", "Break"):
                        pass      # an error value: not a carrier of the success payload (text, handle, path)
                    elif a["k"] == "adt" and a["adt"] == "std::option::Option" and a["variant"] == "None":
                        pass      # no payload at all
                    elif a["k"] == "adt" and a["adt"] in ("std::option::Option", "std::result::Result", "std::ops::ControlFlow") \
                            and len(rv["ops"]) == 1:
                        from_op(rv["ops"][0], neg, via, d - 1)      # Some(x) / Ok(x) wrap x
                    else:
                        leaves.append(Leaf("aggregate", bb, rv, neg, via))
                else:
                    leaves.append(Leaf("other", bb, rv, neg, via))
            elif kind == "call":
                _, bb, t = rec
                if t["dest"]["p"]:
                    continue
                found = True
                nm = callee_name(t)
                if is_from_residual(t):
                    # `?` error exit: the value is only the residual error, never the success payload (no text, no handle)
                    continue
                if t["args"] and (transparent(t) or (through_try and is_try_branch(t))
                                  or (through_decorators and is_err_decorator(t))):
                    from_op(t["args"][0], neg, via + (nm,), d - 1)
                else:
                    leaves.append(Leaf("call", bb, t, neg, via))
            elif kind == "passign":
                # partial assignment (field init of a local struct / tuple): treat as contributing
                _, bb, si, st = rec
                if st["k"] == "assign" and through_fields:
                    found = True
                    rv = st["rv"]
                    if rv["k"] == "use":
                        from_op(rv["op"], neg, via, d - 1)
        if body.is_param(l):
            leaves.append(Leaf("param", None, l, neg, via))
            found = True
        if not found:
            if l == 0:
                return
            leaves.append(Leaf("other", None, {"local": l}, neg, via))

    if "k" in op_or_place and op_or_place["k"] in ("copy", "move", "const", "runtime_checks"):
        from_op(op_or_place, False, (), depth)
    else:
        from_place(op_or_place, False, (), depth)
    return leaves


def _agg_sources(body, l, f, transparent, depth=60):
    """[(bb, ops)] of the struct / tuple aggregates that are the ONLY origins of local `l` (followed through moves, refs, Some/Ok
    wrappers and their payload reads, `?`, error decorators and transparent calls), all of the ADT that field `f` belongs to;
    None when some origin is anything else (a parameter, a call result, a partially assigned local ..)"""
    wrappers = ("std::option::Option", "std::result::Result", "std::ops::ControlFlow")
    out = []
    seen = set()
    work = [(l, depth)]
    while work:
        x, d = work.pop()
        if x in seen:
            continue
        seen.add(x)
        if d <= 0 or body.is_param(x):
            return None
        ds = body.defs().get(x, [])
        if not ds:
            return None
        for rec in ds:
            if rec[0] == "passign":
                return None
            if rec[0] == "call":
                t = rec[2]
                if t["dest"]["p"]:
                    return None
                if is_from_residual(t):
                    continue
                if t["args"] and (transparent(t) or is_try_branch(t) or is_err_decorator(t)):
                    p = op_place(t["args"][0])
                    if p is None or any(e["k"] not in ("deref", "downcast") and not (e["k"] == "field" and e.get("owner") in wrappers) for e in p["p"]):
                        return None
                    work.append((p["l"], d - 1))
                    continue
                return None
            if rec[0] != "assign":
                return None
            rv = rec[3]["rv"]
            if rv["k"] in ("use", "cast", "ref", "copyforderef"):
                p = op_place(rv["op"]) if rv["k"] in ("use", "cast") else rv["pl"]
                if p is None or any(e["k"] not in ("deref", "downcast") and not (e["k"] == "field" and e.get("owner") in wrappers) for e in p["p"]):
                    return None
                work.append((p["l"], d - 1))
            elif rv["k"] == "aggregate":
                a = rv["agg"]
                if a["k"] == "adt" and a["adt"] in wrappers:
                    if a["variant"] in ("Err", "Break", "None"):
                        continue
                    if len(rv["ops"]) != 1 or op_place(rv["ops"][0]) is None or op_place(rv["ops"][0])["p"]:
                        return None
                    work.append((op_place(rv["ops"][0])["l"], d - 1))
                elif (a["k"] == "tuple" and f.get("owner") == "(tuple)") or \
                        (a["k"] == "adt" and a["adt"] == f.get("owner") and (f.get("vi") is None or a.get("vi") == f.get("vi"))):
                    if f["i"] >= len(rv["ops"]):
                        return None
                    out.append((rec[1], rv["ops"]))
                else:
                    return None
            else:
                return None
    return out or None


def _closure_ops(body, l, depth=6):
    """operands captured by the closure aggregate that local `l` (a closure value or a reference to one) was built from"""
    seen = set()
    while depth > 0 and l not in seen:
        seen.add(l)
        depth -= 1
        ds = [r for r in body.defs().get(l, []) if r[0] == "assign"]
        if len(ds) != 1:
            return None
        rv = ds[0][3]["rv"]
        if rv["k"] == "aggregate" and rv["agg"]["k"] == "closure":
            return rv["ops"]
        if rv["k"] in ("ref", "copyforderef"):
            if any(e["k"] not in ("deref",) for e in rv["pl"]["p"]):
                return None
            l = rv["pl"]["l"]
        elif rv["k"] == "use" and rv["op"]["k"] in ("copy", "move") and not [e for e in rv["op"]["pl"]["p"] if e["k"] != "deref"]:
            l = rv["op"]["pl"]["l"]
        else:
            return None
    return None


# ------------------------------------------------------------------ conditions of switches


class Cond:
    """What a switchInt tests.  kind:
       'enum'  discriminant of a value of ADT `adt`; `src` = leaves the scrutinee derives from
       'bool'  a boolean; `src` = leaves (calls / binops / params / fields), each with .neg polarity
       'int'   an integer (match on usize ...); `src` = leaves
    """

    def __init__(self, kind, bb, adt=None, src=(), place=None):
        self.kind = kind
        self.bb = bb
        self.adt = adt
        self.src = list(src)
        self.place = place

    def __repr__(self):
        return "Cond(%s bb%d %s %s)" % (self.kind, self.bb, self.adt or "", self.src)

    def src_callees(self):
        return [l.callee() for l in self.src if l.kind == "call"]


def switch_cond(body, bb):
    t = body.term(bb)
    assert t["k"] == "switch"
    leaves = trace(body, t["discr"], through_decorators=True)
    if len(leaves) >= 1 and all(l.kind == "discr" for l in leaves):
        rv = leaves[0].data
        adt = rv.get("adt")
        src = []
        for l in leaves:
            src.extend(trace(body, l.data["pl"], through_decorators=True))
        return Cond("enum", bb, adt=adt, src=src, place=rv["pl"])
    kind = "bool" if t["dty"] == "bool" else "int"
    return Cond(kind, bb, src=leaves)


def edge_variants(body, bb, cond, prog):
    """for an enum switch: [(edge_id, succ, set of variant names covered)]"""
    names = prog.variant_names(cond.adt) if cond.adt else None
    out = []
    for eid, succ, lab in body.edges(bb):
        if lab is None:
            continue
        if lab[0] == "val":
            vs = {names.get(lab[1], lab[1]) if names else lab[1]}
        else:
            if names:
                vs = {n for v, n in names.items() if v not in lab[1]}
            else:
                vs = {"otherwise"}
        out.append((eid, succ, vs))
    return out


def bool_edges(body, bb):
    """for a bool switch: {False: edge_id, True: edge_id}"""
    t = body.term(bb)
    res = {}
    for eid, succ, lab in body.edges(bb):
        if lab is None:
            continue
        if lab[0] == "val":
            res[bool(lab[1])] = eid
        else:
            # otherwise: the complement
            if 0 in lab[1] and True not in res:
                res[True] = eid
            elif 0 not in lab[1] and False not in res:
                res[False] = eid
    return res


def eq_variant_test(body, leaf, adt, all_variants):
    """`x == Adt::V` / `x != Adt::V` (derived PartialEq): -> (variant, is_ne) if `leaf` is such a call, else None"""
    if leaf.kind != "call":
        return None
    nm = callee_name(leaf.data)
    is_eq = nm in ("<%s as std::cmp::PartialEq>::eq" % adt,)
    is_ne = nm in ("<%s as std::cmp::PartialEq>::ne" % adt,)
    if not (is_eq or is_ne) and nm in ("std::cmp::PartialEq::ne", "std::cmp::PartialEq::eq"):
        ta = leaf.data["callee"].get("targs") or []
        if ta and ta[0].get("adt") == adt:
            is_ne = nm.endswith("::ne")
            is_eq = not is_ne
    if not (is_eq or is_ne):
        return None
    var = None
    for a in leaf.data["args"]:
        for l2 in trace(body, a):
            if l2.kind == "const":
                ev = l2.data.get("enum_variant")
                if ev in all_variants:
                    var = ev
                v = op_const(l2.data) or ""
                for m in all_variants:
                    if v.endswith("::" + m):
                        var = m
            if l2.kind == "aggregate" and l2.data["agg"]["k"] == "adt" and l2.data["agg"]["adt"] == adt:
                var = l2.data["agg"]["variant"]
    if var is None:
        return None
    return var, is_ne


def switches(body, live_only=True):
    live = body.live_blocks() if live_only else None
    for bb, blk in enumerate(body.blocks):
        if blk["cleanup"] or (live is not None and bb not in live):
            continue
        if blk["term"]["k"] == "switch":
            yield bb


# ------------------------------------------------------------------ guard edge selection (P-cut)


def guard_edges(body, prog, pred, strict=False):
    """Collect the CFG edges selected by `pred(cond, polarity_or_variants, leaf)`.

    For bool switches pred is called per source leaf with value = the truth value of *that leaf*
    on the edge (polarity through `Not` is already applied): pred(cond, value: bool, leaf).
    For enum switches pred is called per edge: pred(cond, variants: set[str], None).
    For int switches: pred(cond, label, None) with label = ('val', v) | ('otherwise', excluded).
    Returns the set of edge ids for which pred returned True.
    strict: an edge of a bool switch that a LITERAL origin of the tested value also takes is not returned (the predicate says nothing
    about how that origin got there); the default accepts the edge when any origin satisfies pred.
    """
    out = set()
    for bb in switches(body):
        c = switch_cond(body, bb)
        if c.kind == "enum":
            for eid, succ, vs in edge_variants(body, bb, c, prog):
                if pred(c, vs, None):
                    out.add(eid)
        elif c.kind == "bool":
            be = bool_edges(body, bb)
            for val, eid in be.items():
                # a literal among the origins of the tested value (`let wait = match mode { Verify => false, _ => f() }`) reaches the
                # edge it agrees with WITHOUT the predicate holding: such an edge says nothing about the other origins
                by_literal = any(leaf.kind == "const" and op_const(leaf.data) in ("true", "false") and
                                 (op_const(leaf.data) == "true") == ((not val) if leaf.neg else val) for leaf in c.src)
                if by_literal and strict:
                    continue
                for leaf in c.src:
                    v = (not val) if leaf.neg else val
                    if pred(c, v, leaf):
                        out.add(eid)
        else:
            for eid, succ, lab in body.edges(bb):
                if lab is not None and pred(c, lab, None):
                    out.add(eid)
    return out


# ------------------------------------------------------------------ flag-sensitive reachability
# `matches!(x, A | B)`, `let b = p && q` and drop elaboration materialise bool temporaries that are
# assigned `const true/false` in different blocks and switched on later.  Plain graph reachability
# would treat both edges of such a switch as feasible from every predecessor.  explore() walks the
# product of the normal-flow CFG with the values of these *constant-only* bool locals, so that P-cut
# and P-region see through `matches!` and drop flags.  This is constant propagation over a finite
# domain, not symbolic execution: only locals whose every definition is a literal (or a copy of such
# a local) are tracked; every other switch keeps all its edges.


def _payload_read(body, op, tags, want="b"):
    """`(X as V).0` read of a tracked local X whose payload is a bool (want='b') / a nested Option/Result (want='t')
    -> (X, vi) else None"""
    if op.get("k") not in ("copy", "move"):
        return None
    pl = op["pl"]
    if pl["l"] not in tags or _payload_kind(body.locals[pl["l"]]["ty"]) != want:
        return None
    pr = [e for e in pl["p"] if e["k"] != "deref"]
    if len(pr) == 2 and pr[0]["k"] == "downcast" and pr[1]["k"] == "field" and pr[1].get("i") == 0:
        return (pl["l"], pr[0]["vi"])
    if len(pr) == 1 and pr[0]["k"] == "field" and pr[0].get("i") == 0 and pr[0].get("vi") is not None:
        return (pl["l"], pr[0]["vi"])
    return None


def _split_targs(ty):
    """top-level generic arguments of a type string `Head<A, B<C>, D>` -> (head, [A, B<C>, D])"""
    i = ty.find("<")
    if i < 0 or not ty.endswith(">"):
        return ty, []
    head, inner = ty[:i], ty[i + 1:-1]
    args, depth, cur = [], 0, ""
    for ch in inner:
        if ch in "<([":
            depth += 1
        elif ch in ">)]":
            depth -= 1
        if ch == "," and depth == 0:
            args.append(cur.strip())
            cur = ""
        else:
            cur += ch
    if cur.strip():
        args.append(cur.strip())
    return head, args


def _payload_kind(ty):
    """what the success payload of an Option/Result/ControlFlow type is, as far as explore() can track it:
    'b' a bool, 't' another Option/Result (its variant), None anything else"""
    head, args = _split_targs(ty)
    if head in ("std::option::Option", "std::result::Result") and args:
        pt = args[0]
    elif head == "std::ops::ControlFlow" and len(args) == 2:
        pt = args[1]
    else:
        return None
    if pt == "bool":
        return "b"
    if _split_targs(pt)[0] in ("std::option::Option", "std::result::Result") or _split_targs(pt)[0] in CRATE_ENUMS:
        return "t"
    return None


# paths of the enums defined by the analysed crates (filled by Program): an enum of the crate as the success payload of a Result is
# tracked like a nested Option (`fn cmp() -> io::Result<Compared>` followed by `match cmp()? { Same => .., Different => .. }`)
CRATE_ENUMS = set()


def _has_bool_payload(ty):
    return _payload_kind(ty) == "b"


def tracked_flags(body):
    """bool locals whose every definition is a literal, a copy of such a local, or the bool payload of a tracked
    Option/Result/ControlFlow local (`let up_to_date = helper()?` where the inlined helper returns Ok(true) / Ok(false))"""
    if getattr(body, "_flags", None) is not None:
        return body._flags
    tags = tracked_tags(body)[0]
    cand = set()
    for l, decl in enumerate(body.locals):
        if decl["ty"] != "bool" or body.is_param(l) or l == 0:
            continue
        ds = body.defs().get(l, [])
        if not ds:
            continue
        cand.add(l)
    # a local is worth tracking when at least one of its definitions gives a known value (a literal, a copy of a tracked flag, the
    # bool payload of a tracked tag local); its other definitions (a call result, a comparison) make it unknown on that path
    changed = True
    while changed:
        changed = False
        for l in list(cand):
            useful = False
            for rec in body.defs().get(l, []):
                if rec[0] == "assign" and not rec[3]["lhs"]["p"] and rec[3]["rv"]["k"] == "use":
                    op = rec[3]["rv"]["op"]
                    if op["k"] == "const" and op_const(op) in ("true", "false"):
                        useful = True
                    elif op["k"] in ("copy", "move") and not op["pl"]["p"] and op["pl"]["l"] in cand:
                        useful = True
                    elif _payload_read(body, op, tags) is not None:
                        useful = True
                elif rec[0] == "assign" and not rec[3]["lhs"]["p"] and rec[3]["rv"]["k"] == "unop" and rec[3]["rv"].get("op") == "Not":
                    a = rec[3]["rv"]["a"]
                    if a.get("k") in ("copy", "move") and not a["pl"]["p"] and a["pl"]["l"] in cand:
                        useful = True       # `!flag`
            if not useful:
                cand.discard(l)
                changed = True
    body._flags = cand
    return cand


TAG_ADTS = {"std::option::Option": {"None": 0, "Some": 1}, "std::result::Result": {"Ok": 0, "Err": 1},
            "std::ops::ControlFlow": {"Continue": 0, "Break": 1}}
# Try::branch maps the variant of its argument: Ok/Some -> Continue(0), Err/None -> Break(1)
BRANCH_MAP = {("std::result::Result", 0): 0, ("std::result::Result", 1): 1, ("std::option::Option", 1): 0, ("std::option::Option", 0): 1}
IDENT_RESULT = {("std::result::Result", 0): 0, ("std::result::Result", 1): 1}


# value-preserving conversions between Option and Result: (source adt, source variant index) -> destination variant index
TAG_CONVERSIONS = {
    "std::option::Option::<T>::ok_or": {("std::option::Option", 1): 0, ("std::option::Option", 0): 1},
    "std::option::Option::<T>::ok_or_else": {("std::option::Option", 1): 0, ("std::option::Option", 0): 1},
    "std::result::Result::<T, E>::ok": {("std::result::Result", 0): 1, ("std::result::Result", 1): 0},
    "std::result::Result::<T, E>::map_err": IDENT_RESULT,
    "std::result::Result::<T, E>::map": IDENT_RESULT,
    "std::option::Option::<T>::map": {("std::option::Option", 0): 0, ("std::option::Option", 1): 1},
}
# conversions that also keep the success payload itself
PAYLOAD_KEEPING = ("std::option::Option::<T>::ok_or", "std::option::Option::<T>::ok_or_else", "std::result::Result::<T, E>::ok",
                   "std::result::Result::<T, E>::map_err")


def _tag_conversion(term):
    """variant mapping of a call whose result's variant is determined by the variant of argument 0, or None"""
    if is_try_branch(term):
        return BRANCH_MAP, True
    n = callee_name(term)
    if n in TAG_CONVERSIONS:
        return TAG_CONVERSIONS[n], n in PAYLOAD_KEEPING
    if is_err_decorator(term):
        return IDENT_RESULT, True       # change_context / attach_printable ..: same variant, same success payload
    return None, False


PROBE_TRUE_VI = {"std::option::Option::<T>::is_some": ("std::option::Option", 1), "std::option::Option::<T>::is_none": ("std::option::Option", 0),
                 "std::result::Result::<T, E>::is_ok": ("std::result::Result", 0), "std::result::Result::<T, E>::is_err": ("std::result::Result", 1)}


def probe_switches(body):
    """{switch block: (probed local x, variant index for which the probe is true)} for `if x.is_some()` / `is_none` / `is_ok` / `is_err`
    on a whole local: the call's only successor is the switch on its result, and nothing in between assigns x"""
    r = getattr(body, "_probes", None)
    if r is not None:
        return r
    r = {}
    for bb, blk in enumerate(body.blocks):
        t = blk["term"]
        if blk["cleanup"] or t["k"] != "call" or t.get("t") is None or callee_name(t) not in PROBE_TRUE_VI or not t["args"]:
            continue
        sb = t["t"]
        st_ = body.blocks[sb]["term"]
        if st_["k"] != "switch" or st_["discr"].get("k") not in ("copy", "move") or st_["discr"]["pl"]["p"] or \
                st_["discr"]["pl"]["l"] != t["dest"]["l"] or t["dest"]["p"]:
            continue
        if len([1 for pb in body.normal_blocks() for (s_, lab) in body.raw_succs(pb) if s_ == sb]) != 1:
            continue
        a = op_place(t["args"][0])
        if a is None or a["p"]:
            continue
        ds = body.defs().get(a["l"], [])
        if len(ds) != 1 or ds[0][0] != "assign" or ds[0][3]["rv"]["k"] != "ref" or ds[0][3]["rv"]["pl"]["p"]:
            continue
        x = ds[0][3]["rv"]["pl"]["l"]
        if ds[0][1] != bb:
            continue       # the borrow is taken in the probing block itself
        if any(st["k"] == "assign" and st["lhs"]["l"] == x for st in body.blocks[sb]["stmts"]):
            continue
        r[sb] = (x, PROBE_TRUE_VI[callee_name(t)][1])
    body._probes = r
    return r


def tracked_tags(body):
    """locals whose *variant* is statically known along a path: every whole-local definition is an Option/Result/ControlFlow aggregate,
    a move/copy of such a local, or Try::branch of one; plus the integer locals holding `discriminant(<tracked>)`.
    This is what makes an inlined helper `fn f() -> Result<..> { if c { return Err(..) } Ok(()) }` followed by `?` path-sensitive."""
    if getattr(body, "_tags", None) is not None:
        return body._tags
    cand = {}
    prog_adts = body.prog.adts if body.prog is not None else {}
    for l, decl in enumerate(body.locals):
        if body.is_param(l) or decl["ty"].startswith("&"):
            continue
        adt = decl.get("adt")
        if adt in TAG_ADTS or (adt in prog_adts and prog_adts[adt]["kind"] == "Enum"):
            cand[l] = adt
    # every whole-local definition either determines the variant (aggregate, move of a tracked local, Try::branch / conversion of
    # a tracked local, from_residual) or makes it unknown (None) — unknown definitions do not stop the tracking of the local
    # ... or whose variant is learnt from a `match` on it (discriminant read + switch)
    matched = set()
    for bb, si, st in body.stmts(live_only=False):
        if st["k"] == "assign" and st["rv"]["k"] == "discriminant" and not st["rv"]["pl"]["p"]:
            matched.add(st["rv"]["pl"]["l"])
    matched |= {x for (x, vi) in probe_switches(body).values()}
    for l in list(cand):
        ds = body.defs().get(l, [])
        if not ds or not any(r[0] in ("assign", "call") for r in ds):
            del cand[l]
            continue
        useful = l in matched
        for rec in ds:
            if rec[0] == "assign":
                rv = rec[3]["rv"]
                if rv["k"] == "aggregate" and rv["agg"]["k"] == "adt" and rv["agg"]["adt"] == cand[l]:
                    useful = True
                elif rv["k"] == "use" and rv["op"]["k"] in ("copy", "move") and not rv["op"]["pl"]["p"]:
                    useful = True
                elif rv["k"] == "use" and rv["op"]["k"] in ("copy", "move") and rv["op"]["pl"]["l"] in cand and \
                        _payload_kind(body.locals[rv["op"]["pl"]["l"]]["ty"]) == "t":
                    useful = True       # `let opt = (res as Ok).0`: the nested variant travels as res's payload
            elif rec[0] == "call" and (is_from_residual(rec[2]) or _tag_conversion(rec[2])[0] is not None):
                useful = True
        if not useful:
            del cand[l]
    # integer locals that read the discriminant of a tracked local
    discr = {}
    for l in range(len(body.locals)):
        ds = body.defs().get(l, [])
        if len(ds) >= 1 and all(r[0] == "assign" and r[3]["rv"]["k"] == "discriminant" and not r[3]["rv"]["pl"]["p"]
                                and r[3]["rv"]["pl"]["l"] in cand for r in ds):
            discr[l] = True
    body._tags = (cand, discr)
    return body._tags


class _Slots:
    """environment layout of explore(): one slot per tracked flag / tag / bool payload of a tag local / discriminant temp"""

    def __init__(self, body):
        tags, discr = tracked_tags(body)
        flags = sorted(tracked_flags(body))
        self.tags = tags
        self.idx, self.tidx, self.pidx, self.didx = {}, {}, {}, {}
        n = 0
        for l in flags:
            self.idx[l] = n; n += 1
        for l in sorted(tags):
            self.tidx[l] = n; n += 1
        for l in sorted(tags):
            if tags[l] in TAG_ADTS and _payload_kind(body.locals[l]["ty"]) is not None:
                self.pidx[l] = n; n += 1
        for l in sorted(discr):
            self.didx[l] = n; n += 1
        self.n = n


def _slots(body):
    if getattr(body, "_slots", None) is None:
        body._slots = _Slots(body)
    return body._slots


def _tracked_liveness(body, S):
    """per block: the env slots whose local is dead on entry (nobody reads the value any more): forgetting them keeps the
    product state space small"""
    if getattr(body, "_tlive", None) is not None:
        return body._tlive
    tracked = set(S.idx) | set(S.tidx) | set(S.didx)
    probes = probe_switches(body)
    nb = len(body.blocks)
    gen = [set() for _ in range(nb)]
    kill = [set() for _ in range(nb)]

    def reads_op(op, acc):
        # any read of a tracked local (also through a projection: the payload of a tag local)
        if op and op.get("k") in ("copy", "move") and op["pl"]["l"] in tracked:
            acc.add(op["pl"]["l"])

    for bb, blk in enumerate(body.blocks):
        if blk["cleanup"]:
            continue
        g, k = set(), set()
        t = blk["term"]
        if t["k"] == "switch":
            reads_op(t["discr"], g)
            if bb in probes and probes[bb][0] in tracked:
                g.add(probes[bb][0])
        elif t["k"] == "drop":
            if t["pl"]["l"] in tracked:
                g.add(t["pl"]["l"])      # which variant is being dropped matters to the error-discipline rules
        elif t["k"] == "call":
            if not t["dest"]["p"] and t["dest"]["l"] in tracked:
                k.add(t["dest"]["l"])
            r = set()
            if t["args"]:
                reads_op(t["args"][0], r)
            g = (g - k) | r
        for st in reversed(blk["stmts"]):
            if st["k"] != "assign":
                continue
            r = set()
            rv = st["rv"]
            if rv["k"] == "use":
                reads_op(rv["op"], r)
            elif rv["k"] == "unop" and isinstance(rv.get("a"), dict):
                reads_op(rv["a"], r)
            elif rv["k"] == "discriminant" and rv["pl"]["l"] in tracked:
                r.add(rv["pl"]["l"])
            elif rv["k"] == "aggregate":
                for o in rv["ops"]:
                    reads_op(o, r)
            if not st["lhs"]["p"] and st["lhs"]["l"] in tracked:
                w = st["lhs"]["l"]
                g.discard(w)
                k.add(w)
            g |= r
            k -= r
        gen[bb], kill[bb] = g, k
    live_in = [set(g) for g in gen]
    changed = True
    while changed:
        changed = False
        for bb in range(nb - 1, -1, -1):
            if body.blocks[bb]["cleanup"]:
                continue
            out = set()
            for (s_, lab) in body.raw_succs(bb):
                if not body.blocks[s_]["cleanup"]:
                    out |= live_in[s_]
            new = gen[bb] | (out - kill[bb])
            if new != live_in[bb]:
                live_in[bb] = new
                changed = True
    res = []
    for bb in range(nb):
        dead = []
        for l in tracked:
            if l not in live_in[bb]:
                for m in (S.idx, S.tidx, S.pidx, S.didx):
                    if l in m:
                        dead.append(m[l])
        res.append(tuple(sorted(dead)))
    body._tlive = res
    return res


def _discr_source(body, dl, tidx):
    """(tracked local whose discriminant `dl` holds, {discriminant value: variant index}) when unambiguous"""
    cache = body.__dict__.setdefault("_dsrc", {})
    if dl not in cache:
        srcs = {r[3]["rv"]["pl"]["l"] for r in body.defs().get(dl, [])}
        res = None
        if len(srcs) == 1:
            src = next(iter(srcs))
            adt = tracked_tags(body)[0].get(src)
            if adt in TAG_ADTS:
                res = (src, {v: v for v in TAG_ADTS[adt].values()})
            elif adt is not None and body.prog is not None and adt in body.prog.adts:
                res = (src, {v["discr"]: v["vi"] for v in body.prog.adts[adt]["variants"]})
        cache[dl] = res
    r = cache[dl]
    return r if r is not None and r[0] in tidx else None


SUCCESS_VI = {"std::result::Result": 0, "std::option::Option": 1, "std::ops::ControlFlow": 0}


def explore(body, cut=None, mark_edges=None, start_env=None, start_blocks=None, cut_only_marked=False):
    """Flag- and tag-sensitive exploration from the entry.
    Returns (visited_blocks, marked_blocks, prev) where marked_blocks are the blocks visited on a
    path that took one of `mark_edges` before; prev maps state -> predecessor state (for witnesses).
    Tracked per path: constant-only bool locals, the variant of Option/Result/ControlFlow/crate-enum locals (set by aggregates,
    conversions, `?`, and learnt from the switch edges taken), and the constant bool payload of such locals."""
    S = _slots(body)
    tags = S.tags
    idx, tidx, pidx, didx = S.idx, S.tidx, S.pidx, S.didx
    env0 = tuple([None] * S.n) if start_env is None else start_env
    if start_blocks is None:
        start = (0, env0, False)
        prev = {start: None}
        dq = deque([start])
    else:
        prev = {}
        dq = deque()
        for sb in start_blocks:
            st0 = (sb, env0, True)
            prev[st0] = None
            dq.append(st0)
    visited = set()
    marked = set()
    budget = 400000
    dead_at = _tracked_liveness(body, S)
    probes = probe_switches(body)

    def op_bool(op, e):
        """constant truth value of an operand, if known"""
        if op["k"] == "const":
            c = op_const(op)
            return True if c == "true" else False if c == "false" else None
        if op["k"] in ("copy", "move") and not op["pl"]["p"] and op["pl"]["l"] in idx:
            return e[idx[op["pl"]["l"]]]
        return None

    def op_payload(op, e):
        """what is known about a value that becomes the success payload of an aggregate: ('b', bool) / ('t', variant index)"""
        bv = op_bool(op, e)
        if bv is not None:
            return ("b", bv)
        if op["k"] in ("copy", "move") and not op["pl"]["p"] and op["pl"]["l"] in tidx and \
                (tags[op["pl"]["l"]] in TAG_ADTS or tags[op["pl"]["l"]] in CRATE_ENUMS):
            v = e[tidx[op["pl"]["l"]]]
            return ("t", v) if v is not None else None
        # `Ok(move (r as Ok).0)`: re-wrapping the payload of another tracked local keeps what is known about it
        for want in ("t", "b"):
            pr = _payload_read(body, op, tags, want)
            if pr is not None and pr[0] in pidx and e[tidx[pr[0]]] == pr[1]:
                return e[pidx[pr[0]]]
        return None

    while dq:
        st = dq.popleft()
        budget -= 1
        if budget < 0:
            # state explosion: fall back to plain reachability (over-approximation: more blocks reachable, never fewer)
            vis = body.reachable(0, cut=cut)
            mk = set()
            if mark_edges:
                mk = body.reachable_from_edges(mark_edges, cut=cut)
            return vis, mk, {}
        bb, env, mk = st
        visited.add(bb)
        if mk:
            marked.add(bb)
        blk = body.blocks[bb]
        e = list(env)
        for s_ in blk["stmts"]:
            if s_["k"] != "assign" or s_["lhs"]["p"]:
                continue
            l = s_["lhs"]["l"]
            rv = s_["rv"]
            if l in idx:
                op = rv.get("op") if rv["k"] == "use" else None
                if rv["k"] == "unop" and rv.get("op") == "Not":
                    v_ = op_bool(rv["a"], e)
                    e[idx[l]] = None if v_ is None else (not v_)
                elif op is None:
                    e[idx[l]] = None
                elif op["k"] == "const":
                    c_ = op_const(op)
                    e[idx[l]] = True if c_ == "true" else False if c_ == "false" else None
                elif op["k"] not in ("copy", "move"):
                    e[idx[l]] = None
                elif not op["pl"]["p"]:
                    e[idx[l]] = e[idx[op["pl"]["l"]]] if op["pl"]["l"] in idx else None
                else:
                    pr = _payload_read(body, op, tags)
                    val = None
                    if pr is not None and pr[0] in pidx and e[tidx[pr[0]]] == pr[1]:
                        pv_ = e[pidx[pr[0]]]
                        val = pv_[1] if pv_ is not None and pv_[0] == "b" else None
                    e[idx[l]] = val
            elif l in tidx:
                if rv["k"] == "aggregate" and rv["agg"]["k"] == "adt" and rv["agg"]["adt"] == tags[l]:
                    e[tidx[l]] = rv["agg"]["vi"]
                    if l in pidx:
                        e[pidx[l]] = op_payload(rv["ops"][0], e) if len(rv["ops"]) == 1 and rv["agg"]["vi"] == SUCCESS_VI.get(tags[l]) else None
                elif rv["k"] == "use" and rv["op"]["k"] in ("copy", "move") and not rv["op"]["pl"]["p"] and rv["op"]["pl"]["l"] in tidx:
                    sl = rv["op"]["pl"]["l"]
                    e[tidx[l]] = e[tidx[sl]]
                    if l in pidx:
                        e[pidx[l]] = e[pidx[sl]] if sl in pidx else None
                elif rv["k"] == "use" and _payload_read(body, rv["op"], tags, "t") is not None:
                    # `let opt = (res as Ok).0`: the variant of the nested Option/Result that was stored as res's payload
                    X, vi = _payload_read(body, rv["op"], tags, "t")
                    pv_ = e[pidx[X]] if X in pidx and e[tidx[X]] == vi else None
                    e[tidx[l]] = pv_[1] if pv_ is not None and pv_[0] == "t" else None
                    if l in pidx:
                        e[pidx[l]] = None
                else:
                    e[tidx[l]] = None
                    if l in pidx:
                        e[pidx[l]] = None
            elif l in didx:
                vi = e[tidx[rv["pl"]["l"]]]
                adt = tags[rv["pl"]["l"]]
                if vi is not None and adt not in TAG_ADTS:
                    a = body.prog.adts.get(adt) if body.prog is not None else None
                    vi = next((v["discr"] for v in a["variants"] if v["vi"] == vi), vi) if a else vi
                e[didx[l]] = vi
        t = blk["term"]
        known = None
        if t["k"] == "call" and not t["dest"]["p"] and t["dest"]["l"] in idx:
            e[idx[t["dest"]["l"]]] = None
        if t["k"] == "call" and not t["dest"]["p"] and t["dest"]["l"] in tidx:
            dl = t["dest"]["l"]
            p = op_place(t["args"][0]) if t["args"] else None
            newp = None
            if is_from_residual(t):
                e[tidx[dl]] = {"std::result::Result": 1, "std::option::Option": 0}.get(tags[dl])
            elif p is not None and not p["p"] and p["l"] in tidx and _tag_conversion(t)[0] is not None:
                conv, keeps = _tag_conversion(t)
                src = e[tidx[p["l"]]]
                e[tidx[dl]] = conv.get((tags[p["l"]], src)) if src is not None else None
                if keeps and p["l"] in pidx and src == SUCCESS_VI.get(tags[p["l"]]):
                    newp = e[pidx[p["l"]]]
            else:
                e[tidx[dl]] = None
            if dl in pidx:
                e[pidx[dl]] = newp
        if t["k"] == "switch":
            op = t["discr"]
            if op["k"] in ("copy", "move") and not op["pl"]["p"]:
                dl = op["pl"]["l"]
                if dl in idx:
                    known = e[idx[dl]]
                    known = None if known is None else int(known)
                elif dl in didx:
                    known = e[didx[dl]]
        plearn = None
        if t["k"] == "switch" and known is None and bb in probes and probes[bb][0] in tidx:
            px, ptrue = probes[bb]
            if e[tidx[px]] is not None:
                known = int(e[tidx[px]] == ptrue)
            else:
                plearn = (px, ptrue)
        env2 = tuple(e)
        learn = None
        if t["k"] == "switch" and known is None:
            op = t["discr"]
            if op["k"] in ("copy", "move") and not op["pl"]["p"] and op["pl"]["l"] in didx:
                learn = _discr_source(body, op["pl"]["l"], tidx)
        for i, (s, lab) in enumerate(body.raw_succs(bb)):
            if body.blocks[s]["cleanup"]:
                continue
            if cut and (bb, i) in cut and (mk or not cut_only_marked):
                continue
            if known is not None and lab is not None:
                val = known
                if lab[0] == "val" and lab[1] != val:
                    continue
                if lab[0] == "otherwise" and val in lab[1]:
                    continue
            env3 = env2
            if plearn is not None and lab is not None:
                truth = (lab[1] != 0) if lab[0] == "val" else (False if lab[1] == frozenset({1}) else True if 0 in lab[1] else None)
                if truth is not None:
                    e3 = list(env2)
                    e3[tidx[plearn[0]]] = plearn[1] if truth else 1 - plearn[1]
                    env3 = tuple(e3)
            if learn is not None and lab is not None:
                # taking this edge tells which variant the scrutinee holds (until it is reassigned)
                src, all_discr = learn
                v = None
                if lab[0] == "val":
                    v = lab[1]
                elif lab[0] == "otherwise":
                    rest = [d for d in all_discr if d not in lab[1]]
                    v = rest[0] if len(rest) == 1 else None
                if v is not None and v in all_discr:
                    e3 = list(env2)
                    e3[didx[t["discr"]["pl"]["l"]]] = v
                    e3[tidx[src]] = all_discr[v]
                    env3 = tuple(e3)
            mk2 = mk or bool(mark_edges and (bb, i) in mark_edges)
            dd = dead_at[s]
            if dd:
                e4 = list(env3)
                for j in dd:
                    e4[j] = None
                env3 = tuple(e4)
            ns = (s, env3, mk2)
            if ns not in prev:
                prev[ns] = st
                dq.append(ns)
    return visited, marked, prev


def tag_values_at(body, bb, l):
    """the variant indices local `l` (an Option/Result/enum local) can hold on entry to block bb, over all explored paths;
    contains None when unknown on some path.  None (not a set) when `l` is not tracked or the exploration gave up."""
    S = _slots(body)
    if l not in S.tidx:
        return None
    if getattr(body, "_explore_all", None) is None:
        body._explore_all = explore(body)
    prev = body._explore_all[2]
    if not prev:
        return None
    return {st[1][S.tidx[l]] for st in prev if st[0] == bb}


def guarded(body, site_bb, cut):
    """P-cut: True iff site_bb is unreachable from the entry once the `cut` edges are deleted"""
    vis, _, _ = explore(body, cut=cut)
    return site_bb not in vis


def region(body, edge_ids, cut=None):
    """P-region: blocks that lie on some path after one of the given edges has been taken"""
    _, marked, _ = explore(body, cut=cut, mark_edges=set(edge_ids))
    return marked


def after_edges(body, edge_ids, cut=None):
    """flag/tag-sensitive region reachable after one of the given edges has been taken, honouring `cut` from that point on"""
    edge_ids = set(edge_ids)
    if not edge_ids:
        return set()
    # explored from the entry, so that what is known on the way to the edge (flags, variants) is kept; `cut` edges are only removed
    # once one of the given edges has been taken (the way TO the edge is never pruned)
    vis, marked, prev = explore(body, cut=cut, mark_edges=edge_ids, cut_only_marked=True)
    if prev:
        return marked
    # exploration gave up (state budget): start at the edges with nothing known
    starts = []
    for (b, i) in edge_ids:
        s_ = body.raw_succs(b)[i][0]
        if not body.blocks[s_]["cleanup"]:
            starts.append(s_)
    if not starts:
        return set()
    vis, _, _ = explore(body, cut=cut, start_blocks=starts)
    return vis


def exclusive_region(body, edge_ids):
    """blocks reachable only through one of the given edges"""
    vis_cut, _, _ = explore(body, cut=set(edge_ids))
    return region(body, edge_ids) - vis_cut


def live(body):
    """flag-sensitively reachable normal-flow blocks"""
    if getattr(body, "_live", None) is None:
        body._live = explore(body)[0]
    return body._live


def witness(body, site_bb, cut=None):
    vis, _, prev = explore(body, cut=cut)
    if site_bb not in vis:
        return None
    st = next(s_ for s_ in prev if s_[0] == site_bb)
    out = []
    while st is not None:
        out.append("bb%d@%s" % (st[0], body.term(st[0])["span"]["line"]))
        st = prev[st]
    return out[::-1]


# ------------------------------------------------------------------ mentions / reachability (P-call, P-reach)


def body_mentions(body, blocks=None):
    """callee mentions inside (a block subset of) a body:
    yields (kind, bb, names, term_or_op) with kind in call | fnitem | closure"""
    live = body.live_blocks()
    for bb, blk in enumerate(body.blocks):
        if blk["cleanup"] or bb not in live:
            continue
        if blocks is not None and bb not in blocks:
            continue

        def ops_of_rv(rv):
            k = rv["k"]
            if k in ("use", "cast", "repeat"):
                return [rv["op"]]
            if k == "binop":
                return [rv["a"], rv["b"]]
            if k == "unop":
                return [rv["a"]]
            if k == "aggregate":
                return rv["ops"]
            return []

        for st in blk["stmts"]:
            if st["k"] != "assign":
                continue
            rv = st["rv"]
            if rv["k"] == "aggregate" and rv["agg"]["k"] == "closure":
                yield ("closure", bb, (rv["agg"]["def"],), st)
            for op in ops_of_rv(rv):
                if op["k"] == "const" and "fn" in op:
                    yield ("fnitem", bb, fn_names(op["fn"]), st)
                if op["k"] == "const" and "closure" in op:
                    yield ("closure", bb, (op["closure"],), st)
        t = blk["term"]
        if t["k"] == "call":
            if "callee" in t:
                yield ("call", bb, callee_names(t), t)
            for op in t["args"]:
                if op["k"] == "const" and "fn" in op:
                    yield ("fnitem", bb, fn_names(op["fn"]), t)
                if op["k"] == "const" and "closure" in op:
                    yield ("closure", bb, (op["closure"],), t)


def reach_closure(prog, body, blocks=None, skip=None, const_args=None):
    """P-reach: callee closure over the crate call graph from (a block subset of) `body`.
    Returns (externals, locals_, witness) where externals = {callee name: chain}, locals_ = set of
    local bodies entered, chain = tuple of 'fn@line' strings.
    `skip(names, term)` -> True to not enter / not record a mention.
    """
    ext = {}
    entered = {}
    work = deque()

    def scan(b, blks, chain):
        for kind, bb, names, obj in body_mentions(b, blks):
            if skip and skip(names, obj, b):
                continue
            span = obj["span"]
            here = chain + ("%s@%s" % (b.name, span["line"]),)
            target = None
            for nm in names:
                if nm in prog.bodies:
                    target = prog.bodies[nm]
                    break
            if target is not None:
                if target.name not in entered:
                    entered[target.name] = here
                    work.append((target, here))
            else:
                for nm in names[:1]:
                    ext.setdefault(nm, here)

    scan(body, blocks, ())
    while work:
        b, chain = work.popleft()
        scan(b, None, chain)
    return ext, entered


def all_call_sites(prog, pred):
    """[(body, bb, term)] over the whole crate for call terminators satisfying pred(names, term)"""
    out = []
    for b in prog.bodies.values():
        for bb, t in b.calls():
            if pred(callee_names(t), t):
                out.append((b, bb, t))
    return out


def all_mentions(prog, pred):
    """[(body, kind, bb, names, obj)] over the whole crate"""
    out = []
    for b in prog.bodies.values():
        for kind, bb, names, obj in body_mentions(b):
            if pred(names):
                out.append((b, kind, bb, names, obj))
    return out


def name_matches(names, pats):
    """pats: iterable of exact def paths or ('re', regex)"""
    for n in names:
        for p in pats:
            if isinstance(p, tuple):
                if re.search(p[1], n):
                    return True
            elif n == p:
                return True
    return False


# ------------------------------------------------------------------ post-dominators / control dependence


def postdominators(body, ignore_blocks=None):
    """immediate-postdominator-free simple set algorithm on the normal-flow CFG (small bodies).
    A virtual exit joins every block without normal successors.  ignore_blocks: treat as absent."""
    blocks = [b for b in body.live_blocks() if not (ignore_blocks and b in ignore_blocks)]
    bs = set(blocks)
    succ = {b: [s for s in body.succs(b) if s in bs] for b in blocks}
    EXIT = -1
    for b in blocks:
        if not succ[b]:
            succ[b] = [EXIT]
    allb = set(blocks) | {EXIT}
    pd = {b: set(allb) for b in blocks}
    pd[EXIT] = {EXIT}
    changed = True
    while changed:
        changed = False
        for b in blocks:
            new = None
            for s in succ[b]:
                new = set(pd[s]) if new is None else new & pd[s]
            new = (new or set()) | {b}
            if new != pd[b]:
                pd[b] = new
                changed = True
    return pd, succ


def control_dependents(body, branch_bb, ignore_blocks=None):
    """blocks control-dependent on the switch at branch_bb"""
    pd, succ = postdominators(body, ignore_blocks)
    out = set()
    if branch_bb not in succ:
        return out
    for s in succ[branch_bb]:
        if s == -1:
            continue
        # nodes on the path from s up the postdominator tree until ipdom(branch)
        for n in pd[s]:
            if n != -1 and n not in pd[branch_bb] - {branch_bb}:
                out.add(n)
            elif n == branch_bb:
                out.add(n)
    out.discard(-1)
    return out
