"""C02 C03 C05: the ordering skeleton of the coordinator (no schedule is enumerated)."""
import re
import core as C
import modes as M
from common import *  # noqa
from engine import prop, rule

POOL_EXEC = "threadpool::ThreadPool::execute"
# a bounded SyncSender reports as well; that it may block is R03.8's business
SEND = ("std::sync::mpsc::Sender::<T>::send", "std::sync::mpsc::SyncSender::<T>::send")
TRY_RECV = "std::sync::mpsc::Receiver::<T>::try_recv"
PPMODES = frozenset(["FirstPassExecute", "Execute", "CollectDeps"])

prop("C02", "Includes always see the complete, fresh output of their dependencies",
     decided=["R02.1 a file is re-run (is_first_pass = const false) only for an item released by DepManager::notify_finish or on the false edge "
              "of add_dependency for that same file; is_first_pass is always a literal",
              "R02.2 while collecting dependencies a directive is executed only outside CollectDeps; a dependency with a .txtpp source never "
              "leads to execution in the first pass and is recorded via share_base(get_txtpp_file(..))",
              "R02.3 command execution, include reads, temp writes and tag creation all exist in execute_directive and (outside Clean) none of them "
              "is reachable in PpMode::CollectDeps",
              "R02.4 writes in the line loop happen only under PpMode::is_execute()",
              "R02.5 PpResult::Ok is built only after IOCtx::done() succeeded; each worker sends exactly the value returned by preprocess/scan_dir",
              "R02.6 worker closures capture only {Sender<TaskResult>, Arc<Shell>, AbsPath, Mode, bool, fieldless crate enums}; Shell has no "
              "interior mutability"],
     not_decided=["equality with the sequential build over all DAGs x completion orders", "correctness of DepManager's counting (value-level)",
                  "stale-file freshness as a runtime fact"])

prop("C03", "Every run terminates and completes each required file exactly once",
     decided=["R03.1 every task closure sends exactly one result on every normal path (one send, post-dominating, outside any cycle)",
              "R03.2 every spawn in execute_file is preceded by Progress::add_total(1) and no Ok return lies between them without the spawn",
              "R03.3 every received result is counted by add_done(1) before it is dispatched",
              "R03.4 the coordinator loop is left towards success only on the is_done() edge taken when the channel is Empty",
              "R03.5 a first-pass spawn is guarded by the true edge of HashSet::insert (dedup)",
              "R03.6 AbsPath is built only by create_base/share_base (canonicalised) or the test-only new; derived Eq/Hash read field p only"],
     not_decided=["termination (liveness over all schedules)", "'exactly once' as a count over runtime histories",
                  "pairing of add_total(subdirs.len()) with the directory loop (value-level)", "DepManager release counts"])

prop("C05", "Dependency cycles are reported, never hang, and spare the acyclic part",
     decided=["R05.1 the coordinator returns Ok(()) only on the is_empty() edge of DepManager::take_remaining(); the other edge returns an error",
              "R05.2 a waiting file can only be released through notify_finish (= R02.1)",
              "R05.3 the loop exit condition counts only spawned tasks (= R03.2/R03.4)"],
     not_decided=["acyclic => no cycle error, bystanders complete: properties of DepManager's runtime graph under all arrival orders",
                  "hang-freedom as liveness"])


def _ok_payload(b, bb):
    """operand of the Ok(..) aggregate stored to a return carrier in block bb"""
    for st in b.blocks[bb]["stmts"]:
        if st["k"] == "assign" and st["rv"]["k"] == "aggregate" and st["rv"]["agg"].get("variant") == "Ok" and st["rv"]["ops"]:
            return st["rv"]["ops"][0]
    return {"l": 0, "p": []}


def spawner_bodies(ctx):
    """bodies that hand a closure to ThreadPool::execute, with the closure bodies"""
    out = []
    for b in ctx.lib.bodies.values():
        for bb, t in calls_to(b, POOL_EXEC):
            cl = t["arg_tys"][1].get("closure") if len(t["arg_tys"]) > 1 else None
            out.append((b, bb, t, ctx.lib.bodies.get(cl) if cl else None))
    return out


def file_spawner(ctx):
    """(execute_file body, a spawn block in it, the task closure that calls preprocess).
    The spawn may be direct or through an extracted helper (calls_reaching)."""
    cl = None
    for b, bb, t, c in spawner_bodies(ctx):
        if c and calls_to(c, ROLE["preprocess"]):
            cl = c
    if cl is None:
        ctx.anchor_missing("a ThreadPool::execute task closure calling preprocess")
        return None, None, None
    ef = body(ctx, "execute_file")
    if ef is None:
        return None, None, None
    sp = file_spawn_sites(ctx, ef)
    if not sp:
        ctx.anchor_missing("spawn of the preprocessing task reachable from execute_file")
        return None, None, None
    return ef, sp[0][0], cl


def file_spawn_sites(ctx, ef):
    def is_pp_task(b, t):
        c = t["arg_tys"][1].get("closure") if len(t.get("arg_tys", [])) > 1 else None
        cb = ctx.lib.bodies.get(c) if c else None
        return cb is not None and bool(calls_to(cb, ROLE["preprocess"]))
    return calls_reaching(ctx.lib, ef, POOL_EXEC, arg_check=is_pp_task)


def _const1(b, t):
    return len(t["args"]) > 1 and C.op_const(t["args"][1]) == "1_usize"


# ------------------------------------------------------------------ C02

@rule("C02", "R02.1", floor=5)
def r02_1(ctx):
    lib = ctx.lib
    ef, spawn_bb, cl = file_spawner(ctx)
    if not ef:
        return
    pidx = ef.param_index_by_name("is_first_pass")
    if pidx is None:
        ctx.anchor_missing("is_first_pass parameter of %s" % ef.name)
        return
    for (b, bb, t) in C.all_call_sites(lib, lambda ns, t: ef.name in ns):
        v = C.op_const(t["args"][pidx - 1])
        site = ctx.site(b, bb)
        if v == "true":
            ctx.ok("first-pass spawn|%s" % b.name, site=site)
            continue
        if v != "false":
            ctx.violation([b.name, "non-const"], "is_first_pass is not a literal at this call: the pass kind cannot be established", site=site)
            continue
        file_lv = C.trace(b, t["args"][1], transparent=lambda tt: C.is_transparent(tt, ABSPATH_VIEWS))
        # (i) item of the set returned by notify_finish
        via_notify = False
        for l in file_lv:
            if l.kind == "call" and C.callee_name(l.data).endswith("as std::iter::Iterator>::next"):
                src = C.trace(b, l.data["args"][0], transparent=lambda tt: C.is_transparent(tt) or C.callee_name(tt).endswith("::into_iter"))
                if has_call(src, ROLE["notify_finish"]):
                    via_notify = True
        if via_notify:
            ctx.ok("second pass for an item released by notify_finish|%s" % b.name, site=site)
            continue
        # (ii) false edge of add_dependency on the same depender
        # strict: `let wait = match mode { Verify => false, _ => add_dependency(..) }` takes the same edge without having asked
        ad_false = bool_call_edges(b, lib, ROLE["add_dependency"], False, strict=True)
        same_dep = False
        for abb, at in calls_to(b, ROLE["add_dependency"]):
            dep_lv = C.trace(b, at["args"][1])
            if {(l.kind, C.pl_str(l.data) if l.kind == "field" else l.bb) for l in dep_lv} & \
                    {(l.kind, C.pl_str(l.data) if l.kind == "field" else l.bb) for l in file_lv}:
                same_dep = True
        if ad_false and C.guarded(b, bb, ad_false) and same_dep:
            ctx.ok("second pass on the false edge of add_dependency for the same file|%s" % b.name, site=site)
        else:
            ctx.violation([b.name, "second-pass-site"], "a file is re-run (is_first_pass=false) from a site that is neither the notify_finish release loop "
                          "nor the all-dependencies-already-finished edge of add_dependency: it could run before its dependencies are complete",
                          site=site, witness=C.witness(b, bb, ad_false))
    # .. and the re-run is not optional: where add_dependency says "everything this file waits for has finished", the file IS handed to
    # the spawner again as a second pass before the coordinator goes on (a first-pass call there is swallowed by the de-duplication of
    # first passes: the file would never be completed and nobody would wait for it)
    for b in {x[0].name: x[0] for x in C.all_call_sites(lib, lambda ns, t: ROLE["add_dependency"] in ns)}.values():
        ad_false = bool_call_edges(b, lib, ROLE["add_dependency"], False, strict=True)
        heads = [bb for bb, t in b.calls() if C.callee_name(t) == TRY_RECV]
        reruns = [bb for bb, t in b.calls() if ef.name in C.callee_names(t) and C.op_const(t["args"][pidx - 1]) == "false"]
        if not ad_false or not heads:
            continue
        reach = C.after_edges(b, ad_false, cut=out_edges(b, reruns) | out_edges(b, err_sites(b)))
        if any(h in reach for h in heads) or any(o in reach for o in ok_sites(b)):
            ctx.violation([b.name, "no-second-pass"], "when all dependencies of a file have already finished (add_dependency == false) the coordinator can go on "
                          "without re-running the file as a second pass: it would never be completed", site=ctx.site(b, min(e[0] for e in ad_false)))
        else:
            ctx.ok("add_dependency == false always leads to the second pass of that file", site=ctx.site(b, min(e[0] for e in ad_false)))


def _ret_shape(b, bb):
    """'Ok(Some)' / 'Ok(None)' / 'Ok' for the Ok aggregate stored to _0 in block bb"""
    for st in b.blocks[bb]["stmts"]:
        if st["k"] == "assign" and st["lhs"]["l"] == 0 and st["rv"]["k"] == "aggregate" and st["rv"]["agg"].get("variant") == "Ok":
            op = st["rv"]["ops"][0]
            p = C.op_place(op)
            if p is None:
                return "Ok"
            for rec in b.defs().get(p["l"], []):
                if rec[0] == "assign" and rec[3]["rv"]["k"] == "aggregate" and rec[3]["rv"]["agg"].get("adt") == "std::option::Option":
                    return "Ok(%s)" % rec[3]["rv"]["agg"]["variant"]
            return "Ok"
    return None


def _go_execute_sites(b):
    """blocks where the gate decides "execute this directive": the `Some(d)` values that can become the payload of an Ok return
    (`return Ok(Some(d))`, or `Ok(match .. { X => None, _ => Some(d) })`: the Some arm, not the shared Ok)"""
    out = []
    rc = ret_carriers(b) | {0}
    for bb in ok_sites(b):
        for st in b.blocks[bb]["stmts"]:
            if not (st["k"] == "assign" and st["lhs"]["l"] in rc and not st["lhs"]["p"] and st["rv"]["k"] == "aggregate"
                    and st["rv"]["agg"].get("variant") == "Ok" and st["rv"]["agg"].get("adt") == "std::result::Result"):
                continue
            p = C.op_place(st["rv"]["ops"][0]) if st["rv"]["ops"] else None
            if p is None or p["p"]:
                continue
            seen, work = set(), [p["l"]]
            while work:
                l = work.pop()
                if l in seen:
                    continue
                seen.add(l)
                for rec in b.defs().get(l, []):
                    rv = rec[3]["rv"] if rec[0] == "assign" else None
                    if rv is not None and rv["k"] == "aggregate" and rv["agg"].get("adt") == "std::option::Option":
                        if rv["agg"]["variant"] == "Some":
                            out.append(rec[1])
                    elif rv is not None and rv["k"] == "use" and C.op_place(rv["op"]) is not None and not C.op_place(rv["op"])["p"]:
                        work.append(C.op_place(rv["op"])["l"])
                    elif rv is not None and rv["k"] == "use" and C.op_const(rv["op"]) is not None:
                        pass
                    else:
                        out.append(bb)      # not a literal Some/None: the Ok return itself may say "execute"
    return sorted(set(out))


EFFECT_ROLES = ("shell_run", "execute_directive_temp", "tag_create")


def directive_effects(ctx, b):
    """[(bb, term)] the calls in execute_directive's normal form that EXECUTE a directive: running the command, reading the include,
    writing / removing the temp file, creating the tag"""
    names = tuple(ROLE[r] for r in EFFECT_ROLES) + ("std::fs::read_to_string", "std::fs::read", "std::fs::File::open")
    return [(bb, t) for bb, t in b.calls() if C.callee_name(t) in names]


@rule("C02", "R02.2", floor=3)
def r02_2(ctx):
    """(the collect-deps gate is spliced into execute_directive: DESIGN §3.9) no directive effect is reachable while the pass is already
    collecting dependencies, nor after a dependency with a .txtpp source was found in this pass; the found dependency is recorded"""
    lib = ctx.lib
    b = body(ctx, "execute_directive")
    if not b:
        return
    mo = M.Modes(lib, mode_adts=(ADT["PpMode"],), all_modes=PPMODES)
    non_clean = C.explore(b, cut={eid for eid, vs in modes(ctx).mode_edges(b).items() if vs == {"Clean"}})[0]
    somes = [bb for bb, t in directive_effects(ctx, b) if bb in non_clean]        # (what clean does with a directive is C07's)
    if not somes:
        ctx.anchor_missing("directive effects (run / include / temp / tag) in execute_directive")
    for bb in somes:
        m = mo.local_modes(b, bb)
        if "CollectDeps" in m:
            ctx.violation(["execute-while-collecting"], "a directive can be executed while the pass is already collecting dependencies "
                          "(a command after a dependency line would run before the dependency is built)", site=ctx.site(b, bb))
        else:
            ctx.ok("go-execute only in %s" % sorted(m), site=ctx.site(b, bb))
    # the Some edge of get_txtpp_file() never leads to execution
    some_e = enum_edges(b, lib, "std::option::Option", lambda vs: vs == {"Some"}, src_pred=lambda c: has_call(c.src, ROLE["get_txtpp_file"]))
    if not some_e:
        ctx.anchor_missing("`if let Some(x) = get_txtpp_file()` in the collect-deps gate")
        return
    reg = C.region(b, some_e)
    bad = [bb for bb in somes if bb in reg]
    if bad:
        ctx.violation(["dep-then-execute"], "a dependency with a .txtpp source is found and the directive is still executed in the same pass",
                      site=ctx.site(b, bad[0]))
    else:
        ctx.ok("a .txtpp-backed dependency never leads to execution in the first pass", site=ctx.site(b, min(reg)))
    # the recorded dependency is share_base(get_txtpp_file(..))
    recorded = []
    for bb2, t in b.calls():
        if bb2 in reg and C.callee_name(t) == "std::vec::Vec::<T, A>::push":
            recorded.append((bb2, t["args"][1]))
    for bb2, st in aggregates(b, ADT["PpMode"], "CollectDeps"):
        if bb2 in reg:
            recorded.append((bb2, st["rv"]["ops"][0]))
    if len(recorded) < 2:
        ctx.violation(["record-dep"], "the found dependency is not recorded on both collecting paths (push / start collecting)", site=ctx.site(b, min(reg)))
    for bb2, op in recorded:
        lv = C.trace(b, op, through_decorators=True, transparent=lambda t: C.is_transparent(t) or C.callee_name(t) in (
            "std::vec::from_elem", "std::boxed::box_assume_init_into_vec_unsafe", "std::slice::<impl [T]>::into_vec", "std::boxed::Box::<T>::new"))
        ok = False
        for l in lv:
            if leaf_is_call(l, ROLE["share_base"]) and has_call(C.trace(b, l.data["args"][1]), ROLE["get_txtpp_file"]):
                ok = True
            # vec![p_abs] goes through a boxed array write: accept an array/box leaf whose element is p_abs
        if not ok:
            # look through `vec![p_abs]` (Box<[T;1]> initialisation)
            for bb3, si, st in b.stmts():
                if st["k"] == "assign" and st["rv"]["k"] == "aggregate" and st["rv"]["agg"]["k"] == "array":
                    for o in st["rv"]["ops"]:
                        if any(leaf_is_call(l, ROLE["share_base"]) for l in C.trace(b, o, through_decorators=True)):
                            ok = True
        if ok:
            ctx.ok("recorded dependency = share_base(get_txtpp_file(..))", site=ctx.site(b, bb2))
        else:
            ctx.violation(["record-dep-origin"], "the recorded dependency does not derive from share_base(get_txtpp_file(..))", site=ctx.site(b, bb2))


@rule("C02", "R02.3", floor=4)
def r02_3(ctx):
    """the four directive effects (command, include read, temp file, tag) exist in execute_directive, and outside Clean each of them is
    unreachable in PpMode::CollectDeps (= the first clause of R02.2, per effect)"""
    lib = ctx.lib
    b = body(ctx, "execute_directive")
    if not b:
        return
    mo = M.Modes(lib, mode_adts=(ADT["PpMode"],), all_modes=PPMODES)
    non_clean = C.explore(b, cut={eid for eid, vs in modes(ctx).mode_edges(b).items() if vs == {"Clean"}})[0]
    n = 0
    for bb, t in directive_effects(ctx, b):
        nm = C.callee_name(t)
        if bb not in non_clean:
            continue        # a clean-only site (the temp cleaner): C07
        n += 1
        if "CollectDeps" not in mo.local_modes(b, bb):
            ctx.ok("%s behind the collect-deps gate" % nm.rsplit("::", 1)[-1], site=ctx.site(b, bb))
        else:
            ctx.violation([nm], "%s is reachable while the pass is collecting dependencies (it would execute before the dependencies are built)" % nm,
                          site=ctx.site(b, bb))
    if n < 4:
        ctx.anchor_missing("the four directive effects (run, include read, temp, tag) in execute_directive")


@rule("C02", "R02.4", floor=2)
def r02_4(ctx):
    lib = ctx.lib
    b = body(ctx, "pp_run_internal")
    if not b:
        return
    isx = bool_call_edges(b, lib, ROLE["is_execute"], True)
    for bb, t in calls_to(b, ROLE["write_output"]):
        if not b.in_cycle(bb):
            continue
        if isx and C.guarded(b, bb, isx):
            ctx.ok("in-loop write under is_execute()", site=ctx.site(b, bb))
        else:
            ctx.violation(["write-while-collecting"], "output is written in the line loop without the is_execute() guard", site=ctx.site(b, bb))


@rule("C02", "R02.5", floor=3)
def r02_5(ctx):
    lib = ctx.lib
    b = body(ctx, "pp_run_internal")
    if b:
        done_ok = try_ok_edges(b, lib, ROLE["done"])
        ags = aggregates(b, ADT["PpResult"], "Ok")
        if not ags:
            ctx.anchor_missing("PpResult::Ok aggregate")
        for bb, st in ags:
            if done_ok and C.guarded(b, bb, done_ok):
                ctx.ok("PpResult::Ok only after done() succeeded", site=ctx.site(b, bb))
            else:
                ctx.violation(["ok-before-done"], "PpResult::Ok is built on a path that does not pass the success edge of IOCtx::done() "
                              "(the file would be reported complete before it is flushed)", site=ctx.site(b, bb), witness=C.witness(b, bb, done_ok))
    for sb, sbb, t, cl in spawner_bodies(ctx):
        if cl is None:
            ctx.violation([sb.name, "opaque-task"], "ThreadPool::execute is given something other than a closure literal", site=ctx.site(sb, sbb))
            continue
        sends = calls_to(cl, SEND)
        for bb, st in sends:
            lv = C.trace(cl, st["args"][1], through_fields=True)
            pay = set()
            for l in lv:
                if l.kind == "aggregate" and l.data["agg"].get("adt") == ADT["TaskResult"]:
                    # the verdict is the Result-typed component; what else travels with it (the file's name, a flag, collected diagnostics,
                    # statistics) is not what the coordinator's scheduling decisions are taken from
                    def op_ty(o):
                        pl = C.op_place(o)
                        return cl.locals[pl["l"]]["ty"] if pl is not None and not pl["p"] else ""
                    ops = l.data["ops"]
                    verdict = [o for o in ops if op_ty(o).startswith("std::result::Result<")]
                    for o in (verdict or ops):
                        for x in C.trace(cl, o):
                            pay.add(x.callee() if x.kind == "call" else x.kind)
            if pay and pay <= {ROLE["preprocess"], ROLE["scan_dir"]}:
                ctx.ok("worker sends the value returned by %s" % sorted(p.rsplit("::", 1)[-1] for p in pay), site=ctx.site(cl, bb))
            else:
                ctx.violation([cl.name, "payload"], "a worker sends a result that is not the return value of preprocess/scan_dir: %s" % sorted(map(str, pay)),
                              site=ctx.site(cl, bb))


@rule("C02", "R02.6", floor=2)
def r02_6(ctx):
    allowed = ("std::sync::mpsc::Sender<%s>" % ADT["TaskResult"], "std::sync::mpsc::SyncSender<%s>" % ADT["TaskResult"],
               "std::sync::Arc<%s>" % ADT["Shell"], ADT["AbsPath"], ADT["Mode"], "bool")
    for sb, sbb, t, cl in spawner_bodies(ctx):
        if cl is None:
            continue
        # plain data: a fieldless enum of the crate (a `Pass::{First, Rerun}` in place of a bool) carries no shared state
        plain = {p_ for p_, a in ctx.lib.adts.items() if a.get("kind") == "Enum" and all(not v["fields"] for v in a["variants"])}
        bad = [u["ty"] for u in cl.upvars if u["ty"] not in allowed and u["ty"] not in plain]
        if bad:
            ctx.violation([cl.name, "upvars", ",".join(bad)], "a worker task captures %s: coordinator state or shared mutable data must not "
                          "reach worker threads" % bad, site=ctx.site(sb, sbb))
        else:
            ctx.ok("upvars of %s: %s" % (cl.name.rsplit("::", 2)[-2], [u["ty"].rsplit("::", 1)[-1] for u in cl.upvars]), site=ctx.site(sb, sbb))
    sh = ctx.lib.adts.get(ADT["Shell"])
    if sh:
        tys = [f["ty"] for f in sh["variants"][0]["fields"]]
        if any(x in ty for ty in tys for x in ("Cell<", "Mutex<", "RwLock<", "Atomic", "UnsafeCell")):
            ctx.violation(["shell-interior-mut"], "Shell (shared by Arc across workers) has an interior-mutable field: %s" % tys)
        else:
            ctx.ok("Shell fields are plain data: %s" % tys)


# ------------------------------------------------------------------ C03

@rule("C03", "R03.1", floor=2)
def r03_1(ctx):
    for sb, sbb, t, cl in spawner_bodies(ctx):
        if cl is None:
            ctx.violation([sb.name, "opaque-task"], "ThreadPool::execute is given something other than a closure literal", site=ctx.site(sb, sbb))
            continue
        sends = calls_to(cl, SEND)
        rets = [bb for bb in C.live(cl) if cl.term(bb)["k"] == "return"]
        if len(sends) != 1:
            ctx.violation([cl.name, "send-count"], "a task closure has %d Sender::send sites on its normal paths (exactly one expected: every task "
                          "must report once, or the coordinator's done/total accounting never balances)" % len(sends), site=ctx.site(cl, 0))
            continue
        bb, st = sends[0]
        cut = {eid for eid, s, lab in cl.edges(bb)}
        if any(not C.guarded(cl, r, cut) for r in rets):
            ctx.violation([cl.name, "send-skipped"], "a normal path through the task closure returns without sending its result",
                          site=ctx.site(cl, bb), witness=C.witness(cl, rets[0], cut))
        elif cl.in_cycle(bb):
            ctx.violation([cl.name, "send-in-loop"], "the task closure may send more than one result (send inside a loop)", site=ctx.site(cl, bb))
        else:
            ctx.ok("exactly one send on every normal path|%s" % cl.name, site=ctx.site(cl, bb))


@rule("C03", "R03.2", floor=2)
def r03_2(ctx):
    lib = ctx.lib
    ef, _, cl = file_spawner(ctx)
    if not ef:
        return
    sb = ef
    spawns = file_spawn_sites(ctx, sb)
    adds = calls_reaching(lib, sb, ROLE["progress_add_total"], arg_check=_const1)
    if not adds:
        ctx.violation([sb.name, "no-add-total"], "a preprocessing task is spawned without Progress::add_total(1)", site=ctx.site(sb, spawns[0][0]))
        return
    cut = out_edges(sb, [bb for bb, t, how in adds])
    for sbb, st, how in spawns:
        if C.guarded(sb, sbb, cut):
            ctx.ok("spawn preceded by add_total(1)", site=ctx.site(sb, sbb))
        else:
            ctx.violation([sb.name, "spawn-uncounted"], "a task can be spawned on a path that does not count it in the total "
                          "(the loop could exit before it reports)", site=ctx.site(sb, sbb), witness=C.witness(sb, sbb, cut))
    # after counting, every Ok return passes the spawn
    spawn_cut = out_edges(sb, [bb for bb, t, how in spawns])
    bad = []
    for abb, at, how in adds:
        bad += [o for o in ok_sites(sb) if o in sb.reachable(abb, cut=spawn_cut)]
    if bad:
        ctx.violation([sb.name, "counted-not-spawned"], "after add_total(1) the function can return Ok without spawning the task "
                      "(done never reaches total: the run would hang)", site=ctx.site(sb, bad[0]))
    else:
        ctx.ok("no Ok return between add_total(1) and the spawn", site=ctx.site(sb, spawns[0][0]))
    # directory tasks: counted by add_total(subdirs.len()) at the call sites (value-level pairing: not decided)


@rule("C03", "R03.3", floor=2)
def r03_3(ctx):
    lib = ctx.lib
    b = body(ctx, "txtpp_run_internal")
    if not b:
        return
    recv_ok = enum_edges(b, lib, "std::result::Result", lambda vs: vs == {"Ok"}, src_pred=lambda c: has_call(c.src, TRY_RECV))
    dones = [(bb, t) for bb, t, how in calls_reaching(lib, b, ROLE["progress_add_done"], arg_check=_const1)]
    if not recv_ok or not dones:
        ctx.anchor_missing("try_recv Ok edge / add_done(1) in the coordinator loop")
        return
    for bb, t in dones:
        if C.guarded(b, bb, recv_ok):
            ctx.ok("add_done(1) only for a received result", site=ctx.site(b, bb))
        else:
            ctx.violation(["done-without-result"], "add_done(1) is reachable without a received result", site=ctx.site(b, bb))
    cut = set()
    for bb, t in dones:
        cut |= {eid for eid, s, lab in b.edges(bb)}
    disp = [bb for bb in C.switches(b) if C.switch_cond(b, bb).kind == "enum" and C.switch_cond(b, bb).adt == ADT["TaskResult"]]
    if not disp:
        ctx.anchor_missing("dispatch on TaskResult in the coordinator loop")
    for bb in disp:
        if C.guarded(b, bb, cut):
            ctx.ok("every received result is counted before dispatch", site=ctx.site(b, bb))
        else:
            ctx.violation(["dispatch-uncounted"], "a received result can be dispatched without being counted as done", site=ctx.site(b, bb))


@rule("C03", "R03.10", floor=1)
def r03_10(ctx):
    """a received result is counted done ONCE on every path that goes on receiving: after the first increment of the done counter for a
    result (add_done / add_done_quiet, directly or through a helper), a second increment lies only on paths that leave the loop with an
    error — a `continue` after the extra increment (best-effort handling of a failed file) makes done overtake total: is_done() is
    never true again and the coordinator polls forever"""
    lib = ctx.lib
    b = body(ctx, "txtpp_run_internal")
    if not b:
        return
    heads = [bb for bb, t in b.calls() if C.callee_name(t) == TRY_RECV]
    INC = tuple(n for n in lib.bodies if n.startswith(ROLE["progress_add_done"]) and "{closure" not in n)   # add_done, add_done_quiet
    incs = [(bb, t) for bb, t, how in calls_reaching(lib, b, INC)]
    if not heads or not incs:
        ctx.anchor_missing("try_recv loop / done-counter increments in the coordinator")
        return
    isd = bool_call_edges(b, lib, ROLE["progress_is_done"], True)
    for bb, t in incs:
        # other increments reachable after this one without passing the loop head
        later = C.after_edges(b, out_edges(b, [bb]), cut=out_edges(b, heads))
        for bb2, t2 in incs:
            if bb2 == bb or bb2 not in later:
                continue
            # .. and from that second increment the loop goes on (head or the is_done exit reachable)
            go_on = C.after_edges(b, out_edges(b, [bb2]))
            if any(h in go_on for h in heads):
                ctx.violation([b.name, "counted-twice"], "a received result can be counted done twice on a path that keeps receiving "
                              "(done_count overtakes total_count: the run never ends)", site=ctx.site(b, bb2))
                break
        else:
            ctx.ok("no second increment for the same result on a path that keeps receiving", site=ctx.site(b, bb))


@rule("C03", "R03.4", floor=2)
def r03_4(ctx):
    lib = ctx.lib
    b = body(ctx, "txtpp_run_internal")
    if not b:
        return
    isd = bool_call_edges(b, lib, ROLE["progress_is_done"], True)
    empty_e = enum_edges(b, lib, "std::sync::mpsc::TryRecvError", lambda vs: vs == {"Empty"}) | \
        enum_edges(b, lib, "std::sync::mpmc::TryRecvError", lambda vs: vs == {"Empty"})
    tr = calls_to(b, ROLE["take_remaining"])
    if not tr or not isd:
        ctx.anchor_missing("take_remaining / is_done in the coordinator")
        return
    for bb, t in tr:
        if C.guarded(b, bb, isd):
            ctx.ok("the loop is left towards success only on the is_done() edge", site=ctx.site(b, bb))
        else:
            ctx.violation(["exit-not-done"], "the coordinator loop can be left towards the success path while tasks are still outstanding",
                          site=ctx.site(b, bb), witness=C.witness(b, bb, isd))
    for bb, t in calls_to(b, ROLE["progress_is_done"]):
        if empty_e and C.guarded(b, bb, empty_e):
            ctx.ok("is_done() is consulted only when the channel is Empty", site=ctx.site(b, bb))
        else:
            ctx.violation(["done-check-not-empty"], "is_done() is consulted while results may still be queued", site=ctx.site(b, bb))


@rule("C03", "R03.5", floor=1)
def r03_5(ctx):
    lib = ctx.lib
    ef, _, cl = file_spawner(ctx)
    if not ef:
        return
    pidx = ef.param_index_by_name("is_first_pass")
    is_files = lambda t: has_field(C.trace(ef, t["args"][0]), "files")
    key_is_file = lambda t: has_param(C.trace(ef, t["args"][1], transparent=lambda tt: C.is_transparent(tt, ABSPATH_VIEWS)), ef, "file")
    ins_true = bool_call_edges(ef, lib, "std::collections::HashSet::<T, S, A>::insert", True, arg_pred=lambda t: is_files(t) and key_is_file(t))
    not_there = bool_call_edges(ef, lib, "std::collections::HashSet::<T, S, A>::contains", False, arg_pred=lambda t: is_files(t) and key_is_file(t))
    not_first = C.guard_edges(ef, lib, lambda c, v, leaf: c.kind == "bool" and leaf is not None and leaf.kind == "param"
                              and leaf.data == pidx and v is False)
    inserts = [(bb, t) for bb, t in calls_to(ef, "std::collections::HashSet::<T, S, A>::insert") if is_files(t)]
    for sbb, st, how in file_spawn_sites(ctx, ef):
        ok = False
        if ins_true and not_first and C.guarded(ef, sbb, ins_true | not_first):
            ok = True
        # `if files.contains(f) { return } files.insert(f)`: not-contained edge, and the insert lies on every first-pass path
        if not ok and not_there and not_first and C.guarded(ef, sbb, not_there | not_first) and inserts and \
                C.guarded(ef, sbb, out_edges(ef, [bb for bb, t in inserts]) | not_first):
            ok = True
        if ok:
            ctx.ok("first-pass spawn guarded by the file not being in the build set yet", site=ctx.site(ef, sbb))
        else:
            ctx.violation(["no-dedup"], "a first-pass task can be spawned for a file that is already in the build set (the file would be processed "
                          "twice: commands run twice)", site=ctx.site(ef, sbb), witness=C.witness(ef, sbb, ins_true | not_first))
    # the inserted key is the file being spawned
    for bb, t in inserts:
        if key_is_file(t):
            ctx.ok("dedup key is the file parameter", site=ctx.site(ef, bb))
        else:
            ctx.violation(["dedup-key"], "the dedup set is keyed by something other than the file being scheduled", site=ctx.site(ef, bb))
    # .. and the same holds wherever else a first-pass task is started (a `spawn_preprocess` / `start_file` helper called for a whole batch
    # of scanned files): the test that lets a file through is the `insert` into the build set itself — per file, on the way to its spawn,
    # or as the predicate of the `filter` the batch went through. A `contains` probe over the whole batch followed by inserts later lets
    # two entries of one batch that name the same file both pass.
    INS = "std::collections::HashSet::<T, S, A>::insert"
    HAS = "std::collections::HashSet::<T, S, A>::contains"
    for sb, sbb, st_, scl in spawner_bodies(ctx):
        if scl is None or sb is ef or not calls_to(scl, ROLE["preprocess"]):
            continue
        agg = [st2 for bb2, si2, st2 in sb.stmts() if st2["k"] == "assign" and st2["rv"]["k"] == "aggregate" and st2["rv"]["agg"].get("def") == scl.name]
        if not agg:
            continue
        ops = agg[0]["rv"]["ops"]
        flag_ops = [o for o, u in zip(ops, scl.upvars) if u["ty"] == "bool"]
        file_ops = [o for o, u in zip(ops, scl.upvars) if u["ty"] == ADT["AbsPath"]]
        first = any(not (l.kind == "const" and C.op_const(l.data) == "false") for o in flag_ops for l in C.trace(sb, o)) if flag_ops else True
        if not first or not file_ops:
            continue
        on_files = lambda t: has_field(C.trace(sb, t["args"][0], through_fields=True), "files")
        ins_t = bool_call_edges(sb, lib, INS, True, arg_pred=on_files)
        no_t = bool_call_edges(sb, lib, HAS, False, arg_pred=on_files)
        ins_sites = [bb2 for bb2, t2 in calls_to(sb, INS) if on_files(t2)]
        ok = bool(ins_t) and C.guarded(sb, sbb, ins_t)
        if not ok and no_t and C.guarded(sb, sbb, no_t) and ins_sites and C.guarded(sb, sbb, out_edges(sb, ins_sites)):
            # per file: not contained, then inserted, then spawned — with no loop head between the probe and the insert
            ok = True
        if not ok:
            # the batch went through `filter(|f| files.insert(f.clone()))`
            item = lambda tt: C.is_transparent(tt) or T.item_preserving(C.callee_name(tt)) or (C.callee_name(tt) or "").endswith(
                ("Iterator>::next", "::into_iter", "::collect", "::iter", "::cloned", "::clone", "Iterator::filter"))
            lv = C.trace(sb, file_ops[0], through_fields=True, transparent=lambda tt: item(tt) and C.callee_name(tt) != "std::iter::Iterator::filter")
            for l in lv:
                if l.kind == "call" and C.callee_name(l.data) == "std::iter::Iterator::filter" and len(l.data.get("arg_tys", [])) > 1:
                    fc = lib.bodies.get(l.data["arg_tys"][1].get("closure") or "")
                    if fc is not None:
                        rl = C.trace(fc, {"l": 0, "p": []})
                        if rl and all(x.kind == "call" and C.callee_name(x.data) == INS and not x.neg for x in rl):
                            ok = True
        if ok:
            ctx.ok("first-pass spawn outside execute_file guarded by the insert into the build set|%s" % sb.name.rsplit("::", 1)[-1], site=ctx.site(sb, sbb))
        else:
            ctx.violation([sb.name, "no-dedup-batch"], "a first-pass task is started for a file without the insert into the build set deciding it "
                          "(a `contains` probe over the batch, or an insert whose result is not tested): two entries of one batch that name the "
                          "same file are both processed", site=ctx.site(sb, sbb))


@rule("C03", "R03.6", floor=4)
def r03_6(ctx):
    lib = ctx.lib
    # wherever an AbsPath is built (create_base / share_base, or a private borrowing twin of them spliced into a caller), its path is
    # what make_abs returned; only AbsPath::new (unit tests) and the derived Clone build one from something else
    exempt = {ROLE["abspath_new"], ROLE["abspath_clone"]}
    for b in lib.bodies.values():
        for bb, st in aggregates(b, ADT["AbsPath"]):
            if b.name in exempt:
                continue
            flds = st["rv"]["agg"]["fields"]
            lv = C.trace(b, st["rv"]["ops"][flds.index("p")], through_decorators=True) if "p" in flds else []
            if lv and all(leaf_is_call(l, ROLE["make_abs"]) for l in lv):
                ctx.ok("AbsPath.p <- make_abs|%s" % b.name.rsplit("::", 1)[-1], site=ctx.site(b, bb))
            else:
                ctx.violation([b.name, "abspath-literal"], "an AbsPath is built whose path does not come from make_abs: it may not be canonical "
                              "(the same file could get two identities)", site=ctx.site(b, bb))
    ma = body(ctx, "make_abs")
    if ma:
        # every success value make_abs can return is what canonicalize() returned (Path::canonicalize and fs::canonicalize are the
        # same function); error values carry no path
        CANON = ("std::path::Path::canonicalize", "std::fs::canonicalize")
        lv = C.trace(ma, {"l": 0, "p": []}, through_decorators=True)
        good = bool(lv) and all(leaf_is_call(l, CANON) for l in lv)
        oks = [bb for bb in ok_sites(ma) if not all(leaf_is_call(l, CANON) for l in C.trace(ma, _ok_payload(ma, bb), through_decorators=True))]
        if good and not oks:
            ctx.ok("make_abs returns canonicalize()'s result", site=ctx.site(ma, 0))
        else:
            ctx.violation(["make_abs"], "make_abs can return a path that is not the result of Path::canonicalize", site=ctx.site(ma, oks[0] if oks else 0))
    # AbsPath::new (unit tests only) is not mentioned by non-test code
    ments = C.all_mentions(lib, lambda ns: ROLE["abspath_new"] in ns)
    # .. unless what it wraps is make_abs's result (`make_abs(p).map(Self::new)`: the constructor used as the literal it is)
    bad_m = []
    for (b, kind, bb, names, obj) in ments:
        if kind == "call" and obj.get("args"):
            lv = C.trace(b, obj["args"][0], through_decorators=True)
            if lv and all(leaf_is_call(l, ROLE["make_abs"]) for l in lv):
                ctx.ok("AbsPath::new(make_abs(..))|%s" % b.name.rsplit("::", 1)[-1], site=ctx.site(b, bb))
                continue
        bad_m.append((b, kind, bb, names, obj))
    if bad_m:
        b, kind, bb, names, obj = bad_m[0]
        ctx.violation(["abspath-new-used"], "AbsPath::new (no canonicalisation; for unit tests) is used by non-test code", site=ctx.site(b, bb))
    else:
        ctx.ok("AbsPath::new is not mentioned in non-test code")
    # derived Eq/Hash read the absolute path only
    for suffix in (ROLE["abspath_hash"], ROLE["abspath_eq"]):
        b = lib.bodies.get(suffix)
        if not b:
            ctx.anchor_missing(suffix)
            continue
        from rules_io import forward_uses
        read = set()
        for bb, si, st in b.stmts():
            rv = st.get("rv", {})
            pls = []
            if "pl" in rv:
                pls.append(rv["pl"])
            for key in ("op", "a", "b"):
                p = C.op_place(rv.get(key)) if isinstance(rv.get(key), dict) else None
                if p:
                    pls.append(p)
            for pl in pls:
                for (o, v, n) in C.pl_fields(pl):
                    if o == ADT["AbsPath"] and forward_uses(b, st["lhs"]["l"]):
                        read.add(n)     # the field (reference) is handed to some callee
        if read == {"p"}:
            ctx.ok("%s reads field p only" % suffix.rsplit("::", 1)[-1], site=ctx.site(b, 0))
        else:
            ctx.violation([suffix, "fields"], "AbsPath identity (%s) depends on fields %s, not only on the canonical path" % (suffix, sorted(read)), site=ctx.site(b, 0))


# ------------------------------------------------------------------ C05

def _only_take_remaining(b, op):
    """the tested collection IS what take_remaining() returned — not a filtered / rebuilt derivative of it (a 'trim the report to the
    real cycle members' helper with a bug would make the leftover map look empty)"""
    lv = C.trace(b, op)
    if not (lv and all(leaf_is_call(l, ROLE["take_remaining"]) for l in lv)):
        return False
    # ... and nothing edits it in place before the test: the local holding the result is never borrowed mutably
    holders = set()
    for l in lv:
        t = l.data
        if not t["dest"]["p"]:
            holders.add(t["dest"]["l"])
    changed = True
    while changed:
        changed = False
        for bb, si, st in b.stmts():
            if st["k"] == "assign" and not st["lhs"]["p"] and st["rv"]["k"] == "use":
                p = C.op_place(st["rv"]["op"])
                if p is not None and not p["p"] and p["l"] in holders and st["lhs"]["l"] not in holders:
                    holders.add(st["lhs"]["l"])
                    changed = True
    for bb, si, st in b.stmts():
        if st["k"] == "assign" and st["rv"]["k"] == "ref" and st["rv"].get("mut") and st["rv"]["pl"]["l"] in holders:
            return False
    return True


@rule("C05", "R05.1", floor=2)
def r05_1(ctx):
    lib = ctx.lib
    b = body(ctx, "txtpp_run_internal")
    if not b:
        return
    emp_true = bool_call_edges(b, lib, ("std::collections::HashMap::<K, V, S, A>::is_empty", "std::collections::HashSet::<T, S, A>::is_empty",
                                        "std::vec::Vec::<T, A>::is_empty"), True,
                               arg_pred=lambda t: _only_take_remaining(b, t["args"][0]))
    emp_false = bool_call_edges(b, lib, ("std::collections::HashMap::<K, V, S, A>::is_empty", "std::collections::HashSet::<T, S, A>::is_empty",
                                         "std::vec::Vec::<T, A>::is_empty"), False,
                                arg_pred=lambda t: _only_take_remaining(b, t["args"][0]))
    oks = ok_sites(b)
    if not oks:
        ctx.anchor_missing("Ok return of the coordinator")
    for bb in oks:
        if emp_true and C.guarded(b, bb, emp_true):
            ctx.ok("Ok(()) only when no dependency edge is left over", site=ctx.site(b, bb))
        else:
            ctx.violation(["ok-with-leftovers"], "the coordinator can report success without checking that the dependency graph is empty "
                          "(files in a cycle are silently skipped)", site=ctx.site(b, bb), witness=C.witness(b, bb, emp_true))
    if emp_false:
        reg = C.region(b, emp_false)
        if (reg & set(oks)) or not (reg & set(err_sites(b))):
            ctx.violation(["leftovers-not-error"], "left-over dependency edges do not lead to an error return", site=ctx.site(b, min(reg) if reg else 0))
        else:
            ctx.ok("left-over edges lead to an Err return", site=ctx.site(b, min(reg & set(err_sites(b)))))


@rule("C05", "R05.2", floor=2)
def r05_2(ctx):
    r02_1(ctx)


@rule("C05", "R05.3", floor=2)
def r05_3(ctx):
    r03_2(ctx)
    r03_4(ctx)


# ------------------------------------------------------------------ deeper structure of the dependency manager / progress counters

def Fl_leaves_fields(ctx, b, op):
    """leaves of an operand inside a closure body, resolving captured values through the upvars"""
    return [C.Leaf("field", None, l.data) for l in prov(ctx).leaves(b, op, expand_fields=False) if l.kind in ("field",)]


HS_INSERT = "std::collections::HashSet::<T, S, A>::insert"
HS_CONTAINS = "std::collections::HashSet::<T, S, A>::contains"


@rule("C02", "R02.7", floor=4)
def r02_7(ctx):
    """DepManager: an edge to an already finished dependency is never recorded; `true` is returned only if an unfinished one exists;
    a depender is released only on its last edge; finishing is recorded before dependers are looked up"""
    lib = ctx.lib
    ad = body(ctx, "add_dependency")
    nf = body(ctx, "notify_finish")
    if ad:
        not_fin = bool_call_edges(ad, lib, HS_CONTAINS, False, arg_pred=lambda t: has_field(C.trace(ad, t["args"][0]), "finished"))
        in_closure = any(C.callee_name(t) == HS_CONTAINS and has_field(Fl_leaves_fields(ctx, c, t["args"][0]), "finished")
                         for c in lib.closures_of(ad) for bb, t in c.calls())
        if not not_fin and in_closure:
            ctx.unverified("finished-check in an iterator adaptor closure", detail="the finished-test moved into a closure passed to an iterator "
                           "adaptor (filter/skip_while..): its effect on the loop is not modelled", site=ctx.site(ad, 0))
        elif not not_fin:
            ctx.violation(["finished-check"], "add_dependency no longer tests whether a dependency already finished (a file could wait forever for "
                          "a dependency that will never be announced again)", site=ctx.site(ad, 0))
        else:
            # edge recording and the `added = true` assignment sit behind the not-finished edge
            recs = [(bb, t) for bb, t in calls_to(ad, HS_INSERT)]
            recs += [(bb, t) for bb, t in calls_to(ad, "std::collections::HashMap::<K, V, S, A>::entry") if has_field(C.trace(ad, t["args"][0]), "in_edges")]
            for bb, t in recs:
                if C.guarded(ad, bb, not_fin):
                    ctx.ok("edge recorded only for an unfinished dependency", site=ctx.site(ad, bb))
                else:
                    ctx.violation(["edge-to-finished"], "a dependency edge can be recorded for a dependency that already finished", site=ctx.site(ad, bb))
            trues = [bb for bb, si, st in ad.stmts() if st["k"] == "assign" and st["rv"]["k"] == "use" and C.op_const(st["rv"]["op"]) == "true"
                     and ad.locals[st["lhs"]["l"]]["ty"] == "bool" and ad.locals[st["lhs"]["l"]].get("name")]
            for bb in trues:
                if C.guarded(ad, bb, not_fin):
                    ctx.ok("`has unfinished dependencies` set only behind the not-finished edge", site=ctx.site(ad, bb))
                else:
                    ctx.violation(["added-without-edge"], "add_dependency can report outstanding dependencies although all of them finished "
                                  "(the depender would never be rescheduled)", site=ctx.site(ad, bb))
    if nf:
        last = cmp_holds_edges(nf, lib, "ge", lambda lv: has_const(lv, "1_usize"), lambda lv: any(
            l.kind == "call" and C.callee_name(l.data) == "std::collections::HashMap::<K, V, S, A>::get_mut" for l in lv) or bool(lv))
        rel = [(bb, t) for bb, t in calls_to(nf, HS_INSERT) if not has_field(C.trace(nf, t["args"][0]), "finished")]
        le = C.guard_edges(nf, lib, lambda c, v, leaf: c.kind == "bool" and leaf is not None and leaf.kind == "binop" and
                           ((leaf.data["op"] == "Le" and has_const(C.trace(nf, leaf.data["b"]), "1_usize") and v is True) or
                            (leaf.data["op"] == "Lt" and has_const(C.trace(nf, leaf.data["b"]), "2_usize") and v is True) or
                            (leaf.data["op"] == "Eq" and has_const(C.trace(nf, leaf.data["b"]), "1_usize") and v is True) or
                            (leaf.data["op"] == "Gt" and has_const(C.trace(nf, leaf.data["b"]), "1_usize") and v is False)))
        if not rel:
            if lib.closures_of(nf):
                ctx.unverified("release logic of notify_finish lives in iterator adaptor closures", site=ctx.site(nf, 0),
                               detail="filter/collect style: the per-edge decision is in a closure called by std; not modelled")
            else:
                ctx.anchor_missing("release (output.insert) in notify_finish")
        for bb, t in rel:
            if le and C.guarded(nf, bb, le):
                ctx.ok("a depender is released only when its last outstanding edge is removed", site=ctx.site(nf, bb))
            else:
                ctx.violation(["early-release"], "a depender can be released while it still has unfinished dependencies", site=ctx.site(nf, bb),
                              witness=C.witness(nf, bb, le))
        fins = [(bb, t) for bb, t in calls_to(nf, HS_INSERT) if has_field(C.trace(nf, t["args"][0]), "finished")]
        rets = [bb for bb in C.live(nf) if nf.term(bb)["k"] == "return"]
        if fins and all(C.guarded(nf, r, out_edges(nf, [bb for bb, t in fins])) for r in rets):
            ctx.ok("every path through notify_finish records the file as finished", site=ctx.site(nf, fins[0][0]))
        else:
            ctx.violation(["finish-not-recorded"], "notify_finish can return without recording the file as finished (a later depender would wait "
                          "for it forever)", site=ctx.site(nf, 0))


@rule("C03", "R03.7", floor=3)
def r03_7(ctx):
    """Progress: is_done() is done_count == total_count; add_done/add_total add to the matching counter"""
    lib = ctx.lib
    isd = body(ctx, "progress_is_done")
    if isd:
        ok = False
        for l in C.trace(isd, {"l": 0, "p": []}):
            if l.kind == "binop" and l.data["op"] == "Eq" and not l.neg:
                fa = {n for (o, v, n) in sum((C.pl_fields(x.data) for x in C.trace(isd, l.data["a"]) if x.kind == "field"), [])}
                fb = {n for (o, v, n) in sum((C.pl_fields(x.data) for x in C.trace(isd, l.data["b"]) if x.kind == "field"), [])}
                if fa | fb == {"done_count", "total_count"} and fa != fb:
                    ok = True
        if ok:
            ctx.ok("is_done() == (done_count == total_count)", site=ctx.site(isd, 0))
        else:
            ctx.violation(["is_done"], "Progress::is_done is no longer exactly done_count == total_count", site=ctx.site(isd, 0))
    for role_name, fld in (("progress_add_done", "done_count"), ("progress_add_total", "total_count")):
        b = body(ctx, role_name)
        if not b:
            continue
        pc = b.param_index_by_name("count")
        import inline
        b = inline.deep_body(lib, b)      # add_done may delegate to add_done_quiet
        good = False
        for bb, si, st in b.stmts():
            if st["k"] == "assign" and st["lhs"]["p"] and st["lhs"]["p"][-1].get("name") == fld and st["rv"]["k"] == "use":
                for l in C.trace(b, st["rv"]["op"]):
                    if l.kind == "binop" and l.data["op"].startswith("Add"):
                        la, lb2 = C.trace(b, l.data["a"]), C.trace(b, l.data["b"])
                        if (has_field(la, fld) and any(x.kind == "param" and x.data == pc for x in lb2)) or \
                                (has_field(lb2, fld) and any(x.kind == "param" and x.data == pc for x in la)):
                            good = True
        others = [st["lhs"]["p"][-1].get("name") for bb, si, st in b.stmts() if st["k"] == "assign" and st["lhs"]["p"]
                  and st["lhs"]["p"][-1].get("owner") == ADT["Progress"] and st["lhs"]["p"][-1].get("name") in ("done_count", "total_count")
                  and st["lhs"]["p"][-1].get("name") != fld]
        if good and not others:
            ctx.ok("%s: %s += count" % (role_name.split("_", 1)[1], fld), site=ctx.site(b, 0))
        else:
            ctx.violation([role_name, fld], "%s no longer adds its count to %s only" % (role_name, fld), site=ctx.site(b, 0))


def _via_field(b, op, field, extra=()):
    """does the operand derive from struct field `field` through map/entry accessors?"""
    acc = ("std::collections::HashMap::<K, V, S, A>::entry", "std::collections::hash_map::Entry::<'a, K, V>::or_default",
           "std::collections::hash_map::Entry::<'a, K, V, A>::or_insert", "std::collections::hash_map::Entry::<'a, K, V, A>::or_insert_with",
           "std::collections::HashMap::<K, V, S, A>::get_mut", "std::collections::HashMap::<K, V, S, A>::get",
           "std::option::Option::<T>::unwrap", "std::option::Option::<T>::expect") + tuple(extra)
    lv = C.trace(b, op, through_fields=True, transparent=lambda t: C.is_transparent(t) or C.callee_name(t) in acc)
    return has_field(lv, field)


@rule("C02", "R02.8", floor=2)
def r02_8(ctx):
    """DepManager pairing: every recorded edge is counted; every finished edge is either un-counted or releases its depender"""
    lib = ctx.lib
    ad = body(ctx, "add_dependency")
    if ad:
        heads = [bb for bb, t in ad.calls() if C.callee_name(t).endswith("as std::iter::Iterator>::next")]
        rets = [bb for bb in C.live(ad) if ad.term(bb)["k"] == "return"]
        incs = []
        deferred = []     # (block incrementing a local accumulator, block adding the accumulator to the counter)
        is_one = lambda op: has_const(C.trace(ad, op), "1_usize")
        for bb, si, st in ad.stmts():
            if st["k"] == "assign" and st["lhs"]["p"] and st["rv"]["k"] == "use" and _via_field(ad, st["lhs"], "out_edge_counts"):
                for l in C.trace(ad, st["rv"]["op"]):
                    if l.kind == "binop" and l.data["op"].startswith("Add"):
                        if is_one(l.data["b"]) or is_one(l.data["a"]):
                            incs.append(bb)
                            continue
                        # `counter += n` where n is a local incremented by one per new edge
                        for side in ("a", "b"):
                            for l2 in C.trace(ad, l.data[side]):
                                if l2.kind == "binop" and l2.data["op"].startswith("Add") and (is_one(l2.data["b"]) or is_one(l2.data["a"])):
                                    deferred.append((l2.bb, bb))
        # .. or handed to the map as the initial count of a new entry: `out_edge_counts.insert(depender, n)`
        for bb, t in calls_to(ad, "std::collections::HashMap::<K, V, S, A>::insert"):
            if _via_field(ad, t["args"][0], "out_edge_counts") and len(t["args"]) > 2:
                for l2 in C.trace(ad, t["args"][2]):
                    if l2.kind == "binop" and l2.data["op"].startswith("Add") and (is_one(l2.data["b"]) or is_one(l2.data["a"])):
                        deferred.append((l2.bb, bb))
        flushes = {}
        for (ibb, fbb) in deferred:
            flushes.setdefault(ibb, set()).add(fbb)
        for ibb, fbbs in flushes.items():
            # the accumulated count must reach the counter on every way out
            after = C.after_edges(ad, out_edges(ad, [ibb]), cut=out_edges(ad, sorted(fbbs)))
            if not any(ad.term(x)["k"] == "return" for x in after):
                incs.append(ibb)
        sites = []
        for bb, t in ad.calls():
            nm = C.callee_name(t)
            if nm == HS_INSERT and _via_field(ad, t["args"][0], "in_edges"):
                sites.append((bb, t, "set"))
            elif nm == "std::collections::HashMap::<K, V, S, A>::insert" and _via_field(ad, t["args"][0], "in_edges"):
                sites.append((bb, t, "map"))
        if not sites or not incs:
            ctx.anchor_missing("edge insertion / counter increment in add_dependency")
        for bb, t, kind in sites:
            start = set()
            if kind == "set":
                # only a NEW edge (insert == true) must be counted
                start = bool_call_edges(ad, lib, HS_INSERT, True, arg_pred=lambda tt, t=t: tt is t)
            if not start:
                start = out_edges(ad, [bb])
            reached = C.after_edges(ad, start, cut=out_edges(ad, incs))
            esc = [h for h in heads + rets if h in reached and h not in incs]
            if esc:
                ctx.violation(["edge-not-counted", kind], "add_dependency can record a new dependency edge without incrementing the depender's "
                              "outstanding-dependency counter: the depender would be released when the first of its dependencies finishes",
                              site=ctx.site(ad, bb))
            else:
                ctx.ok("recorded edge is counted (%s insert)" % kind, site=ctx.site(ad, bb))
    nf = body(ctx, "notify_finish")
    if nf:
        heads = [bb for bb, t in nf.calls() if C.callee_name(t).endswith("as std::iter::Iterator>::next")]
        some_e = enum_edges(nf, lib, "std::option::Option", lambda vs: vs == {"Some"},
                            src_pred=lambda c: any(l.kind == "call" and C.callee_name(l.data).endswith("as std::iter::Iterator>::next") for l in c.src))
        decs = []
        for bb, si, st in nf.stmts():
            if st["k"] == "assign" and st["lhs"]["p"] and st["rv"]["k"] == "use" and _via_field(nf, st["lhs"], "out_edge_counts"):
                for l in C.trace(nf, st["rv"]["op"]):
                    if l.kind == "binop" and l.data["op"].startswith("Sub") and has_const(C.trace(nf, l.data["b"]), "1_usize"):
                        decs.append(bb)
        rels = [bb for bb, t in calls_to(nf, HS_INSERT) if not has_field(C.trace(nf, t["args"][0]), "finished")]
        if not heads or not some_e or not (decs and rels):
            if lib.closures_of(nf):
                ctx.unverified("depender loop of notify_finish is an iterator chain", site=ctx.site(nf, 0),
                               detail="decrement / release happen inside closures called by std adaptors; not modelled")
            else:
                ctx.anchor_missing("depender loop with decrement and release in notify_finish")
        else:
            reached = C.after_edges(nf, some_e, cut=out_edges(nf, decs + rels))
            esc = [h for h in heads if h in reached]
            if esc:
                ctx.violation(["edge-dropped"], "notify_finish can drop a finished edge without decrementing the depender's counter or releasing it "
                              "(the depender is silently never rebuilt)", site=ctx.site(nf, esc[0]))
            else:
                ctx.ok("every finished edge either decrements the counter or releases the depender", site=ctx.site(nf, decs[0]))


@rule("C05", "R05.4", floor=1)
def r05_4(ctx):
    """cycles are never reported by a worker: a dependency found while collecting is recorded, not turned into an error —
    a worker error aborts the coordinator loop at once, so the acyclic rest of the project would be left unbuilt"""
    lib = ctx.lib
    b = body(ctx, "execute_directive")
    if not b:
        return
    some_e = enum_edges(b, lib, "std::option::Option", lambda vs: vs == {"Some"}, src_pred=lambda c: has_call(c.src, ROLE["get_txtpp_file"]))
    if not some_e:
        ctx.anchor_missing("`if let Some(x) = get_txtpp_file()` in the collect-deps gate")
        return
    reg = C.region(b, some_e)
    bad = []
    for bb in err_sites(b):
        if bb not in reg:
            continue
        t = b.term(bb)
        if t["k"] == "call" and C.is_from_residual(t):
            # `?`: acceptable only for the resolution of the dependency path (share_base)
            src = residual_origin(b, t)
            if all(leaf_is_call(l, ROLE["share_base"]) for l in src) and src:
                continue
            bad.append((bb, "`?` on %s" % sorted({(l.callee() or l.kind) for l in src})))
        else:
            bad.append((bb, "an error constructed in place"))
    if bad:
        ctx.violation(["dependency-becomes-error", bad[0][1][:80]], "while collecting dependencies, a found dependency can be turned into an immediate error (%s): "
                      "a self/cyclic dependency would then abort the whole run before the acyclic files are built" % bad[0][1], site=ctx.site(b, bad[0][0]))
    else:
        ctx.ok("a found dependency is only ever recorded (errors: path resolution only)", site=ctx.site(b, min(reg)))


@rule("C02", "R02.9", floor=4)
def r02_9(ctx):
    """one file, one identity: the scheduler's `files` set and the DepManager maps are keyed by AbsPath, so a dependency named through
    two spellings (`sub/../x`, a symlinked directory) must canonicalise to one key — otherwise it is processed twice and a depender can
    read it while the second run has it truncated (= C03 R03.6: AbsPath is built only from canonicalize())"""
    r03_6(ctx)


@rule("C05", "R05.6", floor=4)
def r05_6(ctx):
    """no spurious cycle: DepManager records every finished file before looking up its dependers, and never records an edge to a finished
    file — an edge to a file that will not be announced again would be left over and reported as a circular dependency (= C02 R02.7)"""
    r02_7(ctx)


@rule("C05", "R05.7", floor=2)
def r05_7(ctx):
    """all waiting is the coordinator's: a worker task owns what it needs (file, shell, mode, flags, the sending end of the channel) and
    shares no state through which it could wait for another file (= C02 R02.6). A cycle is reported because every "X waits for Y" is an
    edge in DepManager when the run drains; two workers waiting for each other's files on a shared tracker is a cycle nobody can see —
    the run hangs instead of failing"""
    r02_6(ctx)


@rule("C05", "R05.5", floor=1)
def r05_5(ctx):
    """the coordinator abandons outstanding work only for a failure it is told about: inside the receive loop an error is either
    propagated (`?` / a wrapped worker or IO error) or the Disconnected arm. An error the coordinator constructs itself there (for
    instance on seeing a self-dependency) would return while acyclic files are still unbuilt; cycles are reported after the loop, from
    take_remaining()"""
    lib = ctx.lib
    ri = body(ctx, "txtpp_run_internal")
    if not ri:
        return
    heads = [bb for bb, t in ri.calls() if C.callee_name(t) == TRY_RECV]
    if not heads:
        ctx.anchor_missing("try_recv loop in the coordinator")
        return
    disc = enum_edges(ri, lib, "std::sync::mpsc::TryRecvError", lambda vs: vs == {"Disconnected"}) | \
        enum_edges(ri, lib, "std::sync::mpmc::TryRecvError", lambda vs: vs == {"Disconnected"})
    disc_reg = C.region(ri, disc) if disc else set()
    done_e = bool_call_edges(ri, lib, ROLE["progress_is_done"], True)
    post = C.region(ri, done_e) if done_e else set()       # what runs after the loop was left because everything is done
    in_loop = set()
    for h in heads:
        in_loop |= C.after_edges(ri, out_edges(ri, [h]))
    FRESH = ("error_stack::Report::<C>::new", "<error_stack::Report<C> as std::convert::From<C>>::from")
    n = 0
    for bb, si, st in ri.stmts():
        if not (st["k"] == "assign" and st["rv"]["k"] == "aggregate" and st["rv"]["agg"].get("adt") == "std::result::Result"
                and st["rv"]["agg"].get("variant") == "Err" and st["lhs"]["l"] in ret_carriers(ri)):
            continue
        if bb not in in_loop:
            continue
        n += 1
        lv = C.trace(ri, st["rv"]["ops"][0], through_decorators=True)
        if not any(l.kind == "call" and C.callee_name(l.data) in FRESH for l in lv):
            continue      # a wrapped worker / IO error
        if bb in disc_reg or bb in post:
            ctx.ok("coordinator-made error after the loop / in the Disconnected arm", site=ctx.site(ri, bb))
        else:
            ctx.violation([ri.name, "coordinator-error-in-loop"], "the coordinator returns an error it constructed itself from inside the receive loop: "
                          "outstanding work (the acyclic part of the project) is abandoned; cycles must be reported after the loop has drained",
                          site=ctx.site(ri, bb))
    ctx.ok("errors returned from the receive loop are propagated worker/IO errors (%d error sites inspected)" % n, site=ctx.site(ri, heads[0]))


@rule("C03", "R03.8", floor=1)
def r03_8(ctx):
    """results travel over an UNBOUNDED channel: workers never block in send, so ThreadPool::join in Drop (which runs before the
    receiver is drained) always returns — with a bounded sync_channel a failing run with more pending results than capacity would
    dead-lock"""
    lib = ctx.lib
    n = 0
    for (b, kind, bb, names, obj) in C.all_mentions(lib, lambda ns: any(x.startswith("std::sync::mpsc::") and x.endswith("channel") for x in ns)):
        n += 1
        if any(x == "std::sync::mpsc::sync_channel" for x in names):
            ctx.violation([b.name, "bounded-channel"], "the result channel is bounded (mpsc::sync_channel): a worker can block in send while the "
                          "coordinator is not receiving (error return, Drop joins the pool first) — the run would never return", site=ctx.site(b, bb))
        else:
            ctx.ok("unbounded mpsc::channel|%s" % b.name, site=ctx.site(b, bb))
    if n == 0:
        ctx.anchor_missing("mpsc channel construction")


@rule("C02", "R02.10", floor=1)
def r02_10(ctx):
    """every include/after directive seen before the second pass is looked up as a dependency: in the collect-deps gate, with the
    PpMode::Execute early return and the get_txtpp_file() call cut, no return is reachable for DirectiveType::Include or ::After
    (a shortcut for 'already collecting' that skips `after` loses an ordering edge: the file is then built from stale or missing data)"""
    lib = ctx.lib
    b = body(ctx, "execute_directive")
    if not b:
        return
    gets = [bb for bb, t in calls_to(b, ROLE["get_txtpp_file"])]
    if not gets:
        ctx.anchor_missing("get_txtpp_file call in the collect-deps gate")
        return
    exec_e = enum_edges(b, lib, ADT["PpMode"], lambda vs: vs == {"Execute"})
    mo = M.Modes(lib, mode_adts=(ADT["DirectiveType"],), all_modes=frozenset(["Empty", "Include", "After", "Run", "Tag", "Temp", "Write"]))
    me = mo.mode_edges(b)
    rets = ok_sites(b)
    for v in ("Include", "After"):
        cut = {eid for eid, vs in me.items() if v not in vs} | out_edges(b, gets) | set(exec_e) | \
            enum_edges(b, lib, ADT["Mode"], lambda vs: vs == {"Clean"})
        bad = [bb for bb in rets if not C.guarded(b, bb, cut)]
        if bad:
            ctx.violation([b.name, "dependency-lookup-skipped", v], "a `%s` directive can pass the collect-deps gate without its target being looked up "
                          "as a dependency (outside PpMode::Execute)" % v.lower(), site=ctx.site(b, bad[0]), witness=C.witness(b, bad[0], cut))
        else:
            ctx.ok("%s directives always reach the dependency lookup before the second pass" % v, site=ctx.site(b, gets[0]))


@rule("C02", "R02.11", floor=3)
def r02_11(ctx):
    """the file an include READS is the file that was LOOKED UP as a dependency: the first pass looks up `work_dir.join(arg)`, the
    include arm reads `work_dir.try_resolve(arg)`, with `arg` the directive's first argument unmodified in both, and try_resolve itself
    names `arg` / `self.p.join(arg)` and nothing else (= C10 R10.5). If one side rewrites the argument (separator conversion, a
    fallback directory, normalisation) and the other does not, an include can read a generated file nobody waited for"""
    import rules_dir
    import tables as T
    lib = ctx.lib
    tr = lambda tt: C.is_transparent(tt) or T.item_preserving(C.callee_name(tt))

    def is_arg0(b, op):
        lv = C.trace(b, op, transparent=tr, through_fields=True)
        if not lv or not has_field(lv, "args"):
            return False, lv
        for l in lv:
            if l.kind == "field" and has_field([l], "args"):
                continue
            if l.kind == "param":
                continue        # the Directive value itself
            if l.kind == "const" and C.op_const(l.data) in ('""', "0_usize"):
                continue        # unwrap_or_default / map_or("", ..)
            if l.kind == "call" and C.callee_name(l.data) in ("std::string::String::new", "<std::string::String as std::default::Default>::default"):
                continue        # .. spelled as a call: the empty name of a directive without arguments
            return False, lv
        return True, lv
    gate = body(ctx, "execute_directive")
    if gate:
        gs = calls_to(gate, ROLE["get_txtpp_file"])
        if not gs:
            ctx.anchor_missing("get_txtpp_file call in the collect-deps gate")
        for bb, t in gs:
            ok = False
            why = "the looked-up path is not a Path::join"
            for l in C.trace(gate, t["args"][0], transparent=tr, through_fields=True):
                if l.kind == "call" and C.callee_name(l.data) in ("std::path::Path::join", "std::path::PathBuf::join"):
                    a0 = C.trace(gate, l.data["args"][0], through_fields=True, transparent=lambda tt: C.is_transparent(tt, ABSPATH_VIEWS))
                    good, lv = is_arg0(gate, l.data["args"][1])
                    if not has_field(a0, "work_dir"):
                        why = "the dependency is not looked up relative to IOCtx.work_dir"
                    elif not good:
                        why = "the looked-up name is not the directive's first argument unmodified: %s" % [repr(x) for x in lv][:3]
                    else:
                        ok = True
            if ok:
                ctx.ok("dependency lookup = work_dir.join(args[0])", site=ctx.site(gate, bb))
            else:
                ctx.violation([gate.name, "lookup-path"], "collect-deps gate: %s" % why, site=ctx.site(gate, bb))
    ed = body(ctx, "execute_directive")
    if ed:
        rs = [(bb, t) for bb, t in calls_to(ed, ROLE["try_resolve"])]
        if not rs:
            ctx.anchor_missing("try_resolve call in the include arm of execute_directive")
        for bb, t in rs:
            a0 = C.trace(ed, t["args"][0], through_fields=True)
            good, lv = is_arg0(ed, t["args"][1])
            if has_field(a0, "work_dir") and good:
                ctx.ok("include reads work_dir.try_resolve(args[0])", site=ctx.site(ed, bb))
            else:
                ctx.violation([ed.name, "read-path"], "the include arm does not resolve the directive's first argument unmodified against "
                              "IOCtx.work_dir: %s" % [repr(x) for x in lv][:3], site=ctx.site(ed, bb))
    rules_dir.r10_5(ctx)


@rule("C02", "R02.12", floor=2)
def r02_12(ctx):
    """whether a file's first pass collects dependencies depends on the first-pass flag alone: in Pp::run the PpMode::FirstPassExecute value
    is built for every Mode, and PpMode::Execute is not built on the first-pass edge (a Mode-dependent shortcut — "only Build needs to
    wait" — lets needed-build / verify read dependencies that were never scheduled)"""
    lib = ctx.lib
    pr = body(ctx, "pp_run")
    if not pr:
        return
    mo = modes(ctx)
    fp = [bb for bb, st in aggregates(pr, ADT["PpMode"], "FirstPassExecute")]
    ex = [bb for bb, st in aggregates(pr, ADT["PpMode"], "Execute")]
    if not fp or not ex:
        ctx.anchor_missing("PpMode::FirstPassExecute / PpMode::Execute selection in Pp::run")
        return
    p_fp = pr.param_index_by_name("is_first_pass")
    is_flag = lambda leaf: leaf is not None and leaf.kind == "param" and leaf.data == p_fp
    t_e = C.guard_edges(pr, lib, lambda c, v, leaf: c.kind == "bool" and is_flag(leaf) and v is True)
    f_e = C.guard_edges(pr, lib, lambda c, v, leaf: c.kind == "bool" and is_flag(leaf) and v is False)
    need = {"Build", "InMemoryBuild", "Verify"}
    for bb in fp:
        m = set(mo.local_modes(pr, bb))
        if need <= m and t_e and C.guarded(pr, bb, t_e):
            ctx.ok("first pass collects dependencies in every mode", site=ctx.site(pr, bb))
        else:
            ctx.violation([pr.name, "first-pass-by-mode"], "the dependency-collecting first pass is only selected for modes %s (all of %s expected) "
                          "or not by the first-pass flag" % (sorted(m), sorted(need)), site=ctx.site(pr, bb))
    for bb in ex:
        if f_e and C.guarded(pr, bb, f_e):
            ctx.ok("PpMode::Execute only when not the first pass", site=ctx.site(pr, bb))
        else:
            ctx.violation([pr.name, "execute-on-first-pass"], "PpMode::Execute can be selected although this is the file's first pass "
                          "(its dependencies would never be reported)", site=ctx.site(pr, bb))


@rule("C03", "R03.9", floor=1)
def r03_9(ctx):
    """every directory that was counted is scanned: execute_directory has no path from its entry to a return that bypasses the
    ThreadPool::execute of the scan task (its callers add the directory to the total beforehand; a skipped scan leaves the total
    unreachable and the coordinator waiting forever)"""
    lib = ctx.lib
    ed = body(ctx, "execute_directory")
    if not ed:
        return
    sp = calls_reaching(lib, ed, POOL_EXEC)
    if not sp:
        ctx.anchor_missing("scan task spawn in execute_directory")
        return
    cut = out_edges(ed, [x[0] for x in sp])
    rets = [bb for bb in C.live(ed) if ed.term(bb)["k"] == "return"]
    bad = [bb for bb in rets if not C.guarded(ed, bb, cut)]
    if bad:
        ctx.violation([ed.name, "scan-skipped"], "execute_directory can return without spawning the scan task although the directory was already "
                      "counted in the total", site=ctx.site(ed, bad[0]), witness=C.witness(ed, bad[0], cut))
    else:
        ctx.ok("execute_directory always spawns the scan task", site=ctx.site(ed, sp[0][0]))


@rule("C05", "R05.8", floor=1)
def r05_8(ctx):
    """every dependency a file reports is scheduled (or is already scheduled): the loop over the `deps` of a `HasDeps` result is left only
    when the list is exhausted or by an error — an `Ok` way out of its body (`return Ok(())` where `continue` was meant, after the first
    dependency that is already in the build) leaves the later dependencies unscheduled: their edges stay in the graph and a project without
    any cycle is reported as circular"""
    lib = ctx.lib
    ri = body(ctx, "txtpp_run_internal")
    if not ri:
        return
    pp_adt = ADT.get("PpResult")
    heads = []
    for bb, t in ri.calls():
        if not C.callee_name(t).endswith("as std::iter::Iterator>::next") or not t["args"]:
            continue
        lv = C.trace(ri, t["args"][0], through_fields=True, transparent=lambda tt: C.is_transparent(tt) or T.item_preserving(C.callee_name(tt)))
        if any(l.kind == "field" and any(o == pp_adt and v == "HasDeps" for (o, v, n) in C.pl_fields(l.data)) for l in lv):
            heads.append((bb, t))
    if not heads:
        ctx.unverified("no loop over the dependency list of a HasDeps result found in the coordinator", site=ctx.site(ri, 0))
        return
    outer = [bb for bb, t in ri.calls() if C.callee_name(t) in (TRY_RECV, "std::sync::mpsc::Receiver::<T>::recv", "std::sync::mpsc::Receiver::<T>::recv_timeout")]
    errs = set(err_sites(ri))
    for hbb, ht in heads:
        some_e = enum_edges(ri, lib, "std::option::Option", lambda vs: vs == {"Some"},
                            src_pred=lambda c, hbb=hbb: any(l.kind == "call" and l.bb == hbb for l in c.src))
        if not some_e:
            ctx.unverified("the Some edge of the dependency loop was not found", site=ctx.site(ri, hbb))
            continue
        reach = C.after_edges(ri, some_e, cut=out_edges(ri, [hbb]))
        oks = set(ok_sites(ri))
        esc = [bb for bb in reach if bb in outer] + [bb for bb in reach if bb in oks]
        if esc:
            ctx.violation([ri.name, "dependency-loop-left-early"], "the loop that schedules a file's dependencies can be left from inside its body "
                          "without an error: the dependencies after that point are never scheduled, and the file waits for them until the run "
                          "reports a circular dependency", site=ctx.site(ri, esc[0]))
        else:
            ctx.ok("the dependency loop is left only when exhausted or by an error", site=ctx.site(ri, hbb))


def _counted_is_spawned(ctx):
    lib = ctx.lib
    ri = body(ctx, "txtpp_run_internal")
    if not ri:
        return
    ADD = ROLE.get("progress_add_total") or "txtpp::core::util::progress::Progress::add_total"
    item = lambda tt: C.is_transparent(tt) or T.item_preserving(C.callee_name(tt)) or (C.callee_name(tt) or "").endswith(("::into_iter", "::iter", "::iter_mut"))

    def coll_id(b, op):
        out = set()
        for l in C.trace(b, op, through_fields=True, transparent=item):
            if l.kind == "field":
                names = [n for (o, v, n) in C.pl_fields(l.data)]
                if names and names[-1] and not str(names[-1]).isdigit():      # (payload positions `.0` / `.1` of enum variants name nothing)
                    out.add(("field", names[-1]))
            elif l.kind == "call" and (C.callee_name(l.data) or "").endswith(("::collect", "::to_vec", "Vec::<T>::new", "::with_capacity")):
                out.add(("call", l.bb))
        return frozenset(out)
    n = 0
    for B in [ri]:
        spawns = [bb for bb, t in B.calls() if C.callee_name(t) == POOL_EXEC or ROLE["execute_directory"] in C.callee_names(t)]
        for abb, at in calls_to(B, ADD):
            if len(at["args"]) < 2:
                continue
            lens = [l for l in C.trace(B, at["args"][1]) if l.kind == "call" and re.search(r"::len$", C.callee_name(l.data) or "")]
            # `a.len() + b.len()`: the operands of the sum
            work = [l for l in C.trace(B, at["args"][1]) if l.kind == "binop"]
            seen_b = set()
            while work:
                l = work.pop()
                if id(l.data) in seen_b:
                    continue
                seen_b.add(id(l.data))
                for o in (l.data["a"], l.data["b"]):
                    for x in C.trace(B, o):
                        if x.kind == "binop":
                            work.append(x)
                        elif x.kind == "call" and re.search(r"::len$", C.callee_name(x.data) or ""):
                            lens.append(x)
            for ln in lens:
                cid = coll_id(B, ln.data["args"][0])
                if not cid:
                    continue
                heads = [(hbb, ht) for hbb, ht in B.calls() if C.callee_name(ht).endswith("as std::iter::Iterator>::next") and ht["args"]
                         and cid & coll_id(B, ht["args"][0]) and hbb in B.reachable(abb)]
                if not heads:
                    ctx.unverified("a collection whose length is added to the total is not iterated afterwards in a recognisable loop", site=ctx.site(B, abb))
                    continue
                for hbb, ht in heads:
                    n += 1
                    some_e = enum_edges(B, lib, "std::option::Option", lambda vs: vs == {"Some"},
                                        src_pred=lambda c, hbb=hbb: any(l.kind == "call" and l.bb == hbb for l in c.src))
                    reach = C.after_edges(B, some_e, cut=out_edges(B, spawns)) if some_e else set()
                    errs = set(err_sites(B))
                    if hbb in reach:
                        ctx.violation([B.name, "counted-not-spawned"], "every element of this collection was added to the progress total, but an iteration "
                                      "of the loop over it can go on to the next element without starting a task (an element that is already "
                                      "in the build is skipped): the total can never be reached and the run never ends", site=ctx.site(B, hbb))
                    else:
                        ctx.ok("every counted element starts a task", site=ctx.site(B, hbb))
    if n == 0:
        ctx.ok("no collection is counted in bulk except through execute_directory / per file", site=ctx.site(ri, 0))


@rule("C03", "R03.12", floor=1)
def r03_12(ctx):
    """(= C18 R18.7) every run terminates: no file or directory is counted in the progress total without a task being started for it"""
    _counted_is_spawned(ctx)


@rule("C02", "R02.15", floor=1)
def r02_15(ctx):
    """a dependency is complete when its depender is released: a file is first-passed once (= C03 R03.5, including batches of scanned or
    named files) — of two tasks for the same file the first to finish marks it done and releases its dependers while the second has
    truncated the output again and is still writing it"""
    r03_5(ctx)
