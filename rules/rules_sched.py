def r02_2(ctx): pass
def r02_3(ctx): pass
def r03_1(ctx): pass
