"""P-modes: under which `Mode` variants can a site execute?  (effect matrix, DESIGN §4.2, K6)

site_modes(body, bb) = local_modes(body, bb) ∩ ⋃ over compatible call sites c of body: site_modes(c)

* local_modes: V is possible at bb iff bb stays reachable when every edge of a switch on a
  `Mode`/`CtxOut` discriminant (or of a `<Mode as PartialEq>::eq(_, const V)` test) that excludes V
  is deleted.  All Mode-typed values inside one task are the run's mode (CtxOut::new maps Mode k to
  CtxOut k: table rule R09.4), so the switches are consistent.
* compatible call sites: if bb is guarded by the true (false) edge of a bool parameter p of the body,
  call sites passing `const false` (`const true`) for p are not compatible (constant-argument
  sensitivity: `try_resolve(_, false)`, `execute_directive_temp(_, true)`).
* closures run where they are created (conservative); bodies without in-crate mention run in every mode.
"""
import core as C

MODE_ADTS = ("txtpp::core::execute::config::Mode", "txtpp::fs::io_context::CtxOut", "txtpp::Mode")
ALL = frozenset(["Build", "InMemoryBuild", "Clean", "Verify"])


class Modes:
    def __init__(self, prog, mode_adts=None, all_modes=ALL):
        self.prog = prog
        if mode_adts is None:
            import common
            mode_adts = (common.ADT["Mode"], common.ADT["CtxOut"], "txtpp::Mode")
        self.mode_adts = mode_adts
        self.all = all_modes
        self._local = {}
        self._callers = None
        self._memo = {}
        self._param_guard = {}

    # ---- mode-testing edges of a body: {edge_id: set of variants the edge admits}
    def mode_edges(self, body):
        cache = body.__dict__.setdefault("_mode_edges", {})
        ck = tuple(sorted(self.mode_adts))
        if ck in cache:
            return cache[ck]
        r = {}
        for bb in C.switches(body):
            c = C.switch_cond(body, bb)
            if c.kind == "enum" and c.adt in self.mode_adts:
                for eid, succ, vs in C.edge_variants(body, bb, c, self.prog):
                    r[eid] = set(v for v in vs if v in self.all)
            elif c.kind == "bool":
                # `mode == Mode::Clean` / `mode != Mode::Clean`
                for leaf in c.src:
                    for adt in self.mode_adts:
                        res = C.eq_variant_test(body, leaf, adt, self.all)
                        if res is None:
                            continue
                        var, is_ne = res
                        for val, eid in C.bool_edges(body, bb).items():
                            truth = (not val) if leaf.neg else val
                            if is_ne:
                                truth = not truth
                            r[eid] = {var} if truth else set(self.all - {var})
        cache[ck] = r
        return r

    def local_modes(self, body, bb):
        key = (body.name, bb)
        if key in self._local:
            return self._local[key]
        me = self.mode_edges(body)
        if not me:
            res = self.all
        else:
            res = set()
            for v in self.all:
                cut = {eid for eid, vs in me.items() if v not in vs}
                if not C.guarded(body, bb, cut):
                    res.add(v)
            res = frozenset(res)
        self._local[key] = res
        return res

    # ---- callers
    def callers(self):
        if self._callers is None:
            m = {}
            for b in self.prog.bodies.values():
                for kind, bb, names, obj in C.body_mentions(b):
                    for nm in names:
                        if nm in self.prog.bodies:
                            m.setdefault(nm, []).append((b, bb, kind, obj))
                            break
            self._callers = m
        return self._callers

    def param_guards(self, body, bb):
        """{param local: required truth value} for bool params p such that bb is guarded by p's edge"""
        key = (body.name, bb)
        if key in self._param_guard:
            return self._param_guard[key]
        res = {}
        for p in range(1, body.arg_count + 1):
            if body.locals[p]["ty"] != "bool":
                continue
            for want in (True, False):
                cut = C.guard_edges(body, self.prog, lambda c, v, leaf, p=p, want=want:
                                    c.kind == "bool" and leaf is not None and leaf.kind == "param" and leaf.data == p and v == want)
                if cut and C.guarded(body, bb, cut):
                    res[p] = want
        self._param_guard[key] = res
        return res

    def site_modes(self, body, bb, _stack=None):
        key = (body.name, bb)
        if key in self._memo:
            return self._memo[key]
        _stack = _stack or set()
        if key in _stack:
            return self.all
        _stack = _stack | {key}
        loc = self.local_modes(body, bb)
        if not loc:
            self._memo[key] = loc
            return loc
        cs = self.callers().get(body.name)
        if not cs:
            # no in-crate mention: an API / trait-impl root runs in every mode; a private inherent fn is dead code
            vis = body.j.get("vis", "Public")
            dead = body.kind != "Closure" and vis.startswith("Restricted") and not body.j.get("impl_trait")
            res = frozenset() if dead else loc
        else:
            pg = self.param_guards(body, bb)
            acc = set()
            for (cb, cbb, kind, obj) in cs:
                if kind == "call" and pg:
                    ok = True
                    for p, want in pg.items():
                        args = obj["args"]
                        if p - 1 < len(args):
                            v = C.op_const(args[p - 1])
                            if v in ("true", "false") and (v == "true") != want:
                                ok = False
                    if not ok:
                        continue
                acc |= self.site_modes(cb, cbb, _stack)
                if acc >= loc:
                    break
            res = frozenset(loc & acc)
        self._memo[key] = res
        return res
