"""C12 (line-ending taint), C13 (trailing-newline non-interference), C16 (ordinary text / write inertness)."""
import re

import core as C
import flow as Fl
import taint as Tn
from common import *  # noqa
from engine import prop, rule

LINES = "std::str::<impl str>::lines"
PUSH_STR = "std::string::String::push_str"
JOIN = "std::slice::<impl [T]>::join"

prop("C12", "Generated files use one line ending: that of the source's first line",
     decided=["R12.1 no raw text (command output, included file, newline-bearing constants, stored tag content) reaches the content operand of "
              "write_output / write_temp_file or the result of inject_tags without passing format_directive_output / replace_line_ending (taint)",
              "R12.2 IOCtx.line_ending is assigned once, from get_line_ending(input_file); every separator written is that field",
              "R12.3 the sanitizers sanitize: their inputs are str::lines() items or directive arguments, and every separator they push is the "
              "line_ending value"],
     not_decided=["that the buffer handed to the sniffer holds exactly `len` bytes of the first line (a runtime fact about read_until; R12.6 fixes "
                  "where it comes from, R12.7 which comparisons decide the answer)",
                  "behaviour for a lone CR (outside the domain; lines() keeps it)"])

prop("C13", "The trailing-newline option controls one final line ending and nothing else",
     decided=["R13.1 in the line processor, the trailing_newline parameter controls exactly one effect: one write_output(line_ending) outside "
              "every loop, before done()",
              "R13.2 Config.trailing_newline flows only execute_file -> task closure -> preprocess -> Pp::run -> run_internal; it is stored in no "
              "field and reaches no other function (so it cannot influence temp files or in-loop writes)",
              "R13.3 the CLI maps trailing_newline = !no_trailing_newline and the flag's short form is -n"],
     not_decided=["what the pending-newline state is at end of file for each source shape (state machine; C01)"])

prop("C16", "Ordinary text passes through unchanged and write output is inert",
     decided=["R16.1 only source lines are parsed as directives or tag-substituted: the line operands of detect_from / add_line / inject_tags derive "
              "from IOCtx::next_line items (directly or via the saved tail line) only",
              "R16.2 the content written for an ordinary line derives from the source line through inject_tags or unchanged; directive output "
              "only through format_directive_output",
              "R16.3 the write directive returns join(args, \"\\n\") with nothing else in between"],
     not_decided=["byte-exact round trip (C01)", "completeness of escaping"])


def sanitizer_names():
    return [ROLE["format_directive_output"], ROLE["replace_line_ending"]]


def taint_graph(ctx):
    return shared(ctx, "taint", lambda: Tn.Taint(ctx.lib, sanitizers=sanitizer_names()))


def fmt_template_text(v):
    """literal text of a `format_args!` template constant (rustc's byte encoding: length-prefixed literal pieces, 0xC0.. placeholder bytes
    with optional fields, a final 0) — None if `v` is not a well-formed template. The length byte of a 10- or 13-byte piece is not a
    line break."""
    if not (v.startswith('b"') and v.endswith('"')):
        return None
    try:
        import ast
        raw = ast.literal_eval(v)
    except Exception:
        return None
    out, i = b"", 0
    while True:
        if i >= len(raw):
            return None
        n = raw[i]
        i += 1
        if n == 0:
            return out.decode("utf-8", "replace") if i == len(raw) else None
        if n < 0x80:
            if i + n > len(raw):
                return None
            out += raw[i:i + n]
            i += n
        elif n == 0x80:
            if i + 2 > len(raw):
                return None
            ln = raw[i] | (raw[i + 1] << 8)
            i += 2
            if i + ln > len(raw):
                return None
            out += raw[i:i + ln]
            i += ln
        elif n >= 0xC0:
            i += (4 if n & 1 else 0) + (2 if n & 2 else 0) + (2 if n & 4 else 0) + (2 if n & 8 else 0)
        else:
            return None


def has_newline(v):
    lit = fmt_template_text(v)
    if lit is not None:
        return "\n" in lit or "\r" in lit
    return "\\n" in v or "\\r" in v


@rule("C12", "R12.1", floor=6)
def r12_1(ctx):
    lib = ctx.lib
    tn = taint_graph(ctx)
    src = {}
    for b in lib.bodies.values():
        for bb, t in b.calls():
            nm = C.callee_name(t)
            if nm == ROLE["shell_run"]:
                src[tn.node_of_place(b, t["dest"])] = "command output"
            elif nm in ("std::fs::read_to_string", "std::fs::read", "std::io::Read::read_to_string", "std::io::Read::read_to_end"):
                src[tn.node_of_place(b, t["dest"])] = "file content (%s)" % nm
            elif nm in ("std::string::String::from_utf8_lossy", "std::string::String::from_utf8") and b.name != ROLE["shell_run"]:
                src[tn.node_of_place(b, t["dest"])] = "decoded bytes"
            elif nm in ("std::io::Read::read_to_string", "std::io::Read::read_to_end", "std::io::BufRead::read_line", "std::io::BufRead::read_until",
                        "std::io::Read::read_exact", "std::io::Read::read") or re.search(r" as std::io::(Buf)?Read>::(read_to_string|read_to_end|read_line|read_until|read)$", nm):
                # handle-based reads write through their &mut buffer argument
                if b.name not in (ROLE["write_output"], ROLE["get_line_ending"]) and "::get_line_ending::" not in b.name and len(t["args"]) > 1:
                    n = tn.node_of_op(b, t["args"][-1])
                    if n is not None:
                        src[n] = "file content read through a handle (%s)" % nm.rsplit("::", 1)[-1]
            elif nm in ("std::env::var", "std::env::var_os", "std::env::args"):
                src[tn.node_of_place(b, t["dest"])] = "environment"
    for c in tn.text_const_nodes(has_newline):
        if c[1] != ROLE["get_line_ending_from_buf"]:
            src[c] = "constant %s" % c[3]
    if not any(v == "command output" for v in src.values()):
        ctx.anchor_missing("command-output source (call of Shell::run)")
    barriers = {("f", ADT["IOCtx"], None, "line_ending")}
    prev = tn.forward(src.keys(), barriers)
    nn, ne = tn.stats()
    # the store of tag contents must be reachable (otherwise the graph lost the raw flows: fail closed)
    if ("f", ADT["TagState"], None, "stored") not in prev:
        ctx.violation(["graph-sanity"], "the raw-text flow into TagState.stored is no longer visible to the taint graph (rule would pass vacuously)")
    sinks = []
    for b in lib.bodies.values():
        for bb, t in b.calls():
            nm = C.callee_name(t)
            if nm == ROLE["write_output"]:
                sinks.append((b, bb, "write_output content", tn.node_of_op(b, t["args"][1]), t["args"][1]))
            elif nm == ROLE["write_temp_file"]:
                sinks.append((b, bb, "temp file content", tn.node_of_op(b, t["args"][2]), t["args"][2]))
    inj = body(ctx, "tag_inject")
    if inj:
        sinks.append((inj, 0, "inject_tags result", ("r", inj.name), None))
    for (b, bb, what, node, op) in sinks:
        site = ctx.site(b, bb)
        # constant operands written directly
        if node is None and op is not None and op["k"] == "const":
            if has_newline(C.op_const(op) or ""):
                ctx.violation([b.name, what, "const"], "%s is a constant containing a line terminator (%s): it bypasses the source's line ending" % (
                    what, C.op_const(op)), site=site)
            else:
                ctx.ok("%s|%s|const" % (what, b.name), site=site)
            continue
        if node in prev:
            chain = tn.chain(prev, node)
            ctx.violation([b.name, what], "raw text (%s) reaches the %s without passing a line-ending normaliser" % (
                src.get(_root(prev, node), "?"), what), site=site, witness=chain[:1] + chain[-6:])
        else:
            ctx.ok("%s|%s|clean" % (what, b.name), site=site, detail="graph %d nodes / %d edges; %d sources" % (nn, ne, len(src)))


def _root(prev, n):
    while prev.get(n) is not None:
        n = prev[n]
    return n


@rule("C12", "R12.2", floor=3)
def r12_2(ctx):
    lib = ctx.lib
    pv = prov(ctx)
    # single origin of the field
    ws = pv.field_writes().get((ADT["IOCtx"], None, "line_ending"), [])
    if not ws:
        ctx.anchor_missing("write of IOCtx.line_ending")
    for (b, bb, op) in ws:
        lv = C.trace(b, op, through_decorators=True) if "k" in op and op["k"] in ("copy", "move", "const") else []
        good = b.name == ROLE["ioctx_new"] and lv and all(
            leaf_is_call(l, ROLE["get_line_ending"]) and has_param(C.trace(b, l.data["args"][0]), b, "input_file") for l in lv)
        if good:
            ctx.ok("IOCtx.line_ending <- get_line_ending(input_file)", site=ctx.site(b, bb))
        else:
            ctx.violation([b.name, "line_ending-origin"], "IOCtx.line_ending is assigned from something other than get_line_ending(input_file)",
                          site=ctx.site(b, bb))
    # separators written by the line processor are that field
    ri = body(ctx, "pp_run_internal")
    if ri:
        n = 0
        for bb, t in calls_to(ri, ROLE["write_output"]):
            lv = C.trace(ri, t["args"][1], through_fields=True)
            if has_field(lv, "line_ending"):
                n += 1
                ctx.ok("separator write uses IOCtx.line_ending", site=ctx.site(ri, bb))
        if n < 2:
            ctx.violation([ri.name, "separators"], "fewer than two separator writes use IOCtx.line_ending (%d)" % n, site=ctx.site(ri, 0))


def _sep_ok(b, op, param_name=None):
    lv = C.trace(b, op, through_fields=True)
    if has_field(lv, "line_ending"):
        return True
    if param_name and lv and all(l.kind == "param" and b.local_name(l.data) == param_name for l in lv):
        return True
    return False


def _accumulator_independent(ctx, b):
    """separator placement must not depend on the text accumulated so far: a separator push that is control-dependent on a predicate over the
    accumulator (`if !output.is_empty() { push(sep) }`) miscounts separators when pieces are empty (leading blank lines vanish)"""
    lib = ctx.lib
    acc = set()
    for bb, t in b.calls():
        if C.callee_name(t) in (PUSH_STR, "std::string::String::push"):
            for l in C.trace(b, t["args"][0]):
                acc.add((l.kind, l.bb, l.data if l.kind == "param" else None) if l.kind != "call" else ("call", l.bb, None))
    if not acc:
        return
    sep_sites = [bb for bb, t in b.calls() if C.callee_name(t) == PUSH_STR and _sep_ok(b, t["args"][1])]
    for sbb in C.switches(b):
        c = C.switch_cond(b, sbb)
        if c.kind != "bool":
            continue
        on_acc = False
        for leaf in c.src:
            if leaf.kind == "call" and leaf.data["args"]:
                for l in C.trace(b, leaf.data["args"][0]):
                    k = (l.kind, l.bb, l.data if l.kind == "param" else None) if l.kind != "call" else ("call", l.bb, None)
                    if k in acc:
                        on_acc = True
        if not on_acc:
            continue
        for val, eid in C.bool_edges(b, sbb).items():
            for site in sep_sites:
                if site in C.exclusive_region(b, {eid}):
                    ctx.violation([b.name, "separator-depends-on-accumulator"], "a line separator is written depending on a test of the text accumulated so far "
                                  "(%s): empty pieces are then joined without separator" % sorted(set(filter(None, c.src_callees()))), site=ctx.site(b, site))
                    return
    ctx.ok("separator placement in %s does not depend on the accumulated text" % b.name.rsplit("::", 1)[-1], site=ctx.site(b, 0))


@rule("C12", "R12.3", floor=8)
def r12_3(ctx):
    lib = ctx.lib
    fdo = body(ctx, "format_directive_output")
    rle = body(ctx, "replace_line_ending")
    inj = body(ctx, "tag_inject")
    # (a) call sites of format_directive_output: the line iterator
    if fdo:
        p_it = fdo.param_index_by_name("raw_output")
        for (b, bb, t) in C.all_call_sites(lib, lambda ns, t: fdo.name in ns):
            lv = C.trace(b, t["args"][p_it - 1], transparent=lambda tt: C.is_transparent(tt) or T.item_preserving(C.callee_name(tt)),
                         through_fields=True)
            ok = bool(lv)
            for l in lv:
                if leaf_is_call(l, LINES):
                    continue
                if l.kind == "param" and b.local_name(l.data) == "args":
                    continue       # Directive.args: fragments of terminator-free source lines
                if l.kind == "field" and has_field([l], "args"):
                    continue
                ok = False
            if ok:
                ctx.ok("format_directive_output input is lines() / directive args|%s" % b.name, site=ctx.site(b, bb))
            else:
                ctx.violation([b.name, "fdo-input"], "format_directive_output is fed something other than str::lines() items or directive arguments "
                              "(e.g. split('\\n') keeps '\\r'): %s" % [repr(l) for l in lv][:4], site=ctx.site(b, bb))
        # (b) inside: every piece pushed is the separator (line_ending), the indentation parameter or an item of the line iterator
        p_ws = fdo.param_index_by_name("whitespaces")
        # the separator may reach the formatter as a parameter (formatter written as a free function): then every caller must hand
        # it IOCtx.line_ending there
        sites = C.all_call_sites(lib, lambda ns, t: fdo.name in ns)
        sep_params = {pi for pi in range(1, fdo.arg_count + 1) if pi not in (p_it, p_ws) and sites and
                      all(pi - 1 < len(t["args"]) and _sep_ok(b, t["args"][pi - 1]) for (b, bb, t) in sites)}
        _sep_ok_fdo = lambda op: _sep_ok(fdo, op) or (lambda lv: bool(lv) and all(l.kind == "param" and l.data in sep_params for l in lv))(
            C.trace(fdo, op, through_fields=True))
        for bb, t in fdo.calls():
            nm = C.callee_name(t)
            if nm == JOIN:
                if _sep_ok_fdo(t["args"][1]):
                    ctx.ok("format_directive_output: join separator is line_ending", site=ctx.site(fdo, bb))
                else:
                    ctx.violation([fdo.name, "sep", nm], "format_directive_output joins with a separator that is not IOCtx.line_ending", site=ctx.site(fdo, bb))
            elif nm == PUSH_STR:
                lv = C.trace(fdo, t["args"][1], through_fields=True, transparent=lambda tt: C.is_transparent(tt) or T.item_preserving(C.callee_name(tt)))
                if _sep_ok_fdo(t["args"][1]):
                    ctx.ok("format_directive_output: pushed separator is line_ending", site=ctx.site(fdo, bb))
                elif lv and all(l.kind == "param" and l.data in (p_ws, p_it) for l in lv):
                    ctx.ok("format_directive_output: pushed piece is the indentation / a line item", site=ctx.site(fdo, bb))
                else:
                    ctx.violation([fdo.name, "piece", nm], "format_directive_output pushes text that is neither line_ending, the indentation nor a line item: %s" % (
                        [repr(l) for l in lv][:3]), site=ctx.site(fdo, bb))
            elif nm in ("std::string::String::push", "std::vec::Vec::<T, A>::push") or nm.endswith("::extend") or nm.endswith("::insert_str"):
                ctx.violation([fdo.name, "extra-push", nm], "format_directive_output builds its result with %s (unreviewed piece)" % nm, site=ctx.site(fdo, bb))
        for cl in lib.closures_of(fdo):
            for bb, si, st in cl.stmts():
                for op in ([st["rv"].get("op")] if st["k"] == "assign" and isinstance(st["rv"].get("op"), dict) else []):
                    if op["k"] == "const" and has_newline(C.op_const(op) or ""):
                        ctx.violation([cl.name, "const-newline"], "the per-line formatter of format_directive_output contains a line terminator constant",
                                      site=ctx.site(cl, bb))
        ctx.ok("format_directive_output: per-line formatter has no terminator constant", site=ctx.site(fdo, 0))
        _accumulator_independent(ctx, fdo)
    # (c) replace_line_ending
    if rle:
        for bb, t in rle.calls():
            nm = C.callee_name(t)
            if nm != PUSH_STR and not (nm.endswith("::extend") and len(t["args"]) == 2):
                if nm in ("std::string::String::push",) or nm.endswith("::insert_str") or nm.endswith("::extend"):
                    ctx.violation([rle.name, "extra-push", nm], "replace_line_ending builds its result with %s" % nm, site=ctx.site(rle, bb))
                continue
            # push_str(piece) / extend(pieces): every piece is a lines() item or the line_ending parameter
            at = piece_atoms(lib, rle, t["args"][1])
            if at and at <= {("call", LINES), ("param", "line_ending")}:
                ctx.ok("replace_line_ending pushes a lines() item or line_ending", site=ctx.site(rle, bb))
            else:
                ctx.violation([rle.name, "push"], "replace_line_ending pushes text that is neither a lines() item nor the line_ending parameter: %s" % (
                    sorted(map(str, at))[:4]), site=ctx.site(rle, bb))
        # what is returned is the accumulator the pieces were pushed onto (an early `return self.to_string()` is raw text)
        rl = C.trace(rle, {"l": 0, "p": []})
        allowed = {("call", LINES), ("param", "line_ending")}

        def assembled(l):
            if l.kind != "call":
                return False
            nm = C.callee_name(l.data)
            if nm in ("std::string::String::new", "std::string::String::with_capacity"):
                return True
            # `pieces.join(sep)` / `pieces.concat()` / `pieces.collect::<String>()`: the accumulator starts as the joined pieces
            if nm in (JOIN, "std::slice::<impl [T]>::concat", "std::iter::Iterator::collect") and l.data["args"]:
                at = piece_atoms(lib, rle, l.data["args"][0])
                sep = piece_atoms(lib, rle, l.data["args"][1]) if nm == JOIN and len(l.data["args"]) > 1 else set()
                return bool(at) and at <= allowed and sep <= {("param", "line_ending")} and (nm != JOIN or bool(sep))
            return False
        if rl and all(assembled(l) for l in rl):
            ctx.ok("replace_line_ending returns the string it assembled", site=ctx.site(rle, 0))
        else:
            ctx.violation([rle.name, "return"], "replace_line_ending can return text it did not assemble from lines() items and line_ending: %s" % (
                [repr(l) for l in rl][:3]), site=ctx.site(rle, 0))
        ls = calls_to(rle, LINES)
        if not ls or not all(has_param(C.trace(rle, t["args"][0]), rle, "self") for bb, t in ls):
            ctx.violation([rle.name, "lines"], "replace_line_ending no longer splits its input with str::lines()", site=ctx.site(rle, 0))
        _accumulator_independent(ctx, rle)
    # (d) inject_tags: pieces are slices of the (terminator-free) line or normalised tag content
    if inj:
        for bb, t in inj.calls():
            if C.callee_name(t) != PUSH_STR:
                continue
            lv = C.trace(inj, t["args"][1], through_fields=True)
            ok = bool(lv)
            for l in lv:
                if leaf_is_call(l, ROLE["replace_line_ending"]):
                    la = C.trace(inj, l.data["args"][1], through_fields=True)
                    if not (la and all(x.kind == "param" and inj.local_name(x.data) == "line_ending" for x in la)):
                        ok = False
                    continue
                if l.kind == "call" and C.callee_name(l.data).endswith("Index<I> for str>::index") and \
                        has_param(C.trace(inj, l.data["args"][0]), inj, "output"):
                    continue
                ok = False
            if ok:
                ctx.ok("inject_tags pushes a slice of the line or normalised tag content", site=ctx.site(inj, bb))
            else:
                ctx.violation([inj.name, "push"], "inject_tags pushes text that is neither a slice of the source line nor replace_line_ending(stored, "
                              "line_ending): %s" % [repr(l) for l in lv][:4], site=ctx.site(inj, bb))
        # the line_ending handed to inject_tags is the field
        for (b, bb, t) in C.all_call_sites(lib, lambda ns, t: inj.name in ns):
            if _sep_ok(b, t["args"][2]):
                ctx.ok("inject_tags is given IOCtx.line_ending", site=ctx.site(b, bb))
            else:
                ctx.violation([b.name, "inject-le"], "inject_tags is given a line ending other than IOCtx.line_ending", site=ctx.site(b, bb))


# ===================================================================================== C13

IGNORED_EFFECT_RE = (
    "std::ops::Try", "std::ops::FromResidual", "error_stack::", "std::fmt::", "std::hint::must_use", "log::", "std::cmp::",
    "<std::string::String as std::ops::Deref>::deref", "std::convert::", "std::clone::",
)


def _effect_calls(b, blocks):
    out = []
    for bb, t in b.calls():
        if bb not in blocks:
            continue
        nm = C.callee_name(t)
        if any(nm.startswith(p) or ("<" in nm and p in nm.split(" as ")[-1]) for p in IGNORED_EFFECT_RE):
            continue
        out.append((bb, t))
    return out


@rule("C13", "R13.1", floor=2)
def r13_1(ctx):
    lib = ctx.lib
    b = body(ctx, "pp_run_internal")
    if not b:
        return
    p = b.param_index_by_name("trailing_newline")
    if p is None:
        ctx.anchor_missing("trailing_newline parameter of the line processor")
        return
    t_edges = C.guard_edges(b, lib, lambda c, v, leaf: c.kind == "bool" and leaf is not None and leaf.kind == "param" and leaf.data == p and v is True)
    f_edges = C.guard_edges(b, lib, lambda c, v, leaf: c.kind == "bool" and leaf is not None and leaf.kind == "param" and leaf.data == p and v is False)
    if not t_edges:
        ctx.violation(["flag-unused"], "the trailing_newline parameter no longer controls anything in the line processor", site=ctx.site(b, 0))
        return
    # data uses of the flag: only the switch
    from rules_io import forward_uses
    du = [u for u in forward_uses(b, p) if not u.startswith("std::clone::")]
    if du:
        ctx.violation(["flag-data-use", ",".join(sorted(set(du)))], "trailing_newline is passed to %s (it may influence more than the final line ending)" % sorted(set(du)),
                      site=ctx.site(b, 0))
    else:
        ctx.ok("trailing_newline is only tested, never passed on", site=ctx.site(b, 0))
    # the option is consulted once per file, after the last line: no test of it inside the line loop (a per-line or per-directive decision
    # that depends on it changes more than the one final line ending, even when it only selects a constant)
    in_loop = sorted({eid[0] for eid in (t_edges | f_edges) if b.in_cycle(eid[0])})
    if in_loop:
        ctx.violation(["flag-tested-in-loop"], "trailing_newline is tested inside the line loop: it influences the text produced for a line or "
                      "directive, not only the final line ending", site=ctx.site(b, in_loop[0]))
    else:
        ctx.ok("trailing_newline is not tested inside the line loop", site=ctx.site(b, min(e[0] for e in t_edges)))
    t_reg = C.exclusive_region(b, t_edges)
    f_reg = C.exclusive_region(b, f_edges) if f_edges else set()
    eff_t = _effect_calls(b, t_reg)
    eff_f = _effect_calls(b, f_reg)
    ok = len(eff_t) == 1 and not eff_f and C.callee_name(eff_t[0][1]) == ROLE["write_output"]
    if not ok:
        ctx.violation(["flag-effects"], "the trailing_newline flag controls %s on its true edge and %s on its false edge (expected: exactly one "
                      "write_output on the true edge)" % ([C.callee_name(t) for bb, t in eff_t], [C.callee_name(t) for bb, t in eff_f]),
                      site=ctx.site(b, min(t_reg) if t_reg else 0))
        return
    bb, t = eff_t[0]
    site = ctx.site(b, bb)
    if not has_field(C.trace(b, t["args"][1], through_fields=True), "line_ending"):
        ctx.violation(["flag-writes-other"], "the flag-controlled write does not write IOCtx.line_ending", site=site)
    elif b.in_cycle(bb):
        ctx.violation(["flag-in-loop"], "the flag-controlled write is inside the line loop (it would affect more than the end of the file)", site=site)
    else:
        dn = calls_to(b, ROLE["done"])
        after_done = any(bb in b.reachable(dbb) for dbb, dt in dn)
        if after_done or not dn:
            ctx.violation(["flag-after-done"], "the flag-controlled write does not precede done()", site=site)
        else:
            ctx.ok("the flag controls exactly one write_output(line_ending), after the loop, before done()", site=site)
        # .. and nothing else decides it: besides the option, the only condition of the final line ending is the pending-newline flag —
        # the same flag that decides the separator written inside the loop. A third condition ("unless the last directive printed
        # nothing") makes a source that ends in an ordinary text line lose its final line ending for reasons the option does not control.
        def origins_of(l, seen=None):
            """the flags a bool local is computed from: through copies, `!x`, `a & b` / `a | b` and constant assignments; a local with any
            other kind of definition (a call result, a comparison) stands for itself"""
            seen = set() if seen is None else seen
            if l in seen:
                return set()
            seen.add(l)
            if b.is_param(l):
                return {l}
            ds = b.defs().get(l, [])
            out = set()
            for rec in ds:
                if rec[0] != "assign":
                    return {l}
                rv = rec[3]["rv"]
                ops = []
                if rv["k"] == "use":
                    ops = [rv["op"]]
                elif rv["k"] == "unop" and rv.get("op") == "Not":
                    ops = [rv.get("a") or rv.get("op_") or rv.get("operand")]
                elif rv["k"] == "binop" and rv.get("op") in ("BitAnd", "BitOr", "BitXor"):
                    ops = [rv["a"], rv["b"]]
                else:
                    return {l}
                for o in ops:
                    if o is None:
                        return {l}
                    if o.get("k") == "const":
                        continue
                    pl = C.op_place(o)
                    if pl is None or pl["p"]:
                        return {l}
                    out |= origins_of(pl["l"], seen)
            return out if ds else {l}

        def root(sbb):
            pl = C.op_place(b.term(sbb)["discr"])
            if pl is None or pl["p"]:
                return None
            return frozenset(origins_of(pl["l"]))

        def deciders(target, in_loop):
            out = {}
            for sbb in C.switches(b):
                if b.in_cycle(sbb) != in_loop:
                    continue
                es = [eid for eid, s_, lab in b.edges(sbb)]
                after = [C.after_edges(b, {e}) for e in es]
                reach = [target in a for a in after]
                # an edge that completes the file (reaches done()) without the write — an early return (dependencies found, unused tags)
                # is another exit, not a decision about the final line ending
                skips = [not r and any(dbb in a for dbb, dt in dn) for r, a in zip(reach, after)]
                if any(reach) and any(skips):
                    out[sbb] = root(sbb)
            return out
        seps = [wbb for wbb, wt in calls_to(b, ROLE["write_output"]) if b.in_cycle(wbb) and
                has_field(C.trace(b, wt["args"][1], through_fields=True), "line_ending")]
        pend = set()
        for wbb in seps:
            # the innermost conditions of the in-loop separator: switches one of whose edges leads to the write without passing the loop head
            heads = [hbb for hbb, ht in calls_to(b, ROLE["get_next_line"])]
            for sbb in C.switches(b):
                if not b.in_cycle(sbb):
                    continue
                es = [eid for eid, s_, lab in b.edges(sbb)]
                reach = [wbb in C.after_edges(b, {e}, cut=out_edges(b, heads)) for e in es]
                if any(reach) and not all(reach) and b.term(sbb).get("dty") == "bool":
                    pend.add(root(sbb))
        post = deciders(bb, False)
        pend_all = set()
        for r in pend:
            pend_all |= set(r or ())
        extra = {sbb: r for sbb, r in post.items() if r is None or not (set(r) <= (pend_all | {p}))}
        if not seps or not pend:
            ctx.unverified("no separator write inside the line loop decided by a flag: the pending-newline flag cannot be identified", site=site)
        elif extra:
            sbb = min(extra)
            ctx.violation(["final-newline-extra-condition"], "the final line ending is decided by a condition other than the trailing-newline option "
                          "and the pending-newline flag (test at %s%s): a source ending in a text line can lose its final line ending"
                          % (ctx.site(b, sbb)["loc"], "".join(", local `%s`" % b.local_name(x) for x in sorted(set(extra[sbb] or ()) - pend_all - {p})
                                                                 if b.local_name(x))),
                          site=ctx.site(b, sbb))
        else:
            ctx.ok("the final line ending depends on the option and the pending-newline flag only", site=site)


@rule("C13", "R13.2", floor=2)
def r13_2(ctx):
    lib = ctx.lib
    tn = shared(ctx, "taint_scalar", lambda: Tn.Taint(lib, track_scalars=True))
    srcs = [("f", ADT["Config"], None, "trailing_newline")]
    prev = tn.forward(srcs)
    ef, spawn_bb, cl = None, None, None
    import rules_sched
    ef, spawn_bb, cl = rules_sched.file_spawner(ctx)
    allowed_fns = {ROLE["execute_file"], ROLE["preprocess"], ROLE["pp_run"], ROLE["pp_run_internal"]}
    if ef:
        allowed_fns.add(ef.name)
        for bb, t, how in rules_sched.file_spawn_sites(ctx, ef):
            if how.startswith("via "):
                allowed_fns.add(how[4:])      # an extracted spawn helper between execute_file and the task closure
    task_parts = set()
    # wherever the task closure is built (execute_file, or a `spawn_preprocess` helper spliced into whichever function re-runs a file)
    for sb, sbb, st_, scl in rules_sched.spawner_bodies(ctx):
        if scl is not None and calls_to(scl, ROLE["preprocess"]):
            allowed_fns.add(sb.name)
    if cl:
        allowed_fns.add(cl.name)
        # closures spliced into the task closure (the task body handed to a generic `spawn(task)` helper): part of the task
        for blk in cl.blocks:
            ic = blk["term"].get("inlined_call") or blk["term"].get("inlined_closure")
            if ic in lib.bodies and lib.bodies[ic].kind == "Closure":
                task_parts.add(ic)
        allowed_fns |= task_parts
    bad = []
    fields = []
    reached_fns = set()
    for n in prev:
        if n[0] in ("l", "r", "t", "a"):
            fn = n[1]
            reached_fns.add(fn)
            if fn in allowed_fns or fn.startswith("<%s as " % ADT["Config"]):
                continue
            bad.append(n)
        elif n[0] == "f":
            if n[1] == ADT["Config"] and n[3] == "trailing_newline":
                continue
            fields.append(n)
        elif n[0] == "u":
            if cl and (n[1] == cl.name or n[1] in task_parts):
                continue
            bad.append(n)
    if fields:
        ctx.violation(["stored", ",".join(sorted(Tn.fmt_node(f) for f in fields))], "trailing_newline is stored in %s: it can influence code outside "
                      "the final-newline decision (e.g. temp files)" % sorted(Tn.fmt_node(f) for f in fields),
                      witness=tn.chain(prev, fields[0])[-6:])
    else:
        ctx.ok("trailing_newline is stored in no struct field")
    if bad:
        ctx.violation(["escapes", ",".join(sorted({Tn.fmt_node(n) for n in bad})[:4])], "trailing_newline flows into %s" % sorted({Tn.fmt_node(n) for n in bad})[:6],
                      witness=tn.chain(prev, bad[0])[-6:])
    else:
        ctx.ok("trailing_newline flows only along execute_file -> task closure -> preprocess -> Pp::run -> run_internal",
               detail=sorted(f.rsplit("::", 2)[-1] for f in reached_fns))
    need = {ROLE["pp_run_internal"]}
    if not need <= reached_fns:
        ctx.violation(["chain-broken"], "Config.trailing_newline no longer reaches the line processor (the option would have no effect)")


@rule("C13", "R13.3", floor=2)
def r13_3(ctx):
    binp = ctx.bin
    if not binp:
        ctx.anchor_missing("binary crate facts")
        return
    ap = ctx.role(binp, "txtpp::main")
    if ap:
        # (the front end is spliced into main) every value given to Config.trailing_newline by the command line is the negated flag
        good = False
        bad = False
        for bb, op, st in field_values(ap, CLI_CONFIG, "trailing_newline"):
            rv = st.get("rv") or {}
            neg_direct = rv.get("k") == "unop" and rv.get("op") == "Not"
            lv = C.trace(ap, rv["a"]) if neg_direct else (C.trace(ap, op) if op is not None else [])
            if lv and all(l.kind == "field" and any(o in CLI_CONFIG for (o, v, n) in C.pl_fields(l.data)) for l in lv):
                continue        # `..Config::default()`
            for l in lv:
                if l.kind == "field" and has_field([l], "no_trailing_newline") and (l.neg != neg_direct):
                    good = True
                else:
                    bad = True
        if good and not bad:
            ctx.ok("config.trailing_newline = !flags.no_trailing_newline", site=ctx.site(ap, 0))
        else:
            ctx.violation(["cli-negation"], "the CLI no longer maps trailing_newline = !no_trailing_newline", site=ctx.site(ap, 0))
    from rules_io import clap_arg_short
    sh = clap_arg_short(binp, "no_trailing_newline")
    if sh == "'n'":
        ctx.ok("clap Arg `no_trailing_newline` has short 'n'")
    else:
        ctx.violation(["cli-short-n"], "clap Arg `no_trailing_newline` short flag is %s, documented -n" % sh)


# ===================================================================================== C16

@rule("C16", "R16.1", floor=3)
def r16_1(ctx):
    lib = ctx.lib
    pv = prov(ctx)
    line_src = {ROLE["get_next_line"], ROLE["next_line"], "<std::io::Lines<B> as std::iter::Iterator>::next"}
    for role_name, argi in (("detect_from", 0), ("add_line", 1), ("tag_inject", 1)):
        tgt = ROLE[role_name]
        cs = C.all_call_sites(lib, lambda ns, t: tgt in ns)
        if not cs:
            ctx.anchor_missing("call of %s" % tgt)
        for (b, bb, t) in cs:
            leaves = pv.leaves(b, t["args"][argi])
            bad = []
            for l in leaves:
                if l.kind == "call" and l.callee() in line_src:
                    continue
                if is_empty_text(l):
                    continue
                bad.append(l.describe())
            if bad:
                ctx.violation([b.name, role_name, ";".join(sorted(set(bad)))[:160]], "%s is applied to text that is not a source line: %s (generated "
                              "text would be re-parsed / re-substituted)" % (role_name, sorted(set(bad))[:4]), site=ctx.site(b, bb))
            else:
                ctx.ok("%s operand derives from source lines only|%s" % (role_name, b.name), site=ctx.site(b, bb),
                       detail=sorted({l.describe() for l in leaves}))
    # the saved tail line is assigned only from a source line
    ws = pv.field_writes().get((ADT["Pp"], None, "execute_tail_line"), [])
    for (b, bb, op) in ws:
        if op.get("k") in ("rvalue", "calldest"):
            if op.get("k") == "calldest" and C.callee_name(op["term"]) in ("std::option::Option::<T>::take",):
                continue
            continue
        leaves = pv.leaves(b, op)
        bad = [l.describe() for l in leaves if not ((l.kind == "call" and l.callee() in line_src) or
                                                    (l.kind == "aggregate" and l.data["agg"].get("variant") == "None"))]
        if bad:
            ctx.violation([b.name, "tail-line", ";".join(sorted(set(bad)))[:120]], "the saved tail line is assigned from %s" % sorted(set(bad))[:3], site=ctx.site(b, bb))
        else:
            ctx.ok("execute_tail_line <- source line|%s" % b.name, site=ctx.site(b, bb))


@rule("C16", "R16.2", floor=1)
def r16_2(ctx):
    lib = ctx.lib
    pv = prov(ctx)
    ri = body(ctx, "pp_run_internal")
    if not ri:
        return
    allowed = {ROLE["tag_inject"], ROLE["get_next_line"], ROLE["format_directive_output"], ROLE["next_line"]}
    n = 0
    for bb, t in calls_to(ri, ROLE["write_output"]):
        lv = C.trace(ri, t["args"][1], through_fields=True)
        if has_field(lv, "line_ending"):
            continue
        n += 1
        leaves = pv.leaves(ri, t["args"][1])
        bad = [l.describe() for l in leaves if not ((l.kind == "call" and l.callee() in allowed) or
                                                    is_empty_text(l) or
                                                    (l.kind == "aggregate" and l.data["agg"].get("variant") == "None"))]
        if bad:
            ctx.violation([ri.name, "content", ";".join(sorted(set(bad)))[:160]], "the written content passes through %s (ordinary lines must be copied "
                          "unchanged apart from tag substitution)" % sorted(set(bad))[:4], site=ctx.site(ri, bb))
        else:
            ctx.ok("content = source line [via inject_tags] | format_directive_output(directive output)", site=ctx.site(ri, bb),
                   detail=sorted({l.describe() for l in leaves}))
    if n == 0:
        ctx.anchor_missing("content write_output call in the line processor")
    # the ordinary-line arm: only inject_tags between the line and the value to write
    e = enum_edges(ri, lib, ADT["IterDirectiveResult"], lambda vs: vs == {"None"})
    if e:
        reg = C.exclusive_region(ri, e)
        calls = [C.callee_name(t) for bb, t in _effect_calls(ri, reg)]
        extra = [c for c in calls if c not in (ROLE["tag_inject"], "txtpp::core::execute::pp::PpMode::is_execute")]
        if extra:
            ctx.violation([ri.name, "none-arm", ",".join(sorted(set(extra)))[:160]], "the ordinary-line arm calls %s" % sorted(set(extra)), site=ctx.site(ri, min(reg)))
        else:
            ctx.ok("ordinary-line arm: only inject_tags (under is_execute) touches the line", site=ctx.site(ri, min(reg)))
    else:
        ctx.anchor_missing("IterDirectiveResult::None arm")


@rule("C16", "R16.3", floor=1)
def r16_3(ctx):
    lib = ctx.lib
    ed = body(ctx, "execute_directive")
    if not ed:
        return
    e = enum_edges(ed, lib, ADT["DirectiveType"], lambda vs: vs == {"Write"})
    if not e:
        ctx.anchor_missing("DirectiveType::Write arm of execute_directive")
        return
    reg = C.exclusive_region(ed, e)
    calls = [(bb, t) for bb, t in _effect_calls(ed, reg)]
    names = [C.callee_name(t) for bb, t in calls]
    joins = [(bb, t) for bb, t in calls if C.callee_name(t) == JOIN]
    others = [n for n in names if n not in (JOIN, "<std::vec::Vec<T, A> as std::ops::Deref>::deref")]
    if len(joins) == 1 and not others and has_const(C.trace(ed, joins[0][1]["args"][1]), '"\\n"') and \
            has_field(C.trace(ed, joins[0][1]["args"][0], through_fields=True), "args"):
        ctx.ok("write arm = join(args, \"\\n\") and nothing else", site=ctx.site(ed, joins[0][0]))
    else:
        ctx.violation(["write-arm", ",".join(sorted(set(others)))[:120]], "the write directive's output is no longer exactly join(args, \"\\n\"): calls %s" % names,
                      site=ctx.site(ed, min(reg) if reg else 0))


@rule("C12", "R12.4", floor=1)
def r12_4(ctx):
    """the line-ending table function returns only the LF / CRLF / OS default constants"""
    lib = ctx.lib
    b = body(ctx, "get_line_ending_from_buf")
    if not b:
        return
    vals = set()
    bad = []
    for bb, si, st in b.stmts():
        if st["k"] == "assign" and st["lhs"]["l"] == 0 and not st["lhs"]["p"]:
            for l in C.trace(b, st["rv"]["op"]) if st["rv"]["k"] == "use" else [None]:
                if l is not None and l.kind == "const" and C.op_const(l.data) in ('"\\n"', '"\\r\\n"'):
                    vals.add(C.op_const(l.data))
                else:
                    bad.append(bb)
    if bad or not vals:
        ctx.violation(["line-ending-table"], "the line-ending sniffing function can return something other than \"\\n\" / \"\\r\\n\"", site=ctx.site(b, bad[0] if bad else 0))
    else:
        ctx.ok("line ending is one of %s" % sorted(vals), site=ctx.site(b, 0))
    for nm, want in (("LF", '"\\n"'), ("CRLF", '"\\r\\n"'), ("OS_LINE_ENDING", '"\\n"')):
        c = const_by_name(lib, nm)
        if not c or c["value"] != want:
            ctx.violation(["const", nm], "constant %s is %s, expected %s (unix build)" % (nm, c["value"] if c else None, want))


def _from_end(b, pl, p_len, lib):
    """which byte of the buffer a place denotes, counted from the end of the first line: 1 = last, 2 = last but one; None = something
    else.  Recognised: `buf[len - k]`, `buf[c]` in the arm of the match on `len` where len is the literal c + k, and the slice
    pattern element `[.., x, y]`"""
    idx = [e for e in pl["p"] if e["k"] in ("index", "constindex")]
    if len(idx) != 1 or any(e["k"] in ("field", "subslice") for e in pl["p"]):
        return None
    e = idx[0]
    if e["k"] == "constindex":
        return e["offset"] if e.get("from_end") else ("abs", e["offset"])
    lv = C.trace(b, {"l": e["l"], "p": []})
    if not lv:
        return None
    ks = set()
    for l in lv:
        if l.kind == "binop" and l.data["op"].startswith("Sub"):
            m = C.trace(b, l.data["a"])
            kk = C.op_const(l.data["b"]) or next((C.op_const(x.data) for x in C.trace(b, l.data["b"]) if x.kind == "const"), None)
            mo = re.match(r"(\d+)_usize$", kk or "")
            is_len = bool(m) and all((x.kind == "param" and x.data == p_len) or
                                      (x.kind == "call" and C.callee_name(x.data).endswith("::len")) or x.kind == "other" for x in m)
            ks.add(int(mo.group(1)) if (mo and is_len) else None)
        elif l.kind == "const" and re.match(r"(\d+)_usize$", C.op_const(l.data) or ""):
            ks.add(("abs", int(re.match(r"(\d+)", C.op_const(l.data)).group(1))))
        else:
            ks.add(None)
    return ks.pop() if len(ks) == 1 else None


@rule("C12", "R12.7", floor=3)
def r12_7(ctx):
    """decision structure of the sniffer (bytes are only ever compared with '\\n' / '\\r', so the outcome is a finite set of edges):
    CRLF is returned only past the edges `last byte == '\\n'` and `last but one == '\\r'`; LF only past `last byte == '\\n'`; the OS
    default only where the first line is empty or its last byte is not '\\n'"""
    lib = ctx.lib
    b = body(ctx, "get_line_ending_from_buf")
    if not b:
        return
    p_len = b.param_index_by_name("len")
    # edges on which `len` is a known literal (arms of `match len`), to read `buf[0]` in the arm len == 1 as the last byte
    len_is = {}
    for sbb in C.switches(b):
        c = C.switch_cond(b, sbb)
        if c.kind == "int" and c.src and all(l.kind == "param" and l.data == p_len for l in c.src):
            for eid, succ, lab in b.edges(sbb):
                if lab and lab[0] == "val":
                    len_is[eid] = lab[1]
    zero_len = {eid for eid, v in len_is.items() if v == 0}
    # .. and edges of a length comparison on which the first line is known to be empty (`len >= 1` false, `len == 0`, `is_empty()`)
    def _is_len(op):
        lv = C.trace(b, op)
        return bool(lv) and all((x.kind == "param" and x.data == p_len) or (x.kind == "unop" and x.data.get("op") == "PtrMetadata") or
                                (x.kind == "call" and C.callee_name(x.data).endswith("::len")) for x in lv)
    ZERO = {("Ge", 1, False), ("Gt", 0, False), ("Lt", 1, True), ("Le", 0, True), ("Eq", 0, True), ("Ne", 0, False)}
    for sbb in C.switches(b):
        c = C.switch_cond(b, sbb)
        if c.kind != "bool":
            continue
        for leaf in c.src:
            if leaf.kind == "binop" and _is_len(leaf.data["a"]):
                kc = next((C.op_const(x.data) for x in C.trace(b, leaf.data["b"]) if x.kind == "const"), None)
                mo = re.match(r"(\d+)_usize$", kc or "")
                if mo:
                    for val, eid in C.bool_edges(b, sbb).items():
                        truth = (not val) if leaf.neg else val
                        if (leaf.data["op"], int(mo.group(1)), truth) in ZERO:
                            zero_len.add(eid)
            elif leaf.kind == "call" and C.callee_name(leaf.data).endswith("::is_empty"):
                for val, eid in C.bool_edges(b, sbb).items():
                    if ((not val) if leaf.neg else val):
                        zero_len.add(eid)

    def pos_at(pl, sbb):
        r = _from_end(b, pl, p_len, lib)
        if isinstance(r, tuple):
            # absolute index c: the k-th byte from the end when the block is only reachable with len == c + k
            for k in (1, 2):
                e = {eid for eid, v in len_is.items() if v == r[1] + k}
                if e and C.guarded(b, sbb, e):
                    return k
            return None
        return r
    eq = {(1, 10): set(), (2, 13): set()}       # edges on which byte #pos-from-end equals the value
    ne = {(1, 10): set()}
    for sbb in C.switches(b):
        c = C.switch_cond(b, sbb)
        t = b.term(sbb)
        if c.kind == "bool":
            for leaf in c.src:
                if leaf.kind == "binop" and leaf.data["op"] in ("Eq", "Ne"):
                    for x, y in ((leaf.data["a"], leaf.data["b"]), (leaf.data["b"], leaf.data["a"])):
                        kc = re.match(r"(\d+)_u8$", C.op_const(y) or "")
                        px = C.op_place(x)
                        if not kc or px is None:
                            continue
                        # the compared byte: the operand itself or the place it was copied from
                        cands = [px] + [r[3]["rv"]["op"]["pl"] for r in b.defs().get(px["l"], []) if not px["p"] and r[0] == "assign"
                                        and r[3]["rv"]["k"] == "use" and r[3]["rv"]["op"].get("k") in ("copy", "move")]
                        for pl in cands:
                            pos = pos_at(pl, sbb)
                            if pos in (1, 2):
                                for val, eid in C.bool_edges(b, sbb).items():
                                    truth = (not val) if leaf.neg else val
                                    if leaf.data["op"] == "Ne":
                                        truth = not truth
                                    key = (pos, int(kc.group(1)))
                                    if truth and key in eq:
                                        eq[key].add(eid)
                                    if not truth and key in ne:
                                        ne[key].add(eid)
                elif leaf.kind == "call" and C.callee_name(leaf.data) in ("std::slice::<impl [T]>::ends_with", "std::str::<impl str>::ends_with"):
                    pat = {C.op_const(x.data) for x in C.trace(b, leaf.data["args"][1]) if x.kind == "const"}
                    for val, eid in C.bool_edges(b, sbb).items():
                        truth = (not val) if leaf.neg else val
                        if pat and all(p_ and "\\r\\n" in p_ for p_ in pat):
                            if truth:
                                eq[(1, 10)].add(eid); eq[(2, 13)].add(eid)
                        elif pat and all(p_ and ("\\n" in p_ or p_ == "10_u8") for p_ in pat):
                            (eq if truth else ne)[(1, 10)].add(eid)
        elif c.kind == "int" and t["discr"].get("k") in ("copy", "move"):
            pos = pos_at(t["discr"]["pl"], sbb)
            if pos in (1, 2):
                for eid, succ, lab in b.edges(sbb):
                    for key in list(eq):
                        if key[0] != pos:
                            continue
                        if lab and lab[0] == "val" and lab[1] == key[1]:
                            eq[key].add(eid)
                        elif lab and ((lab[0] == "val" and lab[1] != key[1]) or (lab[0] == "otherwise" and key[1] in lab[1])) and key in ne:
                            ne[key].add(eid)
    if not eq[(1, 10)]:
        ctx.unverified("sniffer decision structure", detail="no comparison of the last byte of the first line with '\\n' was recognised "
                       "(a different algorithm): which constant is returned when is not decided", site=ctx.site(b, 0))
        return
    rets = {}
    for bb, si, st in b.stmts():
        if st["k"] == "assign" and st["lhs"]["l"] == 0 and not st["lhs"]["p"] and st["rv"]["k"] == "use":
            for l in C.trace(b, st["rv"]["op"]):
                if l.kind == "const":
                    rets.setdefault(C.op_const(l.data), set()).add(bb)
    os_default = const_by_name(lib, "OS_LINE_ENDING")
    os_val = os_default["value"] if os_default else '"\\n"'
    # CRLF
    for bb in sorted(rets.get('"\\r\\n"', ())):
        if C.guarded(b, bb, eq[(1, 10)]) and eq[(2, 13)] and C.guarded(b, bb, eq[(2, 13)]):
            ctx.ok("CRLF only past `last == \\n` and `last but one == \\r`", site=ctx.site(b, bb))
        elif os_val == '"\\r\\n"' and (not zero_len and not ne[(1, 10)] or C.guarded(b, bb, zero_len | ne[(1, 10)])):
            ctx.ok("CRLF as the OS default", site=ctx.site(b, bb))
        else:
            ctx.violation(["crlf"], "the sniffer can answer CRLF although the first line does not end with \\r\\n", site=ctx.site(b, bb),
                          witness=C.witness(b, bb, eq[(1, 10)] | eq[(2, 13)]))
    # LF (on unix also the OS default: a return site of "\n" is either past `last == \n`, or on the default side)
    for bb in sorted(rets.get('"\\n"', ())):
        if C.guarded(b, bb, eq[(1, 10)]):
            # .. and not where the line ends with \r\n: the CRLF answer must not be shadowed
            if eq[(2, 13)] and not C.guarded(b, bb, {e for e in eq[(2, 13)]}) and bb in C.after_edges(b, eq[(2, 13)]):
                ctx.violation(["lf-shadows-crlf"], "the sniffer answers LF on a path where the first line ends with \\r\\n", site=ctx.site(b, bb))
            else:
                ctx.ok("LF only past `last == \\n`", site=ctx.site(b, bb))
        elif os_val == '"\\n"' and C.guarded(b, bb, zero_len | ne[(1, 10)]):
            ctx.ok("OS default only where the line is empty or does not end with \\n", site=ctx.site(b, bb))
        else:
            ctx.violation(["lf"], "the sniffer can answer LF / the OS default on a path that neither saw `last byte == \\n` nor its negation "
                          "(a first line ending with \\r\\n could get the default)", site=ctx.site(b, bb),
                          witness=C.witness(b, bb, eq[(1, 10)] | zero_len | ne[(1, 10)]))
    if '"\\r\\n"' not in rets:
        ctx.violation(["no-crlf"], "the sniffer never answers CRLF", site=ctx.site(b, 0))


PARTIAL_READS = re.compile(r"^(std::io::BufRead::fill_buf|std::io::Read::read|std::io::Read::read_exact|std::io::Read::take|std::io::Read::read_buf"
                           r"|std::io::Read::read_vectored|std::io::BufRead::consume|<std::io::BufReader<R> as std::io::(Read|BufRead)>::\\w+)$")


@rule("C12", "R12.6", floor=1)
def r12_6(ctx):
    """the line ending is sniffed from the COMPLETE first line: the bytes handed to the table function are what
    `read_until(b'\\n', &mut buf)` appended to an empty buffer, and the length is that call's result (a bounded peek — fill_buf, read,
    take — sees only a prefix of a long first line and falls back to the OS default)"""
    lib = ctx.lib
    tgt = ROLE["get_line_ending_from_buf"]
    cs = C.all_call_sites(lib, lambda ns, t: tgt in ns)
    if not cs:
        ctx.anchor_missing("call of %s" % tgt)
    RU = "std::io::BufRead::read_until"
    for (b, bb, t) in cs:
        site = ctx.site(b, bb)
        why = None
        rus = [(rbb, rt) for rbb, rt in calls_to(b, RU) if C.op_const(rt["args"][1]) == "10_u8"]
        if not rus:
            why = "no read_until(b'\\n', ..) feeds the sniffing function"
        else:
            EMPTY_VEC = ("std::vec::Vec::<T>::new", "std::vec::Vec::<T>::with_capacity")
            ident = lambda op: {(l.kind, l.bb, C.callee_name(l.data) if l.kind == "call" else None) for l in C.trace(b, op)}
            buf_id = ident(t["args"][0])
            if not buf_id or not any(ident(rt["args"][2]) == buf_id for rbb, rt in rus):
                why = "the buffer inspected is not the one read_until filled"
            elif not all((l.kind == "call" and any(l.bb == rbb for rbb, rt in rus)) or
                         (l.kind == "call" and C.callee_name(l.data).endswith("::len") and ident(l.data["args"][0]) == buf_id)
                         for l in (C.trace(b, t["args"][1], through_decorators=True) or [C.Leaf("other")])):
                # (the buffer starts empty, so its length after the call IS what read_until returned)
                why = "the length inspected is neither the result of read_until nor the length of the buffer it filled"
            elif not all(k == "call" and nm in EMPTY_VEC for (k, _bb, nm) in buf_id):
                why = "the buffer does not start empty"
        partial = [C.callee_name(pt) for pbb, pt in b.calls() if PARTIAL_READS.match(C.callee_name(pt) or "")]
        if why is None and partial:
            why = "the reader is also consumed through %s" % sorted(set(partial))
        if why:
            ctx.violation([b.name, "first-line-read", why[:60]], "the line ending is not sniffed from the complete first line: %s" % why, site=site)
        else:
            ctx.ok("line ending sniffed from read_until(b'\\n') on an empty buffer|%s" % b.name, site=site)


@rule("C16", "R16.4", floor=1)
def r16_4(ctx):
    """no source line is lost: the line that terminated a directive is re-queued (saved tail line) on every path that goes on to
    the next line"""
    lib = ctx.lib
    ri = body(ctx, "pp_run_internal")
    if not ri:
        return
    e = enum_edges(ri, lib, ADT["IterDirectiveResult"], lambda vs: vs == {"Execute"})
    heads = [bb for bb, t in calls_to(ri, ROLE["get_next_line"])]
    if not e or not heads:
        ctx.anchor_missing("Execute arm / get_next_line loop head in the line processor")
        return

    def is_tail(lv):
        return any(l.kind == "field" and any(o == ADT["IterDirectiveResult"] and v == "Execute" and n in (1, "1") for (o, v, n) in C.pl_fields(l.data))
                   for l in lv)
    stores = []
    for bb, si, st in ri.stmts():
        if st["k"] == "assign" and st["lhs"]["p"] and st["lhs"]["p"][-1].get("name") == "execute_tail_line" and st["rv"]["k"] == "use":
            if is_tail(C.trace(ri, st["rv"]["op"])):
                stores.append(bb)
    none_e = bool_call_edges(ri, lib, "std::option::Option::<T>::is_some", False, arg_pred=lambda t: is_tail(C.trace(ri, t["args"][0]))) | \
        bool_call_edges(ri, lib, "std::option::Option::<T>::is_none", True, arg_pred=lambda t: is_tail(C.trace(ri, t["args"][0]))) | \
        enum_edges(ri, lib, "std::option::Option", lambda vs: vs == {"None"}, src_pred=lambda c: is_tail(c.src))
    if not stores:
        ctx.violation(["tail-never-saved"], "the line that terminates a directive is never re-queued: it would be skipped", site=ctx.site(ri, heads[0]))
        return
    reached = C.after_edges(ri, e, cut=out_edges(ri, stores) | none_e)
    lost = [h for h in heads if h in reached]
    if lost:
        ctx.violation(["tail-lost"], "after executing a directive the line processor can fetch the next line without re-queuing the line that "
                      "terminated the directive: that source line is silently skipped (its text or directive is lost)", site=ctx.site(ri, lost[0]),
                      witness=["bb%d@%s" % (b2, ri.term(b2)["span"]["line"]) for b2 in sorted(reached)][:12])
    else:
        ctx.ok("the terminating line is re-queued on every path back to the loop head", site=ctx.site(ri, stores[0]))


@rule("C16", "R16.5", floor=2)
def r16_5(ctx):
    """the write escape relies on the FIRST `TXTPP#` of a line being the directive marker (= C15 R15.4): text after it, including
    further `TXTPP#`, is argument text"""
    import rules_dir
    rules_dir.r15_4(ctx)


@rule("C12", "R12.5", floor=2)
def r12_5(ctx):
    """allow-list form of R12.1 for temp files: the content handed to write_temp_file is the formatter's result or the empty string"""
    lib = ctx.lib
    pv = prov(ctx)
    for (b, bb, t) in C.all_call_sites(lib, lambda ns, t: ROLE["write_temp_file"] in ns):
        leaves = pv.leaves(b, t["args"][2])
        bad = [l.describe() for l in leaves if not ((l.kind == "call" and l.callee() in (ROLE["format_directive_output"], "std::string::String::new")) or
                                                    (l.kind == "const" and (C.op_const(l.data) or "") == '""'))]
        if bad:
            ctx.violation([b.name, "temp-content", ";".join(sorted(set(bad)))[:120]], "temp file content derives from %s (only the formatter's output or the empty "
                          "string is line-ending safe)" % sorted(set(bad))[:3], site=ctx.site(b, bb))
        else:
            ctx.ok("temp content = format_directive_output(..) | \"\"|%s" % b.name, site=ctx.site(b, bb))


@rule("C16", "R16.6", floor=4)
def r16_6(ctx):
    """escaped text survives: a continuation argument is the line minus exactly the prefix-long head, right-trimmed (= C15 R15.5)"""
    import rules_dir
    rules_dir.r15_5(ctx)


@rule("C13", "R13.4", floor=2)
def r13_4(ctx):
    """the option's one byte survives `--needed`: an existing output is compared with the fresh text byte for byte (a line-wise or
    lossy comparison would judge `a\\n` and `a` equal and keep the file written with the other setting) (= C08 R08.2 / C09 R09.1)"""
    import rules_io
    rules_io.r08_2(ctx)
    rules_io.r09_1(ctx)


@rule("C16", "R16.8", floor=4)
def r16_8(ctx):
    """tag substitution leaves the rest of the line alone: everything inject_tags appends is a slice of the line itself or the normalised
    content of a stored tag (= C12 R12.3d / C14 R14.7)"""
    r12_3(ctx)
