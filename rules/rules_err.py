"""C04: no false success — error discipline (K4), IO results reach the return (K5), status / exit-code guards (K2)."""
import re

import core as C
import tables as T
from common import *  # noqa
from engine import prop, rule
from rules_io import forward_uses, FORWARD_NEUTRAL

prop("C04", "No false success: a failure in any file fails the whole run",
     decided=["R04.1 no value carrying an error (Result<_,E!=()>, Report, io::Error, TaskResult, ...) is dropped, erased by an adaptor, "
              "discarded or left unused on a normal-flow path of lib+bin outside a reasoned table of sites, each re-checked with its own guard",
              "R04.2 the Result of every file-system / process API call flows only through error decorators into `?` or the return value",
              "R04.3 the command runner returns Ok only on the ExitStatus::success() edge of that command's status",
              "R04.4 Txtpp::run returns run_internal's Result; txtpp() returns Ok only on the Ok edge of Txtpp::run",
              "R04.5 main returns ExitCode::SUCCESS only on the Ok edge of txtpp(..) and FAILURE on the Err edge",
              "R04.6 Drop drains worker results only after ThreadPool::join returned"],
     not_decided=["that the OS reports a fault at all (ENOSPC through BufWriter surfaces at flush, which R04.2 covers)",
                  "the schedule dimension: which worker result arrives first is a runtime fact"])

CARRIER_RE = re.compile(r"(error_stack::(report::)?Report<|std::io::Error|dyn std::error::Error|(::|^)TaskResult\b|"
                        r"(::|^)(PathError|PpError|TxtppError)\b|std::env::VarError|which::Error|std::sync::mpsc::(Send|TryRecv|Recv)Error|"
                        r"std::fmt::Error|(::|^)ShellError\b|TagStateError)")


def split_generic(ty):
    """top-level generic arguments of `Path<A, B>` -> ['A', 'B']"""
    i = ty.find("<")
    if i < 0 or not ty.endswith(">"):
        return []
    inner = ty[i + 1:-1]
    out, depth, cur = [], 0, ""
    for ch in inner:
        if ch in "<([":
            depth += 1
        elif ch in ">)]":
            depth -= 1
        if ch == "," and depth == 0:
            out.append(cur.strip())
            cur = ""
        else:
            cur += ch
    if cur.strip():
        out.append(cur.strip())
    return out


def result_err_type(ty):
    """E of `std::result::Result<T, E>` (through refs / Option), or None"""
    ty = ty.strip()
    while ty.startswith("&"):
        ty = ty[1:].lstrip()
        if ty.startswith("mut "):
            ty = ty[4:]
    if ty.startswith("std::option::Option<"):
        a = split_generic(ty)
        return result_err_type(a[0]) if a else None
    if ty.startswith("std::result::Result<"):
        a = split_generic(ty)
        if len(a) == 2:
            return a[1]
    return None


UNIT_ERR_TYPES = set()      # unit structs of the crate (`struct ParseDirectiveTypeError;`): as an error type they say "no" and nothing else, like `()`


def is_carrier(ty):
    e = result_err_type(ty)
    if e is not None:
        return e != "()" and e not in UNIT_ERR_TYPES
    if ty.startswith("&"):
        return False
    if re.match(r"std::sync::(mpsc|mpmc)::(Sync)?Sender<|std::sync::(mpsc|mpmc)::Receiver<|std::sync::Arc<|std::sync::(Mutex|RwLock)<", ty):
        return False        # an end of the channel (or a shared handle) is not a message: dropping it loses no error
    return bool(CARRIER_RE.search(ty)) and not ty.startswith("std::result::Result<")


# reasoned table: (enclosing fn regex, origin regex, reason, guard)
#   guard(ctx, body, bb) -> None if fine, else why the tolerated site is not properly guarded
def _g_clean_mode(ctx, b, bb):
    e = enum_edges(b, ctx.lib, ADT["Mode"], lambda vs: vs == {"Clean"}) | enum_edges(b, ctx.lib, ADT["CtxOut"], lambda vs: vs == {"Clean"})
    if e and C.guarded(b, bb, e):
        return None
    return "the tolerated error drop is not confined to the Mode::Clean / CtxOut::Clean edge"


def _g_after_join(ctx, b, bb):
    js = calls_to(b, "threadpool::ThreadPool::join")
    if not js:
        return "no ThreadPool::join before draining"
    cut = set()
    for jbb, t in js:
        cut |= {eid for eid, s, lab in b.edges(jbb)}
    return None if C.guarded(b, bb, cut) else "results are drained on a path that does not pass ThreadPool::join"


TOLERATED = [
    (r".*", r"(^|::)Progress::(print_status|add_total|add_done|update_progress|update_progress_internal)$",
     "cosmetic terminal output (progress display); failure to print must not fail the build", None),
    (r"(^|::)print_dep_map(::\{closure#\d+\})*$", r"^std::fmt::Write::write_fmt$",
     "fmt::Write on a String cannot fail", None),
    (r"(::|<)Txtpp as std::ops::Drop>::drop$", r"^std::sync::mpsc::Receiver::<T>::try_recv$",
     "results still in flight after an error has already been returned are drained and ignored", _g_after_join),
    (r"(^|::)Pp::<'a>::", r"(^|::)Pp::<'a>::(execute_in_clean_mode|execute_directive_temp)$",
     "clean tolerates directive errors (README: clean succeeds on erroneous sources)", _g_clean_mode),
    (r"(^|::)Pp::<'a>::", r"^aggregate$",
     "clean tolerates directive errors: the Ok(()) / temp-cleaner result of the spliced clean-mode helper is discarded", _g_clean_mode),
    (r"(^|::)IOCtx::write_temp_file$", r"(^|::)AbsPath::try_resolve$",
     "clean: a temp target that does not exist is simply not removed", _g_clean_mode),
    (r"(^|::)Pp::<'a>::run_internal$", r"(^|::)iterate_directive$",
     "clean tolerates directive errors: the swallowed error is dropped", _g_clean_mode),
    (r"^txtpp::main$", r"^std::env::var$", "TXTPP_FILE unset is the normal case", None),
    (r"^txtpp::main$", r"^txtpp::txtpp$", "the error was already printed by txtpp(); main maps it to ExitCode::FAILURE (R04.5)", None),
    (r"(^|::)path_string_from_base$", r"^std::path::Path::strip_prefix$",
     "display only: a path outside the base directory is shown in full", None),
    (r"(^|::)resolve_shell$", r"^which::which$",
     "falls back to the literal name, which is then canonicalised and fails loudly if absent", None),
]


def _origins(b, pl):
    lv = C.trace(b, pl, through_decorators=True, transparent=lambda t: C.is_transparent(t) or
                 C.callee_name(t) in ("std::result::Result::<T, E>::map", "std::result::Result::<T, E>::and_then"))
    out = []
    lv2 = []
    for l in lv:
        if l.kind == "errpayload":
            # the error of a Result bound by a pattern (`Err(_) if cleaning => ..`): name the fallible call it came from
            lv2 += [x for x in err_origins(b, {"k": "move", "pl": {"l": l.data["l"], "p": []}}) if x.kind != "errpayload"] or [l]
        else:
            lv2.append(l)
    for l in lv2:
        if l.kind == "call":
            out.append(C.callee_name(l.data))
        elif l.kind == "param":
            out.append("param:%s" % (b.local_name(l.data) or l.data))
        elif l.kind == "field":
            out.append("field:%s" % C.pl_str(l.data))
        elif l.kind == "upvar":
            out.append("upvar")
        else:
            out.append(l.kind)
    return sorted(set(out))


def _judge(ctx, b, bb, what, origins, ty, span):
    site = ctx.site(b, bb, span)
    for o in origins:
        hit = None
        for (fpat, opat, reason, guard) in TOLERATED:
            if re.search(fpat, b.name) and re.search(opat, o):
                hit = (reason, guard)
                break
        if hit is None:
            ctx.violation([b.name, what, o], "an error value (%s) produced by %s is %s here: a failure would be lost" % (
                ty[:90], o, what), site=site)
            return
        reason, guard = hit
        if guard:
            why = guard(ctx, b, bb)
            if why:
                ctx.violation([b.name, what, o, "guard"], "tolerated %s of %s: %s" % (what, o, why), site=site)
                return
    ctx.ok("%s|%s|%s" % (what, b.name, ",".join(origins)), site=site, detail="tolerated: " + "; ".join(sorted({
        r for (fp, op, r, g) in TOLERATED for o in origins if re.search(fp, b.name) and re.search(op, o)})))


@rule("C04", "R04.1", floor=20)
def r04_1(ctx):
    UNIT_ERR_TYPES.clear()
    for label in ("lib", "bin"):
        prog = ctx.progs.get(label)
        for nm, a in (prog.adts.items() if prog else []):
            if a.get("kind") == "Struct" and len(a.get("variants") or []) == 1 and not a["variants"][0]["fields"]:
                UNIT_ERR_TYPES.add(nm)
    for label in ("lib", "bin"):
        prog = ctx.progs.get(label)
        if not prog:
            continue
        for b in prog.bodies.values():
            if b.j.get("impl_trait") in ("std::fmt::Debug", "std::clone::Clone", "std::cmp::PartialEq", "std::hash::Hash") and \
                    b.span.get("exp"):
                continue
            lv = C.live(b)
            used = None
            seen_drop = set()
            for bb, blk in enumerate(b.blocks):
                if blk["cleanup"] or bb not in lv:
                    continue
                t = blk["term"]
                # (a) drops of error carriers
                if t["k"] == "drop" and is_carrier(t["ty"]):
                    if not t["pl"]["p"] and t.get("adt") == "std::result::Result" and C.tag_values_at(b, bb, t["pl"]["l"]) == {0}:
                        continue      # on every path to this drop the Result is Ok: what is dropped is the success value
                    org = _origins(b, t["pl"])
                    k = (t["pl"]["l"], tuple(org))
                    if k in seen_drop:
                        continue
                    seen_drop.add(k)
                    _judge(ctx, b, bb, "dropped", org, t["ty"], t["span"])
                if t["k"] != "call":
                    continue
                nm = C.callee_name(t)
                # (b) erasing adaptors / explicit discards, by value
                if T.ERR_ERASING_RE.match(nm) and t["args"]:
                    aty = t["arg_tys"][0]["ty"]
                    if not aty.startswith("&") and is_carrier(aty):
                        _judge(ctx, b, bb, "erased by .%s()" % nm.rsplit("::", 1)[1], _origins(b, t["args"][0]), aty, t["span"])
                if nm in ("std::mem::drop", "std::mem::forget") and t["args"] and is_carrier(t["arg_tys"][0]["ty"]):
                    _judge(ctx, b, bb, "discarded by %s" % nm, _origins(b, t["args"][0]), t["arg_tys"][0]["ty"], t["span"])
                if nm in T.ITER_ERR_ERASING:
                    # Iterator adaptors over Item = Result silently skip errors
                    full = (t["callee"].get("rfull") or t["callee"].get("full") or "")
                    if "std::result::Result<" in full and "io::Lines" in full or "ReadDir" in full:
                        _judge(ctx, b, bb, "skipped by %s" % nm, [nm], full, t["span"])
                # (c) Result with no use at all and no drop glue
                if is_carrier(t["dest_ty"]) and not t["dest"]["p"]:
                    if used is None:
                        used = _used_locals(b)
                    if t["dest"]["l"] not in used and t["dest"]["l"] != 0:
                        _judge(ctx, b, bb, "never used", [nm], t["dest_ty"], t["span"])


def _used_locals(b):
    used = set()

    def pl(p):
        if p:
            used.add(p["l"])
            for e in p["p"]:
                if e["k"] == "index":
                    used.add(e["l"])

    def op(o):
        if o and o["k"] in ("copy", "move"):
            pl(o["pl"])
    for bb, blk in enumerate(b.blocks):
        for st in blk["stmts"]:
            if st["k"] != "assign":
                continue
            rv = st["rv"]
            for key in ("op", "a", "b"):
                if isinstance(rv.get(key), dict):
                    op(rv[key])
            if "pl" in rv:
                pl(rv["pl"])
            for o in rv.get("ops", []):
                op(o)
            if st["lhs"]["p"]:
                pass
        t = blk["term"]
        if t["k"] == "call":
            for a in t["args"]:
                op(a)
            if "callee_op" in t:
                op(t["callee_op"])
        elif t["k"] == "switch":
            op(t["discr"])
        elif t["k"] == "assert":
            op(t["cond"])
    return used


IO_RESULT_APIS = set(T.FS_CREATE_TRUNC) | set(T.FS_REMOVE) | set(T.FS_READ_BYTES) | {
    "std::fs::read_to_string", "std::fs::File::open", "std::fs::metadata", "std::path::Path::read_dir",
    "std::path::Path::canonicalize", "std::process::Command::output", "std::io::BufRead::read_until",
    "<std::io::BufWriter<W> as std::io::Write>::write_all", "<std::io::BufWriter<W> as std::io::Write>::flush",
    "<std::io::BufReader<R> as std::io::Read>::read_exact", "std::io::Write::write_all", "std::io::Write::flush",
    "std::io::Read::read_exact", "<std::fs::ReadDir as std::iter::Iterator>::next", "<std::io::Lines<B> as std::iter::Iterator>::next",
}
TRY = "<std::result::Result<T, E> as std::ops::Try>::branch"
# `opt?` on None returns None: the residual carries no payload (and no error)
OPT_RESIDUAL = "<std::option::Option<T> as std::ops::FromResidual<std::option::Option<std::convert::Infallible>>>::from_residual"
R042_NEUTRAL = (FORWARD_NEUTRAL - {TRY}) | {
    # wrapping the error payload keeps it (the report is then returned or handled like the Result itself)
    "error_stack::Report::<C>::new", "error_stack::Report::<C>::change_context", "error_stack::Report::<C>::attach_printable",
    "error_stack::Report::<C>::attach_printable_lazy", "error_stack::Report::<C>::attach", "<error_stack::Report<C> as std::convert::From<C>>::from",
    "std::result::Result::<T, E>::map", "std::result::Result::<T, E>::and_then", "std::option::Option::<T>::map",
    "<std::option::Option<T> as std::ops::Try>::branch",
}


# by-reference probes: they look at the value but do not consume it (it must still be used or dropped: R04.1)
BYREF_PROBES = {"std::option::Option::<T>::is_some", "std::option::Option::<T>::is_none", "std::result::Result::<T, E>::is_ok",
                "std::result::Result::<T, E>::is_err"}


@rule("C04", "R04.2", floor=12)
def r04_2(ctx):
    lib = ctx.lib
    for b in lib.bodies.values():
        for bb, t in b.calls():
            nm = C.callee_name(t)
            if nm not in IO_RESULT_APIS:
                continue
            e = result_err_type(t["dest_ty"])
            if e is None or e == "()":
                continue
            site = ctx.site(b, bb)
            if t["dest"]["l"] == 0 and not t["dest"]["p"]:
                ctx.ok("%s|%s|returned" % (nm, b.name), site=site)
                continue
            uses = forward_uses_ext(b, t["dest"]["l"])
            sinks = [u for u in uses if u not in R042_NEUTRAL]
            reaches = any(u in (TRY, "RETURN", "CLOSURE-RETURN") for u in uses)
            bad = [u for u in sinks if u not in ("RETURN", "CLOSURE-RETURN", "MATCH", TRY, OPT_RESIDUAL) and u not in BYREF_PROBES]
            tolerated = any(re.search(fp, b.name) and re.search(op, nm) for (fp, op, r, g) in TOLERATED)
            if bad and not tolerated:
                ctx.violation([b.name, nm, ",".join(sorted(set(bad)))], "the Result of %s flows into %s instead of `?`/the return value" % (
                    nm, sorted(set(bad))), site=site)
            elif reaches or "MATCH" in sinks or tolerated:
                ctx.ok("%s|%s|%s" % (nm, b.name, "propagated" if reaches else "matched"), site=site)
            else:
                ctx.violation([b.name, nm, "lost"], "the Result of %s reaches neither `?` nor the return value" % nm, site=site)


def _success_payload(pl):
    """the place selects the success payload of a Result/Option (`(r as Ok).0`): the value was discriminated, what flows on from
    here is no longer the fallible result"""
    return any(e["k"] == "field" and e.get("owner") in ("std::result::Result", "std::option::Option", "std::ops::ControlFlow")
               and e.get("variant") in ("Ok", "Some", "Continue") for e in pl["p"])


def forward_uses_ext(b, local, through_try=False):
    """forward_uses + pseudo sinks RETURN (flows into _0), MATCH (discriminant read: handled by R04.1 drops).
    through_try: `x?` is followed on to where its residual goes (the `?` of a spliced helper returns to the helper's caller, not to ours)"""
    out = []
    seen = set()
    work = [local]
    while work:
        l = work.pop()
        if l in seen:
            continue
        seen.add(l)
        if l == 0:
            out.append("CLOSURE-RETURN" if b.kind == "Closure" else "RETURN")
            continue
        for bb, si, st in b.stmts():
            if st["k"] != "assign":
                continue
            rv = st["rv"]
            src = None
            if rv["k"] in ("use", "cast"):
                src = C.op_place(rv["op"])
            elif rv["k"] in ("ref", "copyforderef", "rawptr"):
                src = rv["pl"]
            elif rv["k"] == "discriminant" and rv["pl"]["l"] == l:
                out.append("MATCH")
                continue
            elif rv["k"] == "aggregate":
                for op in rv["ops"]:
                    p = C.op_place(op)
                    if p and p["l"] == l and not _success_payload(p):
                        work.append(st["lhs"]["l"])
            if src and src["l"] == l and not _success_payload(src):
                work.append(st["lhs"]["l"])
        for bb, t in b.calls():
            if any((C.op_place(a) or {}).get("l") == l and not _success_payload(C.op_place(a)) for a in t["args"]):
                nm = C.callee_name(t)
                out.append(nm)
                if nm in R042_NEUTRAL or (through_try and (nm == TRY or C.is_from_residual(t))):
                    work.append(t["dest"]["l"])
    return out


@rule("C04", "R04.3", floor=1)
def r04_3(ctx):
    lib = ctx.lib
    homes = {b.name: b for b in lib.bodies.values() if calls_to(b, "std::process::Command::output")}
    if not homes:
        ctx.anchor_missing("a function calling Command::output")
    for b in homes.values():
        succ = bool_call_edges(b, lib, "std::process::ExitStatus::success", True,
                               arg_pred=lambda t: has_field(C.trace(b, t["args"][0], through_fields=True), "status"))
        oks = ok_sites(b)
        if not oks:
            ctx.anchor_missing("Ok return in %s" % b.name)
        for bb in oks:
            if succ and C.guarded(b, bb, succ):
                ctx.ok("Ok(stdout) guarded by status.success()|%s" % b.name, site=ctx.site(b, bb))
            else:
                ctx.violation([b.name, "status"], "the command runner can return Ok without the ExitStatus::success() edge "
                              "(a failing command would be accepted)", site=ctx.site(b, bb), witness=C.witness(b, bb, succ))


@rule("C04", "R04.4", floor=3)
def r04_4(ctx):
    lib = ctx.lib
    run = body(ctx, "txtpp_run")
    if run:
        # every normal-flow assignment of _0 is either an Err or the value returned by run_internal
        good = True
        n = 0
        for bb, si, st in run.stmts():
            if st["k"] == "assign" and st["lhs"]["l"] == 0 and not st["lhs"]["p"]:
                n += 1
                rv = st["rv"]
                if rv["k"] == "aggregate" and rv["agg"].get("variant") == "Err":
                    continue
                if rv["k"] == "aggregate" and rv["agg"].get("variant") == "Ok":
                    # `run_internal().map_err(..)` spelled as a match: Ok is rebuilt only on the Ok edge of run_internal's result
                    ok_e = enum_edges(run, lib, "std::result::Result", lambda vs: vs == {"Ok"}, src_pred=lambda c: has_call(c.src, ROLE["txtpp_run_internal"]))
                    if ok_e and C.guarded(run, bb, ok_e):
                        continue
                lv = C.trace(run, rv["op"]) if rv["k"] == "use" else []
                if not lv or not all(leaf_is_call(l, ROLE["txtpp_run_internal"]) for l in lv):
                    good = False
                    ctx.violation([run.name, "return"], "Txtpp::run returns a value that is not run_internal's Result", site=ctx.site(run, bb))
        if good and n:
            ctx.ok("Txtpp::run returns run_internal's Result", site=ctx.site(run, 0))
        elif not n:
            ctx.anchor_missing("return assignment in Txtpp::run")
    f = body(ctx, "txtpp_fn")
    if f:
        ok_e = enum_edges(f, lib, "std::result::Result", lambda vs: vs == {"Ok"},
                          src_pred=lambda c: has_call(c.src, ROLE["txtpp_run"]))
        for bb in ok_sites(f):
            if ok_e and C.guarded(f, bb, ok_e):
                ctx.ok("txtpp() returns Ok only on the Ok edge of Txtpp::run", site=ctx.site(f, bb))
            else:
                ctx.violation([f.name, "ok"], "txtpp() can return Ok without Txtpp::run having succeeded", site=ctx.site(f, bb))
    ri = body(ctx, "txtpp_run_internal")
    if ri:
        # the Result carried by each TaskResult variant fails the run: it is consumed by `?`, or matched with an Err arm that returns Err
        def is_payload(lv):
            return any(l.kind == "field" and any(o == ADT["TaskResult"] for (o, v, n) in C.pl_fields(l.data)) for l in lv)
        cnt = 0
        for bb, t in ri.calls():
            if C.is_try_branch(t) and is_payload(C.trace(ri, t["args"][0], through_decorators=True)):
                cnt += 1
                ctx.ok("worker result consumed by `?`", site=ctx.site(ri, bb))
        errs = set(err_sites(ri))
        oks = set(ok_sites(ri))
        heads = {bb for bb, t in ri.calls() if C.callee_name(t) == "std::sync::mpsc::Receiver::<T>::try_recv"}
        first_err_region = {}      # scrutinee place -> blocks reachable from the Err edge of an earlier test of the same place
        for sbb in C.switches(ri):
            c = C.switch_cond(ri, sbb)
            if c.kind != "enum" or c.adt != "std::result::Result" or not is_payload(c.src + C.trace(ri, c.place, through_fields=True)):
                continue
            err_e = {eid for eid, succ, vs in C.edge_variants(ri, sbb, c, ctx.lib) if vs == {"Err"}}
            if not err_e:
                continue
            reached = C.region(ri, err_e, cut=out_edges(ri, errs))
            if not reached:
                continue      # the Err edge is infeasible here (a re-test after the error was already handled)
            pkey = C.pl_str(c.place) if c.place else None
            if pkey in first_err_region and len([r for r in ri.defs().get(c.place["l"], []) if r[0] in ("assign", "call")]) <= 1:
                # the same payload (of a value bound once) was already tested and its Err edge judged: every path that can take THIS
                # Err edge took that one first (drop elaboration re-tests the scrutinee at the end of the match)
                continue
            # drop elaboration re-tests the discriminant at the end of the scope to drop what was not moved out: such a switch is
            # followed only by drops / gotos / drop-flag updates (no call, no real assignment) until the loop head or the return
            stop = C.after_edges(ri, err_e, cut=out_edges(ri, heads | {x for x in reached if ri.term(x)["k"] == "return"}))
            if not any(ri.term(x)["k"] == "call" and x not in heads for x in stop) and not any(
                    st["k"] == "assign" and not (st["rv"]["k"] == "use" and st["rv"]["op"]["k"] == "const") and st["rv"]["k"] != "discriminant"
                    for x in stop if x not in heads for st in ri.blocks[x]["stmts"]):
                continue
            esc = [x for x in reached if x in oks or x in heads or ri.term(x)["k"] == "return"]
            cnt += 1
            if (errs & reached) and not esc:
                if pkey is not None:
                    first_err_region[pkey] = reached
                ctx.ok("worker error matched: the Err arm returns Err", site=ctx.site(ri, sbb))
            else:
                ctx.violation([ri.name, "task-error-arm"], "a failed worker result is matched but its Err arm does not always return an error "
                              "(the loop continues or the run succeeds)", site=ctx.site(ri, sbb))
        if cnt < 2:
            ctx.violation([ri.name, "task-results"], "fewer than the two TaskResult payloads (ScanDir, Preprocess) fail the run on error (%d)" % cnt,
                          site=ctx.site(ri, 0))


@rule("C04", "R04.5", floor=2)
def r04_5(ctx):
    binp = ctx.bin
    if not binp:
        ctx.anchor_missing("binary crate facts")
        return
    m = ctx.role(binp, "txtpp::main")
    if not m:
        return
    from_txtpp = lambda t: has_call(C.trace(m, t["args"][0]), "txtpp::txtpp")
    ok_e = enum_edges(m, binp, "std::result::Result", lambda vs: vs == {"Ok"}, src_pred=lambda c: has_call(c.src, "txtpp::txtpp")) | \
        bool_call_edges(m, binp, "std::result::Result::<T, E>::is_ok", True, arg_pred=from_txtpp) | \
        bool_call_edges(m, binp, "std::result::Result::<T, E>::is_err", False, arg_pred=from_txtpp)
    err_e = enum_edges(m, binp, "std::result::Result", lambda vs: vs == {"Err"}, src_pred=lambda c: has_call(c.src, "txtpp::txtpp")) | \
        bool_call_edges(m, binp, "std::result::Result::<T, E>::is_ok", False, arg_pred=from_txtpp) | \
        bool_call_edges(m, binp, "std::result::Result::<T, E>::is_err", True, arg_pred=from_txtpp)
    succ, fail = [], []
    for bb, si, st in m.stmts():
        if st["k"] == "assign" and st["lhs"]["l"] == 0 and st["rv"]["k"] == "use" and st["rv"]["op"]["k"] == "const":
            nm = st["rv"]["op"].get("named", "")
            if nm.endswith("ExitCode::SUCCESS"):
                succ.append(bb)
            elif nm.endswith("ExitCode::FAILURE"):
                fail.append(bb)
            else:
                ctx.violation(["exit-const", nm], "main returns an exit code that is neither SUCCESS nor FAILURE", site=ctx.site(m, bb))
    if not succ:
        ctx.anchor_missing("ExitCode::SUCCESS in main")
    for bb in succ:
        if ok_e and C.guarded(m, bb, ok_e):
            ctx.ok("ExitCode::SUCCESS only on the Ok edge of txtpp()", site=ctx.site(m, bb))
        else:
            ctx.violation(["success-guard"], "main can return ExitCode::SUCCESS without txtpp() having returned Ok", site=ctx.site(m, bb),
                          witness=C.witness(m, bb, ok_e))
    reg = C.region(m, err_e) if err_e else set()
    if err_e and not (reg & set(succ)) and (reg & set(fail)):
        ctx.ok("Err edge of txtpp() returns ExitCode::FAILURE", site=ctx.site(m, min(reg & set(fail))))
    else:
        ctx.violation(["failure-edge"], "the Err edge of txtpp() does not lead to ExitCode::FAILURE only", site=ctx.site(m, 0))


@rule("C04", "R04.6", floor=1)
def r04_6(ctx):
    d = body(ctx, "txtpp_drop")
    if not d:
        return
    recs = calls_to(d, "std::sync::mpsc::Receiver::<T>::try_recv")
    if not recs:
        ctx.ok("Drop does not drain results", site=ctx.site(d, 0))
    for bb, t in recs:
        why = _g_after_join(ctx, d, bb)
        if why:
            ctx.violation(["drain-before-join"], why, site=ctx.site(d, bb))
        else:
            ctx.ok("try_recv in Drop is guarded by the return of ThreadPool::join", site=ctx.site(d, bb))


@rule("C04", "R04.7", floor=1)
def r04_7(ctx):
    """a disconnected result channel is an error, never a normal loop exit"""
    lib = ctx.lib
    b = body(ctx, "txtpp_run_internal")
    if not b:
        return
    dis = enum_edges(b, lib, "std::sync::mpsc::TryRecvError", lambda vs: vs == {"Disconnected"}) | \
        enum_edges(b, lib, "std::sync::mpmc::TryRecvError", lambda vs: vs == {"Disconnected"})
    if not dis:
        ctx.anchor_missing("TryRecvError::Disconnected arm in the coordinator loop")
        return
    errs = set(err_sites(b))
    reached = C.after_edges(b, dis, cut=out_edges(b, errs))
    escapes = [bb for bb in reached if b.term(bb)["k"] == "return" or bb in ok_sites(b) or
               (b.term(bb)["k"] == "call" and C.callee_name(b.term(bb)) in (ROLE["take_remaining"], "std::sync::mpsc::Receiver::<T>::try_recv"))]
    if (errs & reached) and not escapes:
        ctx.ok("Disconnected -> Err", site=ctx.site(b, min(errs & reached)))
    else:
        ctx.violation(["disconnected-not-error"], "a disconnected worker channel does not lead to an error return", site=ctx.site(b, escapes[0] if escapes else 0))


@rule("C04", "R04.8", floor=4)
def r04_8(ctx):
    """verify cannot succeed on a mismatch: each chunk is accepted only after rem >= len, a successful read_exact and a BYTE comparison
    of the buffer with the chunk, and finishing requires rem == 0 (= C06 R06.2; a lossy or partial comparison is a false success)"""
    import rules_io
    rules_io.r06_2(ctx)


@rule("C04", "R04.9", floor=1)
def r04_9(ctx):
    """a Build output is complete before done() says so: for CtxOut::Build every Ok return of IOCtx::done lies past an explicit flush of the
    BufWriter (a BufWriter that is merely dropped swallows the error of its last write: ENOSPC / EIO on the final chunk would be lost)"""
    lib = ctx.lib
    dn = body(ctx, "done")
    if not dn:
        return
    FL = ("<std::io::BufWriter<W> as std::io::Write>::flush", "std::io::Write::flush", "std::io::BufWriter::<W>::into_inner")
    fl = [bb for bb, t in calls_to(dn, FL)]
    if not fl:
        ctx.violation([dn.name, "no-flush"], "IOCtx::done no longer flushes the Build writer explicitly", site=ctx.site(dn, 0))
        return
    me = modes(ctx).mode_edges(dn)
    not_build = {eid for eid, vs in me.items() if "Build" not in vs}
    if not any("Build" in vs for vs in me.values()):
        ctx.anchor_missing("a CtxOut::Build arm in IOCtx::done")
        return
    # with the other variants' edges, the flush and the explicit error returns cut, no return of done() may be left reachable: what the
    # Build arm returns is the (decorated) result of the flush, or an error raised before it
    cut = not_build | out_edges(dn, fl) | out_edges(dn, err_sites(dn))
    rets = [bb for bb in C.live(dn) if dn.term(bb)["k"] == "return"]
    bad = [bb for bb in rets if not C.guarded(dn, bb, cut)]
    if bad:
        ctx.violation([dn.name, "ok-without-flush"], "IOCtx::done can return for a Build output without flushing the writer (the last "
                      "write error would be swallowed by Drop)", site=ctx.site(dn, bad[0]), witness=C.witness(dn, bad[0], cut))
    else:
        ctx.ok("Build: done() returns only past the explicit flush (or with an error raised before it)", site=ctx.site(dn, fl[0]))


@rule("C04", "R04.10", floor=1)
def r04_10(ctx):
    """a missing include is a failure: try_resolve is asked to CREATE a missing path only by the temp writer — anywhere else (the include
    arm, a dependency lookup) `create` would turn "file not found" into an empty file and a successful run"""
    lib = ctx.lib
    wt = body(ctx, "write_temp_file")
    cs = C.all_call_sites(lib, lambda ns, t: ROLE["try_resolve"] in ns)
    if not cs:
        ctx.anchor_missing("call of try_resolve")
    for (b, bb, t) in cs:
        v = C.op_const(t["args"][2]) if len(t["args"]) > 2 else None
        if b is wt or v == "false":
            ctx.ok("try_resolve(_, %s)|%s" % (v, b.name), site=ctx.site(b, bb))
        else:
            ctx.violation([b.name, "resolve-creates"], "try_resolve is called with create = %s outside the temp writer: a path that does not exist is "
                          "created instead of being reported" % v, site=ctx.site(b, bb))

