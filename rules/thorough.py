"""Thorough tier (DESIGN §3.6 / §4.1): more build configurations + checker self-validation.

1. cfg universe: the rules are re-run on the library built with --no-default-features (no clap / cli feature)
   and the --all-targets build is used to show that test-only constructors stay test-only.
2. self-validation against seeded mutants and neutral patches of THIS property: each patch is applied to a
   scratch copy (mktemp, removed afterwards), facts are re-extracted (static; nothing is executed) and the rules
   must fire (mutants) / stay silent (neutral).  Asserted only when /repo's sources equal the baseline the patches
   were written against (tools/baseline_hash); on any other tree patches that no longer apply are skipped and the
   result is report-only, so a changed tree can never turn the self-check into an alarm.
3. cross-reference with clippy's opt-in panic / must-use lints (C04, C18): every site clippy sees must be in the
   engine's inventory (a miss is a checker bug: exit 2).
"""
import json
import os
import re
import subprocess
import sys
import tempfile
import shutil
import time
from multiprocessing import Pool

import core as C
import engine as E
import facts as F

TOOLS = os.path.join(F.VERIF, "tools")
sys.path.insert(0, TOOLS)


def prepare(pid, progs):
    extra = {}
    info = {"configurations": {}}
    for cfg in ("nodefault", "alltargets"):
        try:
            fx = F.extract(E.REPO, cfg)
            extra[cfg] = E.programs_from_facts(fx)       # same normal form as the default configuration
            info["configurations"][cfg] = {k: len(p.bodies) for k, p in extra[cfg].items()}
        except F.CheckerBroken as e:
            info["configurations"][cfg] = "extraction failed: %s" % str(e)[-300:]
    return extra, info


def _run_ext(args):
    kind, ident_, patch, pid = args
    import seeded as SD
    return kind, ident_, SD.run_patch(patch, props=[pid])


def _baseline_hash():
    try:
        return open(os.path.join(TOOLS, "baseline_hash")).read().strip()
    except OSError:
        return None


def src_hash(root):
    """hash of the sources the patches are written against (src/, tests/, Cargo.*)"""
    import hashlib
    h = hashlib.sha256()
    for name in ("src", "Cargo.toml"):
        p = os.path.join(root, name)
        if os.path.isdir(p):
            for dp, dns, fns in os.walk(p):
                dns.sort()
                for fn in sorted(fns):
                    fp = os.path.join(dp, fn)
                    h.update(os.path.relpath(fp, root).encode() + b"\0")
                    h.update(open(fp, "rb").read())
        elif os.path.exists(p):
            h.update(open(p, "rb").read())
    return h.hexdigest()


def finish(pid, ctx, progs, extra, info, t0):
    rc = 0
    out = []
    # ---- 1. other configurations
    nd = extra.get("nodefault")
    if nd and "lib" in nd:
        p2 = {"lib": nd["lib"]}
        if "bin" in progs:
            p2["bin"] = progs["bin"]      # the binary only exists with the cli feature
        ctx2 = E.run_rules(pid, "thorough", p2)
        v2 = [o for o in ctx2.obligations if o["status"] == "violation"]
        known = {k["key"] for k in E.load_known().get("open", []) if k["property"] == pid}
        v2 = [o for o in v2 if o["key"] not in known]
        info["nodefault"] = {"obligations": len(ctx2.obligations), "violations": len(v2)}
        for o in v2:
            o["key"] = o["key"] + "|cfg=no-default-features"
            p = E.write_report(pid, o)
            out.append("VIOLATION property=%s replay=%s" % (pid, p))
            out.append("  [--no-default-features] rule %s: %s" % (o["rule"], o["message"]))
            rc = 1
    at = extra.get("alltargets")
    if at and pid in ("C03", "C11"):
        # AbsPath::new (no canonicalisation) may be mentioned by test bodies only
        bad = []
        for label, prog in at.items():
            if label.endswith("-test") or label.startswith("itest:"):
                continue
            for (b, kind, bb, names, obj) in C.all_mentions(prog, lambda ns: any(n.endswith("AbsPath::new") for n in ns)):
                bad.append("%s in %s" % (label, b.name))
        test_users = 0
        for label, prog in at.items():
            if label.endswith("-test") or label.startswith("itest:"):
                test_users += len(C.all_mentions(prog, lambda ns: any(n.endswith("AbsPath::new") for n in ns)))
        info["abspath_new"] = {"non_test_mentions": bad, "test_mentions": test_users}
        if bad:
            out.append("VIOLATION property=%s replay=%s" % (pid, E.write_report(pid, {
                "rule": "R03.6", "key": "R03.6|abspath-new-used|alltargets", "message": "AbsPath::new used by non-test code: %s" % bad})))
            rc = 1
    # ---- 2. mutant self-check
    try:
        from mutant_defs import MUTANTS
        import mutants as MU
        mine = [m for m in MUTANTS if (pid in m["expect"]) or m["id"].startswith("N")]
        same_tree = _baseline_hash() == src_hash(E.REPO)
        t1 = time.time()
        jobs = int(os.environ.get("VERIF_JOBS", "12"))
        with Pool(jobs) as pool:
            res = dict(pool.map(MU.run_one, [(m, [pid]) for m in mine]))
        rows = []
        n_bad = 0
        for m in mine:
            r = res[m["id"]]
            if "error" in r:
                rows.append({"id": m["id"], "status": "skipped (does not apply / compile on this tree)"})
                if same_tree:
                    n_bad += 1
                continue
            fired = r["fired"].get(pid, [])
            if m["id"].startswith("N"):
                ok = not fired
                rows.append({"id": m["id"], "kind": "neutral", "status": "silent" if ok else "FALSE-ALARM", "fired": fired, "what": m["what"]})
            else:
                want = m["expect"][pid]
                ok = all(w in fired for w in want)
                rows.append({"id": m["id"], "kind": "mutant", "status": "caught" if ok else "MISSED", "fired": fired, "expected": want, "what": m["what"]})
            n_bad += not ok
        # independently seeded breaking changes of this property (seeded/<id>/) and behaviour-preserving refactors (neutral/<id>/)
        import seeded as SD
        ext = []
        sd = os.path.join(F.VERIF, "seeded")
        for sid in sorted(os.listdir(sd)) if os.path.isdir(sd) else []:
            mp = os.path.join(sd, sid, "meta.json")
            if os.path.exists(mp) and json.load(open(mp)).get("property") == pid:
                ext.append(("seeded", sid, os.path.join(sd, sid, "patch.diff")))
        nd = os.path.join(F.VERIF, "neutral")
        for nid in sorted(os.listdir(nd)) if os.path.isdir(nd) else []:
            ext.append(("neutral", nid, os.path.join(nd, nid, "patch.diff")))
        with Pool(jobs) as pool:
            eres = pool.map(_run_ext, [(k, i, p_, pid) for (k, i, p_) in ext])
        for (k, i, r) in eres:
            if "error" in r:
                rows.append({"id": i, "kind": k, "status": "skipped (does not apply / compile on this tree)"})
                n_bad += same_tree
                continue
            fired = sorted({v["rule"] for v in r["fired"].get(pid, [])})
            if k == "neutral":
                ok = not fired
                rows.append({"id": i, "kind": "neutral refactor (independent agent)", "status": "silent" if ok else "FALSE-ALARM", "fired": fired})
            else:
                st = json.load(open(os.path.join(sd, i, "meta.json"))).get("status", "caught")
                ok = bool(fired) or st != "caught"
                rows.append({"id": i, "kind": "seeded breaking change (independent agent)", "status": "caught" if fired else ("not caught by this property's rules (%s)" % st), "fired": fired})
            n_bad += not ok
        info["self_check"] = {"patches": len(mine) + len(ext), "not_as_expected": n_bad, "asserted": same_tree, "wall_s": round(time.time() - t1, 1),
                              "rows": rows}
        if n_bad and same_tree:
            out.append("CHECKER-BROKEN: %d seeded mutant(s)/neutral patch(es) not handled as expected for %s: %s" % (
                n_bad, pid, [r["id"] for r in rows if r["status"] in ("MISSED", "FALSE-ALARM") or r["status"].startswith("skipped")]))
            rc = max(rc, 2)
    except Exception as e:   # the self-check must never turn into a false alarm
        info["self_check"] = {"error": repr(e)}
    # ---- 3. clippy cross-reference
    if pid in ("C04", "C18"):
        info["clippy"] = clippy_xref(pid, ctx)
        if info["clippy"].get("missed"):
            out.append("CHECKER-BROKEN: clippy reports sites that the %s inventory does not contain: %s" % (pid, info["clippy"]["missed"][:5]))
            rc = max(rc, 2)
    for l in out:
        print(l)
    # rewrite the evidence with the thorough details
    viol = sum(1 for o in ctx.obligations if o["status"] == "violation") + (1 if rc == 1 else 0)
    E.write_evidence(pid, "thorough", ctx, time.time() - t0, sum(1 for l in out if l.startswith("VIOLATION")) +
                     sum(1 for o in ctx.obligations if o["status"] == "violation" and o["key"] not in
                         {k["key"] for k in E.load_known().get("open", []) if k["property"] == pid}), info)
    print("%s thorough: configurations %s; self-check %s" % (pid, list(info["configurations"].keys()),
                                                            {k: v for k, v in info.get("self_check", {}).items() if k != "rows"}))
    return rc


CLIPPY_LINTS = {
    "C18": ["unwrap_used", "expect_used", "indexing_slicing", "string_slice", "panic", "unreachable", "arithmetic_side_effects", "unimplemented", "todo"],
    "C04": ["let_underscore_must_use", "let_underscore_untyped", "unused_must_use", "let_underscore_drop"],
}


def clippy_xref(pid, ctx):
    target = tempfile.mkdtemp(prefix="txtpp-verif-clippy-")
    try:
        args = ["cargo", "+nightly", "clippy", "--offline", "-q", "--message-format=json", "--"]
        for l in CLIPPY_LINTS[pid]:
            args += ["-W", "clippy::" + l] if l != "unused_must_use" else ["-W", l]
        env = dict(os.environ, CARGO_TARGET_DIR=target, CARGO_NET_OFFLINE="true")
        r = subprocess.run(args, cwd=E.REPO, env=env, stdout=subprocess.PIPE, stderr=subprocess.PIPE, text=True)
        sites = set()
        for line in r.stdout.splitlines():
            try:
                m = json.loads(line)
            except ValueError:
                continue
            msg = m.get("message") or {}
            code = (msg.get("code") or {}).get("code", "")
            if not any(code.endswith(l) for l in CLIPPY_LINTS[pid]):
                continue
            for sp in msg.get("spans", []):
                if sp.get("is_primary"):
                    sites.add((sp["file_name"], sp["line_start"], code))
        mine = set()
        for o in ctx.obligations:
            loc = (o.get("site") or {}).get("loc")
            if loc:
                f, l = loc.rsplit(":", 1)
                mine.add((f, int(l)))
        missed = sorted("%s:%d %s" % s for s in sites if (s[0], s[1]) not in mine and not _near(mine, s))
        return {"clippy_sites": len(sites), "engine_sites": len(mine), "missed": missed, "lints": CLIPPY_LINTS[pid],
                "status": "ok" if r.returncode == 0 or sites else "clippy unavailable: %s" % r.stderr[-200:]}
    finally:
        shutil.rmtree(target, ignore_errors=True)


def _near(mine, s, d=3):
    """multi-line expressions: clippy anchors at the expression start, MIR at the call"""
    return any(f == s[0] and abs(l - s[1]) <= d for (f, l) in mine)
