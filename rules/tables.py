"""External-API classification tables (DESIGN §4.4).  Reviewed lists, one line of reason each.
Names are normalised def paths (core::/alloc:: spelled std::).  The lists are deliberately broader
than what txtpp uses today so that a *new* use is classified.
"""
import re

# ---------------------------------------------------------------- file system: mutating
FS_CREATE_TRUNC = {                      # create-or-truncate a path, content replaced
    "std::fs::File::create": "creates or truncates",
    "std::fs::write": "creates or truncates, then writes",
}
FS_REMOVE = {
    "std::fs::remove_file": "deletes a file",
}
FS_OTHER_MUTATING = {                    # none of these is used by txtpp today; any use is outside every cell
    "std::fs::remove_dir": "deletes a directory",
    "std::fs::remove_dir_all": "deletes a tree",
    "std::fs::rename": "moves a path",
    "std::fs::copy": "writes the destination",
    "std::fs::create_dir": "creates a directory",
    "std::fs::create_dir_all": "creates directories",
    "std::fs::hard_link": "creates a link",
    "std::fs::soft_link": "creates a link",
    "std::os::unix::fs::symlink": "creates a link",
    "std::fs::set_permissions": "changes metadata",
    "std::fs::File::create_new": "creates a file",
    "std::fs::File::set_len": "truncates/extends",
    "std::fs::File::set_permissions": "changes metadata",
    "std::fs::File::set_times": "changes mtime",
    "std::fs::File::set_modified": "changes mtime",
    # OpenOptions: the effect happens at `open`; it is classified by its builder chain in common.classify_open()
    # (truncating-create iff .write(true) + .truncate(true) and never .append(true)); builder methods are not effects
    "std::fs::OpenOptions::open": "write-capable open whose builder chain is not provably truncating",
    "std::fs::DirBuilder::create": "creates a directory",
    "std::fs::DirBuilder::new": "creates a directory",
}
FS_MUTATING = {}
FS_MUTATING.update(FS_CREATE_TRUNC)
FS_MUTATING.update(FS_REMOVE)
FS_MUTATING.update(FS_OTHER_MUTATING)

# writes through an already open handle
HANDLE_WRITE_RE = re.compile(
    r"^(<std::(io::BufWriter<W>|fs::File|io::LineWriter<W>|&std::fs::File) as std::io::Write>::"
    r"(write|write_all|write_fmt|write_vectored|flush|write_all_vectored)|std::io::Write::(write|write_all|write_vectored|flush|write_all_vectored)"
    r"|std::io::copy|std::fs::File::sync_all|std::fs::File::sync_data)$")

# ---------------------------------------------------------------- file system: reading
FS_READ_BYTES = {"std::fs::read": "whole file as bytes"}
FS_READ_UTF8 = {
    "std::fs::read_to_string": "validates UTF-8: fails on arbitrary bytes",
    "std::io::read_to_string": "validates UTF-8",
    "std::io::Read::read_to_string": "validates UTF-8",
    "std::io::BufRead::read_line": "validates UTF-8",
    "std::io::BufRead::lines": "validates UTF-8",
    "std::string::String::from_utf8": "validates UTF-8",
    "std::str::from_utf8": "validates UTF-8",
    "std::str::converts::from_utf8": "validates UTF-8",
}
FS_READ_OPEN = {"std::fs::File::open": "read-only open"}
FS_QUERY = {
    "std::path::Path::exists", "std::path::Path::is_file", "std::path::Path::is_dir", "std::fs::metadata",
    "std::path::Path::metadata", "std::path::Path::canonicalize", "std::fs::canonicalize", "std::path::Path::read_dir",
    "std::fs::read_dir", "std::fs::symlink_metadata", "std::path::Path::try_exists", "std::path::Path::is_symlink",
}

# ---------------------------------------------------------------- processes / environment
PROCESS_RE = re.compile(r"^std::process::(Command::|exit$|abort$|Child::)")
ENV_MUTATING = {"std::env::set_var", "std::env::remove_var", "std::env::set_current_dir"}

# ---------------------------------------------------------------- error erasure (by value on Result<_, E != ()>)
ERR_ERASING_RE = re.compile(
    r"^std::result::Result::<T, E>::(ok|unwrap_or|unwrap_or_default|unwrap_or_else|map_or|map_or_else|is_ok_and|"
    r"is_err_and|into_iter|iter|iter_mut|err|is_ok|is_err|and|or|unwrap_unchecked)$")
ERR_ERASING_BYREF_OK = {"is_ok", "is_err", "iter", "iter_mut"}   # by-reference probes: the value still has to be dropped/used
ITER_ERR_ERASING = {"std::iter::Iterator::flatten", "std::iter::Iterator::flat_map", "std::iter::Iterator::filter_map",
                    "std::iter::Iterator::map_while"}

# ---------------------------------------------------------------- may panic
MAY_PANIC_EXACT = {
    "std::option::Option::<T>::unwrap": "None",
    "std::option::Option::<T>::expect": "None",
    "std::result::Result::<T, E>::unwrap": "Err",
    "std::result::Result::<T, E>::expect": "Err",
    "std::result::Result::<T, E>::unwrap_err": "Ok",
    "std::result::Result::<T, E>::expect_err": "Ok",
    "std::panicking::panic": "explicit panic / assert! / unreachable!",
    "std::panicking::panic_fmt": "explicit panic",
    "std::panicking::panic_display": "explicit panic",
    "std::panicking::panic_explicit": "explicit panic",
    "std::panicking::unreachable_display": "unreachable!",
    "std::panicking::assert_failed": "assert_eq!/assert_ne!",
    "std::panicking::begin_panic": "explicit panic",
    "std::rt::begin_panic": "explicit panic",
    "std::rt::panic_fmt": "explicit panic",
    "std::str::<impl str>::split_at": "index not on a char boundary / out of range",
    "std::slice::<impl [T]>::split_at": "index out of range",
    "std::slice::<impl [T]>::copy_from_slice": "length mismatch",
    "std::slice::<impl [T]>::clone_from_slice": "length mismatch",
    "std::slice::<impl [T]>::chunks": "zero chunk size",
    "std::slice::<impl [T]>::windows": "zero window size",
    "std::slice::<impl [T]>::swap": "index out of range",
    "std::vec::Vec::<T, A>::remove": "index out of range",
    "std::vec::Vec::<T, A>::insert": "index out of range",
    "std::vec::Vec::<T, A>::swap_remove": "index out of range",
    "std::vec::Vec::<T, A>::drain": "range out of bounds",
    "std::vec::Vec::<T, A>::split_off": "index out of range",
    "std::string::String::remove": "index not on a char boundary",
    "std::string::String::insert": "index not on a char boundary",
    "std::string::String::insert_str": "index not on a char boundary",
    "std::string::String::truncate": "index not on a char boundary",
    "std::string::String::drain": "range not on char boundaries",
    "std::string::String::split_off": "index not on a char boundary",
    "std::string::String::replace_range": "range not on char boundaries",
    "std::cell::RefCell::<T>::borrow": "already mutably borrowed",
    "std::cell::RefCell::<T>::borrow_mut": "already borrowed",
    "std::iter::Iterator::step_by": "zero step",
    "threadpool::Builder::num_threads": "asserts num_threads > 0",
    "threadpool::ThreadPool::new": "asserts num_threads > 0",
    "threadpool::ThreadPool::with_name": "asserts num_threads > 0",
    "threadpool::ThreadPool::set_num_threads": "asserts num_threads > 0",
    "env_logger::init": "panics when a logger is already installed",
    "std::time::Instant::duration_since": "saturates since 1.60 but documented as may-panic",
    "std::str::<impl str>::repeat": "capacity overflow",
    "std::thread::spawn": "OS failure to spawn panics",
    "std::process::abort": "aborts",
    "std::process::exit": "exits",
}
MAY_PANIC_RE = re.compile(
    r"(^std::ops::Index(Mut)?::index(_mut)?$|::<impl std::ops::Index(Mut)?<I>( for .*)?>::index(_mut)?$|"
    r" as std::ops::Index(Mut)?<.*>>::index(_mut)?$|^<std::time::(Instant|Duration|SystemTime) as std::ops::(Add|Sub|Mul|Div)"
    r"|^std::thread::Builder::spawn)")

# ---------------------------------------------------------------- sorting / order
SORT_RE = re.compile(r"^std::slice::<impl \[T\]>::(sort|sort_by|sort_by_key|sort_by_cached_key|sort_unstable|"
                     r"sort_unstable_by|sort_unstable_by_key)$")
HASH_ITER_RE = re.compile(
    r"^(std::collections::Hash(Map|Set)::<.*>::(iter|iter_mut|keys|values|values_mut|drain|into_keys|into_values)$|"
    r"<&'a (mut )?std::collections::Hash(Map|Set)<.*> as std::iter::IntoIterator>::into_iter$|"
    r"<std::collections::Hash(Map|Set)<.*> as std::iter::IntoIterator>::into_iter$)")

# ---------------------------------------------------------------- misc
LOGGING_RE = re.compile(r"^(log::|std::fmt::|std::io::_eprint|std::io::_print|<.* as std::fmt::(Display|Debug)>::fmt)")


# std::fs is default-deny: anything in the module that is not a known read / query / accessor is treated as mutating,
# so that a *new* API (set_modified, chown, create_new, ...) is classified without a table update
FS_SAFE_RE = re.compile(
    r"^std::fs::(read|read_to_string|read_dir|read_link|metadata|symlink_metadata|canonicalize|exists|try_exists)$|"
    r"^std::fs::File::(open|metadata|try_clone|lock_shared|unlock|try_lock_shared)$|"
    r"^std::fs::(Metadata|DirEntry|ReadDir|FileType|Permissions|FileTimes)::|^<std::fs::(ReadDir|DirEntry|Metadata|FileType|File) as |"
    r"^std::fs::OpenOptions::(new|read|write|create|truncate|append|create_new|open)$|^std::fs::File::options$")


def classify_fs(name):
    if (name.startswith("std::fs::") or name.startswith("std::os::unix::fs::")) and name not in FS_MUTATING and \
            name not in FS_READ_BYTES and name not in FS_READ_UTF8 and name not in FS_READ_OPEN and name not in FS_QUERY and \
            not FS_SAFE_RE.search(name) and not HANDLE_WRITE_RE.match(name):
        return "OTHER_MUTATING"
    if name in FS_CREATE_TRUNC:
        return "CREATE_TRUNC"
    if name in FS_REMOVE:
        return "REMOVE"
    if name in FS_OTHER_MUTATING:
        return "OTHER_MUTATING"
    if HANDLE_WRITE_RE.match(name):
        return "WRITE_HANDLE"
    if name in FS_READ_BYTES:
        return "READ_BYTES"
    if name in FS_READ_UTF8:
        return "READ_UTF8"
    if name in FS_READ_OPEN:
        return "READ_OPEN"
    if name in FS_QUERY:
        return "QUERY"
    return None


def is_fs_mutating(name):
    return name in FS_MUTATING or classify_fs(name) == "OTHER_MUTATING"


def is_process(name):
    return bool(PROCESS_RE.match(name)) or name in ENV_MUTATING


def may_panic(name):
    if name in MAY_PANIC_EXACT:
        return MAY_PANIC_EXACT[name]
    if MAY_PANIC_RE.search(name):
        return "index/arith may panic"
    return None


# iterator plumbing that hands on the ITEMS of the underlying iterator unchanged (possibly fewer of them, reordered or paired with an
# index): tracing an item back through these reaches the producer of the items
ITEM_PRESERVING = {
    "std::iter::Iterator::skip", "std::iter::Iterator::take", "std::iter::Iterator::peekable", "std::iter::Iterator::by_ref",
    "std::iter::Iterator::enumerate", "std::iter::Iterator::rev", "std::iter::Iterator::fuse", "std::iter::Iterator::step_by",
    "std::iter::Iterator::skip_while", "std::iter::Iterator::take_while", "std::iter::Iterator::filter", "std::iter::Iterator::collect",
    "std::iter::Iterator::cloned", "std::iter::Iterator::copied", "std::iter::Iterator::last", "std::iter::Iterator::nth",
    "std::iter::Iterator::next", "std::iter::DoubleEndedIterator::next_back",
    "std::iter::Peekable::<I>::peek", "std::iter::Peekable::<I>::next_if",
    "<I as std::iter::IntoIterator>::into_iter", "std::iter::IntoIterator::into_iter",
    "std::slice::iter::<impl std::iter::IntoIterator for &'a [T]>::into_iter",
    "std::slice::<impl [T]>::iter", "std::slice::<impl [T]>::last", "std::slice::<impl [T]>::first",
    "std::slice::<impl [T]>::split_last", "std::slice::<impl [T]>::split_first",
    "<std::vec::Vec<T, A> as std::ops::Index<I>>::index", "std::vec::Vec::<T, A>::pop", "std::vec::Vec::<T, A>::last",
    "std::vec::Vec::<T, A>::as_slice", "<std::vec::Vec<T, A> as std::ops::Deref>::deref", "std::slice::<impl [T]>::to_vec",
    "std::slice::<impl [T]>::get", "std::iter::Iterator::flatten",
}


def item_preserving(name):
    return name in ITEM_PRESERVING or name.endswith("Iterator>::next") or name.endswith("Iterator::next") or name.endswith("::into_iter") \
        or name.endswith("Iterator>::next_back")
