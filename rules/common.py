"""Helpers shared by the rule modules: anchors, site inventories, condition matchers."""
import core as C
import flow as Fl
import modes as M
import tables as T

# crate-private roles (DESIGN §3.4); a role that no longer resolves fails closed
ROLE = {
    "remove_txtpp": "<std::path::PathBuf as txtpp::fs::path::TxtppPath>::remove_txtpp",
    "is_txtpp_file": "<std::path::PathBuf as txtpp::fs::path::TxtppPath>::is_txtpp_file",
    "get_txtpp_file": "<std::path::PathBuf as txtpp::fs::path::TxtppPath>::get_txtpp_file",
    "try_resolve": "txtpp::fs::path::abs_path::AbsPath::try_resolve",
    "share_base": "txtpp::fs::path::abs_path::AbsPath::share_base",
    "create_base": "txtpp::fs::path::abs_path::AbsPath::create_base",
    "make_abs": "txtpp::fs::path::abs_path::AbsPath::make_abs",
    "abs_parent": "txtpp::fs::path::abs_path::AbsPath::parent",
    "ioctx_new": "txtpp::fs::io_context::IOCtx::new",
    "ctxout_new": "txtpp::fs::io_context::CtxOut::new",
    "write_output": "txtpp::fs::io_context::IOCtx::write_output",
    "write_temp_file": "txtpp::fs::io_context::IOCtx::write_temp_file",
    "done": "txtpp::fs::io_context::IOCtx::done",
    "next_line": "txtpp::fs::io_context::IOCtx::next_line",
    "shell_run": "txtpp::fs::shell::Shell::run",
    "shell_new": "txtpp::fs::shell::Shell::new",
    "shell_default": "txtpp::fs::shell::Shell::default",
    "pp_run": "txtpp::core::execute::pp::Pp::<'a>::run",
    "pp_run_internal": "txtpp::core::execute::pp::Pp::<'a>::run_internal",
    "get_next_line": "txtpp::core::execute::pp::Pp::<'a>::get_next_line",
    "iterate_directive": "txtpp::core::execute::pp::Pp::<'a>::iterate_directive",
    "execute_directive": "txtpp::core::execute::pp::Pp::<'a>::execute_directive",
    "execute_in_clean_mode": "txtpp::core::execute::pp::Pp::<'a>::execute_in_clean_mode",
    "execute_in_collect_deps_mode": "txtpp::core::execute::pp::Pp::<'a>::execute_in_collect_deps_mode",
    "execute_directive_temp": "txtpp::core::execute::pp::Pp::<'a>::execute_directive_temp",
    "format_directive_output": "txtpp::core::execute::pp::Pp::<'a>::format_directive_output",
    "preprocess": "txtpp::core::execute::pp::preprocess",
    "ignore_err_if_cleaning": "<std::result::Result<T, error_stack::Report<txtpp::error::PpError>> as txtpp::core::execute::pp::IgnoreIfCleaning>::ignore_err_if_cleaning",
    "detect_from": "txtpp::core::execute::pp::directive::directive_from::<impl txtpp::core::execute::pp::directive::Directive>::detect_from",
    "add_line": "txtpp::core::execute::pp::directive::directive_add_line::<impl txtpp::core::execute::pp::directive::Directive>::add_line",
    "supports_multi_line": "txtpp::core::execute::pp::directive::DirectiveType::supports_multi_line",
    "directive_try_from": "<txtpp::core::execute::pp::directive::DirectiveType as std::convert::TryFrom<&str>>::try_from",
    "directive_new": "txtpp::core::execute::pp::directive::Directive::new",
    "tag_create": "txtpp::core::util::tag_state::TagState::create",
    "tag_try_store": "txtpp::core::util::tag_state::TagState::try_store",
    "tag_inject": "txtpp::core::util::tag_state::TagState::inject_tags",
    "tag_has_tags": "txtpp::core::util::tag_state::TagState::has_tags",
    "replace_line_ending": "<str as txtpp::core::util::string::ReplaceLineEnding>::replace_line_ending",
    "get_line_ending": "<P as txtpp::fs::line_ending::GetLineEnding>::get_line_ending",
    "get_line_ending_from_buf": "txtpp::fs::line_ending::get_line_ending_from_buf",
    "txtpp_run": "txtpp::core::execute::Txtpp::run",
    "txtpp_run_internal": "txtpp::core::execute::Txtpp::run_internal",
    "execute_file": "txtpp::core::execute::Txtpp::execute_file",
    "execute_directory": "txtpp::core::execute::Txtpp::execute_directory",
    "txtpp_fn": "txtpp::core::execute::txtpp",
    "txtpp_drop": "<txtpp::core::execute::Txtpp as std::ops::Drop>::drop",
    "scan_dir": "txtpp::core::execute::scan_dir::scan_dir",
    "resolve_inputs": "txtpp::core::execute::resolve_inputs::resolve_inputs",
    "add_dependency": "txtpp::core::util::dependency::DepManager::add_dependency",
    "notify_finish": "txtpp::core::util::dependency::DepManager::notify_finish",
    "take_remaining": "txtpp::core::util::dependency::DepManager::take_remaining",
    "print_dep_map": "txtpp::core::util::dependency::print_dep_map",
    "progress_add_total": "txtpp::core::util::progress::Progress::add_total",
    "progress_add_done": "txtpp::core::util::progress::Progress::add_done",
    "progress_is_done": "txtpp::core::util::progress::Progress::is_done",
    "abspath_display": "<txtpp::fs::path::abs_path::AbsPath as std::fmt::Display>::fmt",
    "path_string_from_base": "txtpp::fs::path::abs_path::path_string_from_base",
    "trim_txtpp": "txtpp::fs::path::abs_path::AbsPath::trim_txtpp",
    "resolve_shell": "txtpp::fs::shell::resolve_shell",
    "normalize_path": "txtpp::fs::path::normalize_path",
    "is_execute": "txtpp::core::execute::pp::PpMode::is_execute",
    "abspath_new": "txtpp::fs::path::abs_path::AbsPath::new",
    "abspath_hash": "<txtpp::fs::path::abs_path::AbsPath as std::hash::Hash>::hash",
    "abspath_eq": "<txtpp::fs::path::abs_path::AbsPath as std::cmp::PartialEq>::eq",
    "abspath_clone": "<txtpp::fs::path::abs_path::AbsPath as std::clone::Clone>::clone",
    "make_error": "txtpp::fs::io_context::IOCtx::make_error",
}

ADT = {
    "Mode": "txtpp::core::execute::config::Mode",
    "CtxOut": "txtpp::fs::io_context::CtxOut",
    "Config": "txtpp::core::execute::config::Config",
    "DirectiveType": "txtpp::core::execute::pp::directive::DirectiveType",
    "Directive": "txtpp::core::execute::pp::directive::Directive",
    "PpMode": "txtpp::core::execute::pp::PpMode",
    "PpResult": "txtpp::core::execute::pp::PpResult",
    "IterDirectiveResult": "txtpp::core::execute::pp::IterDirectiveResult",
    "TaskResult": "txtpp::core::execute::TaskResult",
    "AbsPath": "txtpp::fs::path::abs_path::AbsPath",
    "IOCtx": "txtpp::fs::io_context::IOCtx",
    "Pp": "txtpp::core::execute::pp::Pp",
    "TagState": "txtpp::core::util::tag_state::TagState",
    "Shell": "txtpp::fs::shell::Shell",
    "Txtpp": "txtpp::core::execute::Txtpp",
    "Progress": "txtpp::core::util::progress::Progress",
    "DepManager": "txtpp::core::util::dependency::DepManager",
}

ROLE_DEFAULT = dict(ROLE)
ADT_DEFAULT = dict(ADT)


def _impl_key(name):
    """(self type last segment, trait last segment, method) of `<T as Trait>::method`"""
    import re as _re
    m = _re.match(r"^<(.*) as (.*)>::(\w+)$", name)
    if not m:
        return None
    last = lambda x: _re.sub(r"<.*$", "", x).rsplit("::", 1)[-1]
    return (last(m.group(1)), last(m.group(2)), m.group(3))


def resolve_roles(prog):
    """Re-anchor the crate-private roles on this program: an item whose *module path* changed (moved / module renamed)
    is still found through its last two segments when that is unique.  Renamed items stay unresolved (fail closed)."""
    import engine as _E
    for k, default in ROLE_DEFAULT.items():
        if default in prog.bodies or not default.startswith(("txtpp::", "<")) or "txtpp" not in default:
            ROLE[k] = default
            continue
        alt = None
        if default.startswith("<"):
            key = _impl_key(default)
            if key:
                c = [n for n in prog.bodies if n.startswith("<") and _impl_key(n) == key]
                alt = c[0] if len(c) == 1 else None
        else:
            b = _E.resolve_moved(prog, default)
            alt = b.name if b is not None else None
        ROLE[k] = alt or default
    for k, default in ADT_DEFAULT.items():
        if default in prog.adts:
            ADT[k] = default
            continue
        last = default.rsplit("::", 1)[-1]
        c = [p for p in prog.adts if p.rsplit("::", 1)[-1] == last]
        ADT[k] = c[0] if len(c) == 1 else default
    ABSPATH_VIEWS.clear()
    ap_mod = ADT["AbsPath"].rsplit("::", 1)[0]
    ABSPATH_VIEWS.update({
        "%s::as_path_buf" % ADT["AbsPath"], "%s::as_path" % ADT["AbsPath"], "%s::into_path_buf" % ADT["AbsPath"],
        "<%s as std::convert::AsRef<std::path::PathBuf>>::as_ref" % ADT["AbsPath"],
        "<%s as std::convert::AsRef<std::path::Path>>::as_ref" % ADT["AbsPath"],
        "<%s as std::clone::Clone>::clone" % ADT["AbsPath"],
        "%s::<impl std::convert::From<%s> for std::path::PathBuf>::from" % (ap_mod, ADT["AbsPath"]),
    })


# crate-local accessors that only view / copy the absolute path of an AbsPath (field `p`)
ABSPATH_VIEWS = {
    "txtpp::fs::path::abs_path::AbsPath::as_path_buf",
    "txtpp::fs::path::abs_path::AbsPath::as_path",
    "txtpp::fs::path::abs_path::AbsPath::into_path_buf",
    "<txtpp::fs::path::abs_path::AbsPath as std::convert::AsRef<std::path::PathBuf>>::as_ref",
    "<txtpp::fs::path::abs_path::AbsPath as std::convert::AsRef<std::path::Path>>::as_ref",
    "<txtpp::fs::path::abs_path::AbsPath as std::clone::Clone>::clone",
    "txtpp::fs::path::abs_path::<impl std::convert::From<txtpp::fs::path::abs_path::AbsPath> for std::path::PathBuf>::from",
}


def const_by_name(prog, last):
    """a crate constant by its last path segment (unique), e.g. TXTPP_HASH"""
    c = [v for p, v in prog.consts.items() if p.rsplit("::", 1)[-1] == last]
    return c[0] if len(c) == 1 else None


def body(ctx, role, prog=None):
    return ctx.role(prog or ctx.lib, ROLE[role])


def shared(ctx, key, make):
    """per-run cache on the lib Program (modes engine, provenance engine, inventories)"""
    st = ctx.lib.__dict__.setdefault("_shared", {})
    if key not in st:
        st[key] = make()
    return st[key]


def modes(ctx):
    return shared(ctx, "modes", lambda: M.Modes(ctx.lib))


def prov(ctx):
    return shared(ctx, "prov", lambda: Fl.Prov(ctx.lib, extra_transparent=ABSPATH_VIEWS))


def ret_carriers(body):
    """locals whose value becomes the return value by plain moves (`_0 = move _5` left behind by an inlined helper's return, or by
    an error decorator applied to the carried Result): a Result aggregate stored into one of them is a return site"""
    r = getattr(body, "_ret_carriers", None)
    if r is not None:
        return r
    r = {0}
    changed = True
    while changed:
        changed = False
        for bb, si, st in body.stmts():
            if st["k"] == "assign" and not st["lhs"]["p"] and st["lhs"]["l"] in r and st["rv"]["k"] == "use":
                p = C.op_place(st["rv"]["op"])
                if p is not None and not p["p"] and p["l"] not in r and not body.is_param(p["l"]):
                    r.add(p["l"])
                    changed = True
        for bb, t in body.calls():
            if not t["dest"]["p"] and t["dest"]["l"] in r and C.is_err_decorator(t) and t["args"]:
                p = C.op_place(t["args"][0])
                if p is not None and not p["p"] and p["l"] not in r and not body.is_param(p["l"]):
                    r.add(p["l"])
                    changed = True
    body._ret_carriers = r
    return r


def _result_sites(body, variant):
    out = []
    rc = ret_carriers(body)
    for bb, si, st in body.stmts():
        if st["k"] == "assign" and st["lhs"]["l"] in rc and not st["lhs"]["p"]:
            rv = st["rv"]
            if rv["k"] == "aggregate" and rv["agg"]["k"] == "adt" and rv["agg"]["adt"] == "std::result::Result" \
                    and rv["agg"]["variant"] == variant and bb not in out:
                out.append(bb)
    return out


def ok_sites(body):
    """blocks in which `Ok(..)` is stored into the return place (or into a local that is then moved into it)"""
    return _result_sites(body, "Ok")


def err_sites(body):
    out = _result_sites(body, "Err")
    rc = ret_carriers(body)
    for bb, t in body.calls():
        if C.is_from_residual(t) and t["dest"]["l"] in rc and not t["dest"]["p"] and bb not in out:
            out.append(bb)
    return out


def aggregates(body, adt, variant=None):
    """[(bb, stmt)] building a value of crate ADT `adt` (variant)"""
    out = []
    for bb, si, st in body.stmts():
        if st["k"] == "assign" and st["rv"]["k"] == "aggregate" and st["rv"]["agg"]["k"] == "adt" \
                and st["rv"]["agg"]["adt"] == adt and (variant is None or st["rv"]["agg"]["variant"] == variant):
            out.append((bb, st))
    return out


def calls_to(body, names):
    if isinstance(names, str):
        names = (names,)
    return [(bb, t) for bb, t in body.calls() if any(n in names for n in C.callee_names(t))]


def leaf_is_call(leaf, names):
    if isinstance(names, str):
        names = (names,)
    return leaf.kind == "call" and any(n in names for n in C.callee_names(leaf.data))


def bool_call_edges(body, prog, names, value, arg_pred=None, strict=False):
    """edges on which a bool-returning call to one of `names` has truth `value`"""
    if isinstance(names, str):
        names = (names,)

    def pred(c, v, leaf):
        if c.kind != "bool" or leaf is None or leaf.kind != "call":
            return False
        if not any(n in names for n in C.callee_names(leaf.data)):
            return False
        if arg_pred and not arg_pred(leaf.data):
            return False
        return v == value
    return C.guard_edges(body, prog, pred, strict=strict)


def enum_edges(body, prog, adt, variants_pred, src_pred=None):
    """edges on which a value of enum `adt` is known to be in a variant set satisfying variants_pred:
    switches on the discriminant, and `x == Adt::V` / `x != Adt::V` tests (derived PartialEq)"""
    # the success / failure vocabulary of the three std carriers: a value that started as Option<T> may be tested as the Result made
    # from it by ok_or(..) or as the ControlFlow made by `?` — same outcome, different variant names
    SUCC = {"std::option::Option": "Some", "std::result::Result": "Ok", "std::ops::ControlFlow": "Continue"}
    FAIL = {"std::option::Option": "None", "std::result::Result": "Err", "std::ops::ControlFlow": "Break"}

    def pred(c, vs, leaf):
        if c.kind != "enum":
            return False
        if c.adt != adt and adt in SUCC and c.adt in SUCC and c.adt != adt:
            if c.adt == "std::ops::ControlFlow":
                # `x?`: the switch is on Try::branch(x)
                if c.place is None or c.place["p"]:
                    return False
                ds = [r for r in body.defs().get(c.place["l"], []) if r[0] == "call"]
                if len(ds) != 1 or not C.is_try_branch(ds[0][2]):
                    return False
                src_adt = "std::option::Option" if "option::Option" in C.callee_name(ds[0][2]) else "std::result::Result"
                if src_adt != adt and src_pred is None:
                    return False
            elif src_pred is None:
                return False      # Option vs Result without a named source: not the value the caller means
            if src_pred and not src_pred(c):
                return False
            tr = {SUCC[c.adt]: SUCC[adt], FAIL[c.adt]: FAIL[adt]}
            return variants_pred({tr.get(v, v) for v in vs})
        if c.adt != adt:
            return False
        if src_pred and not src_pred(c):
            return False
        return variants_pred(vs)
    out = C.guard_edges(body, prog, pred)
    if adt in SUCC and adt != "std::ops::ControlFlow":
        # `x.is_some()` / `x.is_err()` ... are the same test spelled as a call
        PROBES = {"std::option::Option::<T>::is_some": ("std::option::Option", "Some"),
                  "std::option::Option::<T>::is_none": ("std::option::Option", "None"),
                  "std::result::Result::<T, E>::is_ok": ("std::result::Result", "Ok"),
                  "std::result::Result::<T, E>::is_err": ("std::result::Result", "Err")}

        def probe_pred(c, v, leaf):
            if c.kind != "bool" or leaf is None or leaf.kind != "call":
                return False
            pr = PROBES.get(C.callee_name(leaf.data))
            if pr is None or not leaf.data["args"]:
                return False
            padt, pvar = pr
            if padt != adt and src_pred is None:
                return False
            if src_pred:
                pl = C.op_place(leaf.data["args"][0])
                if pl is None:
                    return False
                ds = body.defs().get(pl["l"], []) if not pl["p"] else []
                if len(ds) == 1 and ds[0][0] == "assign" and ds[0][3]["rv"]["k"] == "ref":
                    pl = ds[0][3]["rv"]["pl"]       # `(&x).is_some()`: the probed place is x
                if not src_pred(C.Cond("enum", c.bb, adt=padt, src=C.trace(body, leaf.data["args"][0], through_decorators=True), place=pl)):
                    return False
            var = pvar if v else (FAIL[padt] if pvar == SUCC[padt] else SUCC[padt])
            return variants_pred({{SUCC[padt]: SUCC[adt], FAIL[padt]: FAIL[adt]}[var]})
        out |= C.guard_edges(body, prog, probe_pred)
    names = prog.variant_names(adt)
    if names and adt in prog.adts and src_pred is None:
        allv = set(names.values())
        for bb in C.switches(body):
            c = C.switch_cond(body, bb)
            if c.kind != "bool":
                continue
            for leaf in c.src:
                r = C.eq_variant_test(body, leaf, adt, allv)
                if r is None:
                    continue
                var, is_ne = r
                for val, eid in C.bool_edges(body, bb).items():
                    truth = (not val) if leaf.neg else val
                    if is_ne:
                        truth = not truth
                    vs = {var} if truth else set(allv - {var})
                    if variants_pred(vs):
                        out.add(eid)
    return out


def calls_reaching(prog, b, target_names, arg_check=None):
    """call sites in `b` that call one of target_names directly (arg_check(term) must hold) or call a crate-local
    function from which such a call is reachable (helper extraction)"""
    if isinstance(target_names, str):
        target_names = (target_names,)
    out = []
    memo = prog.__dict__.setdefault("_reach_memo", {})
    for bb, t in b.calls():
        names = C.callee_names(t)
        if any(n in target_names for n in names):
            if arg_check is None or arg_check(b, t):
                out.append((bb, t, "direct"))
            continue
        local = next((prog.bodies[n] for n in names if n in prog.bodies), None)
        if local is None or local is b:
            continue
        key = (local.name, tuple(target_names), id(arg_check))
        if key not in memo:
            found = False
            ext, entered = C.reach_closure(prog, local)
            bodies = [local] + [prog.bodies[n] for n in entered if n in prog.bodies]
            for lb in bodies:
                for lbb, lt in lb.calls():
                    if any(n in target_names for n in C.callee_names(lt)) and (arg_check is None or arg_check(lb, lt)):
                        found = True
            memo[key] = found
        if memo[key]:
            out.append((bb, t, "via " + local.name))
    return out


def err_origins(b, op, depth=0, seen=None):
    """where the ERROR side of a Result operand comes from: the fallible calls whose Err it can be. `Ok(..)` values built here contribute
    nothing, an inner `?` (from_residual into a spliced helper's return value) contributes what IT propagated"""
    seen = set() if seen is None else seen
    p = C.op_place(op)
    if p is None or p["p"] or depth > 8 or p["l"] in seen:
        return C.trace(b, op, through_decorators=True)
    seen.add(p["l"])
    out = []
    ds = b.defs().get(p["l"], [])
    if not ds:
        return C.trace(b, op, through_decorators=True)
    for rec in ds:
        if rec[0] == "assign":
            rv = rec[3]["rv"]
            if rv["k"] == "aggregate" and rv["agg"].get("adt") == "std::result::Result":
                if rv["agg"].get("variant") == "Err":
                    for o in rv["ops"]:
                        for l in C.trace(b, o, through_decorators=True):
                            if l.kind == "errpayload":
                                # `Err(f(e))` with `e` the error of another Result (map_err written as a match): that Result's origins
                                out += err_origins(b, {"k": "move", "pl": {"l": l.data["l"], "p": []}}, depth + 1, seen)
                            else:
                                out.append(l)
                continue
            if rv["k"] == "use" and C.op_place(rv["op"]) is not None and not C.op_place(rv["op"])["p"]:
                out += err_origins(b, rv["op"], depth + 1, seen)
                continue
            out += C.trace(b, {"l": p["l"], "p": []}, through_decorators=True)
        elif rec[0] == "call":
            t = rec[2]
            if C.is_from_residual(t):
                out += residual_origin(b, t, depth + 1, seen)
            elif C.is_err_decorator(t) and t["args"]:
                out += err_origins(b, t["args"][0], depth + 1, seen)
            else:
                out.append(C.Leaf("call", rec[1], t))
        else:
            out += C.trace(b, {"l": p["l"], "p": []}, through_decorators=True)
    return out


def residual_origin(b, t, depth=0, seen=None):
    """for a `?` error exit (from_residual call): where the error that is propagated here comes from"""
    out = []
    for l in C.trace(b, t["args"][0]):
        if l.kind == "errpayload":
            base = l.data["l"]
            for rec in b.defs().get(base, []):
                if rec[0] == "call" and C.is_try_branch(rec[2]):
                    out += err_origins(b, rec[2]["args"][0], depth, seen)
        else:
            out.append(l)
    return out


def out_edges(b, blocks):
    cut = set()
    for bb in blocks:
        cut |= {eid for eid, s_, lab in b.edges(bb)}
    return cut


def try_ok_edges(body, prog, of_call_names, through_decorators=True):
    """the Continue/Ok edges of `?` (or match) applied to the result of a call to one of the names"""
    if isinstance(of_call_names, str):
        of_call_names = (of_call_names,)
    out = set()
    for bb in C.switches(body):
        c = C.switch_cond(body, bb)
        if c.kind != "enum" or c.adt not in ("std::ops::ControlFlow", "std::result::Result", "std::option::Option"):
            continue
        src = C.trace(body, c.place, through_try=True, through_decorators=through_decorators,
                      transparent=lambda t: C.is_transparent(t) and not any(n in of_call_names for n in C.callee_names(t)))
        if not any(leaf_is_call(l, of_call_names) for l in src):
            continue
        for eid, succ, vs in C.edge_variants(body, bb, c, prog):
            if vs <= {"Continue", "Ok", "Some"}:
                out.add(eid)
    return out


def cmp_holds_edges(body, prog, rel, a_pred, b_pred):
    """edges on which `a rel b` is known to hold, for binop conditions; rel in {'ge','eq','ne','lt'}.
    a_pred/b_pred(leaves) decide whether an operand is the wanted one."""
    REL = {
        # (binop, a is first operand?) -> on which truth value does `a rel b` hold
        "ge": {("Lt", True): False, ("Ge", True): True, ("Gt", False): False, ("Le", False): True},
        "lt": {("Lt", True): True, ("Ge", True): False, ("Gt", False): True, ("Le", False): False},
        "eq": {("Eq", True): True, ("Eq", False): True, ("Ne", True): False, ("Ne", False): False},
        "ne": {("Eq", True): False, ("Eq", False): False, ("Ne", True): True, ("Ne", False): True},
    }[rel]

    def pred(c, v, leaf):
        if c.kind != "bool" or leaf is None or leaf.kind != "binop":
            return False
        rv = leaf.data
        la = C.trace(body, rv["a"])
        lb = C.trace(body, rv["b"])
        for first in (True, False):
            x, y = (la, lb) if first else (lb, la)
            if a_pred(x) and b_pred(y):
                want = REL.get((rv["op"], first))
                if want is not None and v == want:
                    return True
        return False
    return C.guard_edges(body, prog, pred)


def has_field(leaves, name):
    for l in leaves:
        if l.kind == "field":
            for (o, v, n) in C.pl_fields(l.data):
                if n == name:
                    return True
    return False


EMPTY_STRING_CALLS = ("std::string::String::new", "<std::string::String as std::default::Default>::default")


def is_empty_text(l):
    """a leaf that is the empty string whichever way it is spelled: "" / String::new() / String::default()"""
    if l.kind == "const":
        return (C.op_const(l.data) or "") == '""'
    if l.kind == "call":
        return C.callee_name(l.data) in EMPTY_STRING_CALLS
    return False


def root_local(b, op, depth=10):
    """the local a `&mut v` / `&v` / moved operand refers to (followed through single-definition refs and moves)"""
    p = C.op_place(op)
    seen = set()
    while p is not None and p["l"] not in seen and depth > 0:
        depth -= 1
        seen.add(p["l"])
        ds = [r for r in b.defs().get(p["l"], []) if r[0] in ("assign", "call")]
        if len(ds) != 1 or ds[0][0] != "assign":
            break
        rv = ds[0][3]["rv"]
        if rv["k"] in ("ref", "copyforderef", "rawptr"):
            p = rv["pl"]
        elif rv["k"] == "use" and C.op_place(rv["op"]) is not None:
            p = C.op_place(rv["op"])
        else:
            break
    return p["l"] if p is not None else None


def has_const(leaves, value):
    return any(l.kind == "const" and C.op_const(l.data) == value for l in leaves)


def has_param(leaves, body, name):
    return any(l.kind == "param" and body.local_name(l.data) == name for l in leaves)


def has_call(leaves, names):
    return any(leaf_is_call(l, names) for l in leaves)


# the Config type as the binary crate sees it (re-exported at the library root) and as the library defines it
CLI_CONFIG = ("txtpp::Config", "txtpp::core::execute::config::Config")


def field_values(b, adt, field):
    """[(bb, operand)] — every value that becomes field `field` of a value of struct `adt` in this body: stores `x.field = v` and
    struct literals `Adt { field: v, .. }`"""
    out = []
    for bb, si, st in b.stmts():
        if st["k"] != "assign":
            continue
        adts = adt if isinstance(adt, tuple) else (adt,)
        if st["lhs"]["p"] and st["lhs"]["p"][-1].get("name") == field and st["lhs"]["p"][-1].get("owner") in adts:
            if st["rv"]["k"] == "use":
                out.append((bb, st["rv"]["op"], st))
            else:
                out.append((bb, None, st))
        elif st["rv"]["k"] == "aggregate" and st["rv"]["agg"].get("adt") in adts and field in (st["rv"]["agg"].get("fields") or []):
            out.append((bb, st["rv"]["ops"][st["rv"]["agg"]["fields"].index(field)], st))
    for bb, t in b.calls():
        adts = adt if isinstance(adt, tuple) else (adt,)
        if t["dest"]["p"] and t["dest"]["p"][-1].get("name") == field and t["dest"]["p"][-1].get("owner") in adts:
            out.append((bb, None, t))
        # `x.field.clone_from(&v)` stores a clone of v
        if (C.callee_name(t) or "").endswith("::clone_from") and len(t["args"]) == 2:
            pl = C.op_place(t["args"][0])
            tgt = None
            if pl is not None and not pl["p"]:
                ds = b.defs().get(pl["l"], [])
                if len(ds) == 1 and ds[0][0] == "assign" and ds[0][3]["rv"]["k"] == "ref":
                    tgt = ds[0][3]["rv"]["pl"]
            if tgt and tgt["p"] and tgt["p"][-1].get("name") == field and tgt["p"][-1].get("owner") in adts:
                out.append((bb, t["args"][1], t))
    return out


def resolved_path_sites(b):
    """[(bb, operand)]: the paths this function turns into an AbsPath — the argument of share_base, or (when a borrowing twin of
    share_base was spliced in) the argument of make_abs whose result becomes the `p` of an AbsPath built here"""
    out = [(bb, t["args"][1]) for bb, t in calls_to(b, ROLE["share_base"]) if len(t["args"]) > 1]
    built = [st for bb, st in aggregates(b, ADT["AbsPath"])]
    if built:
        for bb, t in calls_to(b, ROLE["make_abs"]):
            if t["args"]:
                out.append((bb, t["args"][0]))
    return out


def deep_leaves(b, op, depth=4, **kw):
    """trace(), with aggregate leaves (tuples, `Cow::Owned(x)`, struct literals) replaced by the leaves of their operands"""
    out = []
    for l in C.trace(b, op, **kw):
        if l.kind == "aggregate" and depth > 0 and l.data.get("ops"):
            for o in l.data["ops"]:
                out += deep_leaves(b, o, depth - 1, **kw)
        else:
            out.append(l)
    return out


ITER_MAPPERS = ("std::iter::Iterator::map", "std::iter::Iterator::flat_map", "std::iter::Iterator::filter_map", "std::iter::Iterator::inspect")
ITER_JOINERS = ("std::iter::Iterator::chain", "std::iter::Iterator::zip")


def piece_atoms(prog, b, op, depth=0):
    """where the text pieces denoted by `op` (a &str, or an iterator / collection of them) come from, as a set of atoms
    ('call', fn) | ('param', name) | ('const', literal) | ('field', name) | ('other', what).  Sees through item-preserving iterator
    plumbing, slice patterns, and lazy adaptors with a closure of this crate (`it.flat_map(|l| [l, sep])`: the closure's result with its
    item parameter replaced by the pieces of `it` and its captures by what was captured)."""
    import tables as T
    out = set()
    if depth > 6:
        return {("other", "depth")}
    tr = lambda tt: C.is_transparent(tt) or T.item_preserving(C.callee_name(tt))
    for l in C.trace(b, op, through_fields=True, transparent=tr):
        if l.kind == "field" and b.kind == "Closure" and l.data["l"] == 1 and any(e.get("upvar") for e in l.data["p"]):
            out.add(("upvar", next(e["i"] for e in l.data["p"] if e.get("upvar"))))
        elif l.kind == "param" and b.kind == "Closure" and l.data == 1:
            continue                # the closure environment itself (its captures are reported as upvars)
        elif l.kind == "field":
            if all(e["k"] in ("deref", "index", "constindex", "subslice") for e in l.data["p"]):
                continue            # an element / sub-slice of a collection: the collection itself is traced as well
            out.add(("field", (C.pl_fields(l.data) or [(None, None, "?")])[-1][2]))
        elif l.kind == "param":
            out.add(("param", b.local_name(l.data)))
        elif l.kind == "const":
            out.add(("const", C.op_const(l.data)))
        elif l.kind == "aggregate" and l.data["agg"]["k"] in ("array", "tuple"):
            for o in l.data["ops"]:
                out |= piece_atoms(prog, b, o, depth + 1)
        elif l.kind == "call":
            nm = C.callee_name(l.data)
            t = l.data
            if nm in ITER_JOINERS:
                out |= piece_atoms(prog, b, t["args"][0], depth + 1) | piece_atoms(prog, b, t["args"][1], depth + 1)
            elif nm in ITER_MAPPERS and len(t["args"]) == 2 and ((t.get("arg_tys") or [{}, {}])[1].get("closure") in prog.bodies):
                c = prog.bodies[t["arg_tys"][1]["closure"]]
                src = None
                for x in piece_atoms(prog, c, {"l": 0, "p": []}, depth + 1):
                    if x[0] == "param":
                        if src is None:
                            src = piece_atoms(prog, b, t["args"][0], depth + 1)
                        out |= src
                    elif x[0] == "upvar":
                        caps = [st["rv"]["ops"] for bb, si, st in b.stmts() if st["k"] == "assign" and st["rv"]["k"] == "aggregate"
                                and st["rv"]["agg"]["k"] == "closure" and st["rv"]["agg"].get("def") == c.name]
                        if len(caps) == 1 and x[1] is not None and x[1] < len(caps[0]):
                            out |= piece_atoms(prog, b, caps[0][x[1]], depth + 1)
                        else:
                            out.add(("other", "capture"))
                    else:
                        out.add(x)
            else:
                out.add(("call", nm))
        elif l.kind == "upvar":
            fi = next((e["i"] for e in l.data["p"] if e["k"] == "field" and e.get("upvar")), None)
            out.add(("upvar", fi))
        else:
            out.add(("other", l.kind))
    return out


# ------------------------------------------------------------------ FS / process site inventory

PATH_ARG = {  # which argument of the API is the path
    "std::fs::File::create": 0, "std::fs::write": 0, "std::fs::remove_file": 0, "std::fs::read": 0,
    "std::fs::read_to_string": 0, "std::fs::File::open": 0,
}


HANDLE_WRAPPERS = ("std::io::BufWriter::<W>::new", "std::io::BufWriter::<W>::with_capacity", "std::io::LineWriter::<W>::new")


class Site:
    def __init__(self, prog, body, bb, kind, name, obj, cls):
        self.prog = prog
        self.body = body
        self.bb = bb
        self.kind = kind      # call | fnitem
        self.name = name
        self.obj = obj
        self.cls = cls
        self.modes = None
        self.role = None
        self.leaves = None
        self.handle_from = None

    def key(self):
        return "%s|%s" % (self.body.name, self.name)


def path_role(ctx, body, op):
    """OUT / TMP / TMP-CREATE / None for a path operand, with the leaves"""
    pv = prov(ctx)
    leaves = pv.leaves(body, op)
    if not leaves:
        return None, leaves
    kinds = {l.kind for l in leaves}
    if kinds == {"call"}:
        callees = {l.callee() for l in leaves}
        if callees <= {ROLE["remove_txtpp"]}:
            return "OUT", leaves
        if callees <= {ROLE["try_resolve"]}:
            return "TMP", leaves
    return None, leaves


OPEN_BUILDERS = ("std::fs::OpenOptions::write", "std::fs::OpenOptions::create", "std::fs::OpenOptions::truncate",
                 "std::fs::OpenOptions::append", "std::fs::OpenOptions::read", "std::fs::OpenOptions::create_new")


def classify_open(b, t):
    """classify an OpenOptions::open call by its builder chain -> (class, settings)"""
    settings = {}
    cur = t["args"][0]
    for _ in range(12):
        lv = C.trace(b, cur)
        nxt = None
        for l in lv:
            if l.kind == "call":
                nm = C.callee_name(l.data)
                if nm in OPEN_BUILDERS:
                    v = C.op_const(l.data["args"][1]) if len(l.data["args"]) > 1 else None
                    settings.setdefault(nm.rsplit("::", 1)[1], v)
                    nxt = l.data["args"][0]
                elif nm in ("std::fs::OpenOptions::new", "std::fs::File::options"):
                    settings["_root"] = True
        if nxt is None:
            break
        cur = nxt
    if not settings.get("_root"):
        return "OTHER_MUTATING", settings
    writing = settings.get("write") == "true" or "append" in settings or "create" in settings or "create_new" in settings or "truncate" in settings
    if not writing:
        return "READ_OPEN", settings
    if settings.get("write") == "true" and settings.get("truncate") == "true" and "append" not in settings and "create_new" not in settings:
        return "CREATE_TRUNC", settings
    return "OTHER_MUTATING", settings


def fs_inventory(ctx):
    def make():
        sites = []
        mo = M.Modes(ctx.lib)
        st = ctx.lib.__dict__.setdefault("_shared", {})
        st.setdefault("modes", mo)
        for label in ("lib", "bin"):
            prog = ctx.progs.get(label)
            if prog is None:
                continue
            for b in prog.bodies.values():
                for kind, bb, names, obj in C.body_mentions(b):
                    if kind == "closure":
                        continue
                    nm = names[0]
                    cls = T.classify_fs(nm)
                    if cls is None and T.is_process(nm):
                        cls = "PROCESS"
                    if cls is None or cls == "QUERY":
                        continue
                    path_arg = PATH_ARG.get(nm)
                    if nm == "std::fs::OpenOptions::open" and kind == "call":
                        cls, _settings = classify_open(b, obj)
                        path_arg = 1
                    s = Site(prog, b, bb, kind, nm, obj, cls)
                    s.path_arg = path_arg
                    if label == "lib":
                        s.modes = mo.site_modes(b, bb)
                        if kind == "call" and path_arg is not None and cls in ("CREATE_TRUNC", "REMOVE", "READ_BYTES", "READ_UTF8", "READ_OPEN"):
                            s.role, s.leaves = path_role(ctx, b, obj["args"][path_arg])
                    else:
                        s.modes = M.ALL
                    sites.append(s)
        # a write through a handle inherits the role of the site that created the handle in the same body
        # (`File::create(tmp)?.write_all(..)` is a write to the temp target), when that is the only origin of the handle
        by_call = {(id(x.body), x.bb): x for x in sites if x.kind == "call"}
        for s in sites:
            if s.cls != "WRITE_HANDLE" or s.kind != "call" or not s.obj["args"]:
                continue
            lv = C.trace(s.body, s.obj["args"][0], transparent=lambda t: C.is_transparent(t) or C.callee_name(t) in HANDLE_WRAPPERS)
            srcs = [by_call.get((id(s.body), l.bb)) for l in lv if l.kind == "call"]
            if lv and len(srcs) == len(lv) and all(x is not None and x.cls == "CREATE_TRUNC" for x in srcs):
                roles = {x.role for x in srcs}
                if len(roles) == 1:
                    s.role = roles.pop()
                    s.leaves = [l for x in srcs for l in (x.leaves or [])]
                    s.handle_from = srcs
        return sites
    return shared(ctx, "fs_inventory", make)
