"""P-prov: interprocedural backward *leaf provenance* (DESIGN §3.2).

Walk definitions backwards through moves, refs, field reads and an explicit list of transparent
callees only; every other call, constant, operator or API-boundary parameter is a leaf.  A parameter
expands to the actual arguments of all call sites, a field to all writes of that field in the crate,
a closure upvar to the operand captured at the closure's creation.  The rule states the allowed leaves.
"""
import core as C


class PLeaf:
    __slots__ = ("kind", "body", "bb", "data", "via")

    def __init__(self, kind, body, bb, data, via=()):
        self.kind = kind
        self.body = body
        self.bb = bb
        self.data = data
        self.via = via

    def callee(self):
        return C.callee_name(self.data) if self.kind == "call" else None

    def describe(self):
        if self.kind == "call":
            return "call %s in %s" % (C.callee_name(self.data), self.body.name)
        if self.kind == "const":
            return "const %s in %s" % (C.op_const(self.data), self.body.name)
        if self.kind == "param":
            return "param #%s (%s) of %s" % (self.data, self.body.local_name(self.data), self.body.name)
        if self.kind in ("field", "upvar"):
            return "%s %s in %s" % (self.kind, C.pl_str(self.data, self.body), self.body.name)
        if self.kind == "binop":
            return "%s(..) in %s" % (self.data["op"], self.body.name)
        if self.kind == "aggregate":
            return "aggregate %s in %s" % (C.rv_str(self.data)[:60], self.body.name)
        return "%s in %s" % (self.kind, self.body.name)

    def __repr__(self):
        return "PLeaf(%s)" % self.describe()


def field_key(pl):
    """innermost (last) named field of a crate ADT in the projection: (owner, variant, name)"""
    for e in reversed(pl["p"]):
        if e["k"] == "field" and e.get("owner") and not e.get("upvar") and e["owner"] != "(tuple)":
            return (e["owner"], e.get("variant"), e.get("name", e.get("i")))
    return None


class Prov:
    def __init__(self, prog, extra_transparent=(), through_decorators=True, max_nodes=4000, transparent_fn=None):
        self.prog = prog
        self.transparent_fn = transparent_fn
        self.extra = set(extra_transparent)
        self.through_decorators = through_decorators
        self.max_nodes = max_nodes
        self._callers = None
        self._field_writes = None

    def transparent(self, term):
        if self.transparent_fn and self.transparent_fn(term):
            return True
        return C.is_transparent(term, self.extra)

    # ---- indices
    def callers(self):
        if self._callers is None:
            m = {}
            for b in self.prog.bodies.values():
                for bb, t in b.calls():
                    for nm in C.callee_names(t):
                        if nm in self.prog.bodies:
                            m.setdefault(nm, []).append((b, bb, t))
                            break
            self._callers = m
        return self._callers

    def field_writes(self):
        """{(owner, variant, name): [(body, bb, operand)]}"""
        if self._field_writes is None:
            m = {}
            for b in self.prog.bodies.values():
                for bb, si, st in b.stmts():
                    if st["k"] != "assign":
                        continue
                    rv = st["rv"]
                    if rv["k"] == "aggregate" and rv["agg"]["k"] == "adt":
                        a = rv["agg"]
                        adt = self.prog.adts.get(a["adt"])
                        is_enum = adt and adt["kind"] == "Enum"
                        for i, op in enumerate(rv["ops"]):
                            nm = a["fields"][i] if i < len(a["fields"]) else i
                            m.setdefault((a["adt"], a["variant"] if is_enum else None, nm), []).append((b, bb, op))
                    k = field_key(st["lhs"])
                    if k and st["lhs"]["p"] and st["lhs"]["p"][-1]["k"] == "field":
                        if rv["k"] == "use":
                            m.setdefault(k, []).append((b, bb, rv["op"]))
                        else:
                            m.setdefault(k, []).append((b, bb, {"k": "rvalue", "rv": rv, "lhs": st["lhs"]}))
                for bb, t in b.calls():
                    k = field_key(t["dest"])
                    if k and t["dest"]["p"] and t["dest"]["p"][-1]["k"] == "field":
                        m.setdefault(k, []).append((b, bb, {"k": "calldest", "term": t}))
            self._field_writes = m
        return self._field_writes

    def closure_creation(self, cbody):
        """[(parent body, bb, ops)] where the closure aggregate is built"""
        out = []
        for b in self.prog.bodies.values():
            for bb, si, st in b.stmts():
                if st["k"] == "assign" and st["rv"]["k"] == "aggregate" and st["rv"]["agg"]["k"] == "closure" \
                        and st["rv"]["agg"]["def"] == cbody.name:
                    out.append((b, bb, st["rv"]["ops"]))
        return out

    # ---- the query
    def leaves(self, body, op_or_place, inter=True, expand_fields=True):
        out = []
        seen = set()
        work = [(body, op_or_place, ())]
        nodes = 0
        while work:
            b, x, via = work.pop()
            nodes += 1
            if nodes > self.max_nodes:
                out.append(PLeaf("budget", b, None, None))
                break
            for lf in C.trace(b, x, transparent=self.transparent, through_try=True,
                              through_decorators=self.through_decorators):
                via2 = via + lf.via
                if lf.kind == "param" and inter:
                    key = ("param", b.name, lf.data)
                    if key in seen:
                        continue
                    seen.add(key)
                    if b.kind == "Closure":
                        out.append(PLeaf("closure-param", b, None, lf.data, via2))
                        continue
                    cs = self.callers().get(b.name, [])
                    if not cs:
                        out.append(PLeaf("param", b, None, lf.data, via2))
                        continue
                    for (cb, cbb, t) in cs:
                        i = lf.data - 1
                        if i < len(t["args"]):
                            work.append((cb, t["args"][i], via2))
                elif lf.kind == "field" and expand_fields:
                    k = field_key(lf.data)
                    ws = self.field_writes().get(k) if k else None
                    if not ws and k and k[1] is not None:
                        ws = self.field_writes().get((k[0], None, k[2]))
                    if not ws:
                        out.append(PLeaf("field", b, None, lf.data, via2))
                        continue
                    key = ("field",) + tuple(k)
                    if key in seen:
                        continue
                    seen.add(key)
                    for (wb, wbb, op) in ws:
                        if op.get("k") == "rvalue":
                            out.append(PLeaf("rvalue", wb, wbb, op["rv"], via2))
                        elif op.get("k") == "calldest":
                            t = op["term"]
                            if t["args"] and (self.transparent(t) or C.is_try_branch(t)):
                                work.append((wb, t["args"][0], via2))
                            else:
                                out.append(PLeaf("call", wb, wbb, t, via2))
                        else:
                            work.append((wb, op, via2))
                elif lf.kind == "upvar" and inter:
                    # which upvar index?
                    idx = None
                    for e in lf.data["p"]:
                        if e["k"] == "field" and e.get("upvar"):
                            idx = e["i"]
                            break
                    key = ("upvar", b.name, idx)
                    if key in seen:
                        continue
                    seen.add(key)
                    cr = self.closure_creation(b)
                    if not cr or idx is None:
                        out.append(PLeaf("upvar", b, None, lf.data, via2))
                        continue
                    for (pb, pbb, ops) in cr:
                        if idx < len(ops):
                            work.append((pb, ops[idx], via2))
                else:
                    out.append(PLeaf(lf.kind, b, lf.bb, lf.data, via2))
        return out
