"""Command line front end: ./check <ID> quick|thorough | dump <fn> | all"""
import os, sys
import facts as F
import core as C

REPO = os.environ.get("TXTPP_REPO", "/repo")

def load(config="default", root=None):
    fx = F.extract(root or REPO, config)
    return {k: C.Program(v, k) for k, v in fx.items()}

def main(argv):
    if not argv:
        print(__doc__); return 2
    if argv[0] == "dump":
        if "--raw" in argv:
            progs = load()
        else:
            import engine
            progs = engine.load_progs()
        argv = [a for a in argv if a != "--raw"]
        pos = [a for a in argv if not a.startswith("--")]
        which = pos[2] if len(pos) > 2 else "lib"
        for b in progs[which].bodies.values():
            if argv[1] in b.name:
                print(b.dump(live_only="--live" in argv)); print()
        return 0
    import engine
    return engine.main(argv)
