"""Positive-fixture self test (DESIGN §3.6): the primitives must report exactly the `bad_*` twins of
/verif/fixtures/positive on every run; otherwise the checker is broken (exit 2), never "passed"."""
import os

import core as C
import facts as F
import modes as M
import tables as T
import taint as Tn

FIX = os.path.join(F.VERIF, "fixtures", "positive")


def _prog():
    saved = F.FLOORS
    F.FLOORS = {}
    try:
        fx = F.extract(FIX, "default")
    finally:
        F.FLOORS = saved
    return C.Program(fx["lib"], "fixture")


def run():
    """returns list of failures (empty = fine) and the number of fixture expectations evaluated"""
    import rules_err
    import rules_panic
    import common as K
    import engine as E
    prog = _prog()
    fails = []
    n = 0

    def expect(name, got, want):
        nonlocal n
        n += 1
        if got != want:
            fails.append("%s: got %s, want %s" % (name, got, want))

    short = lambda b: b.name.rsplit("::", 1)[-1]
    # K4: drops / erasures of error carriers
    hits = set()
    for b in prog.bodies.values():
        lv = C.live(b)
        for bb, blk in enumerate(b.blocks):
            if blk["cleanup"] or bb not in lv:
                continue
            t = blk["term"]
            if t["k"] == "drop" and rules_err.is_carrier(t["ty"]):
                hits.add(short(b))
            if t["k"] == "call" and T.ERR_ERASING_RE.match(C.callee_name(t) or "") and t["args"] and \
                    not t["arg_tys"][0]["ty"].startswith("&") and rules_err.is_carrier(t["arg_tys"][0]["ty"]):
                hits.add(short(b))
    expect("K4 error discipline", sorted(h for h in hits if h.endswith(("_drop", "_erase", "_if_let"))), ["bad_drop", "bad_erase", "bad_if_let"])
    # K2/K6: guards and modes
    mo = M.Modes(prog, mode_adts=("fixture::Mode",), all_modes=frozenset(["Build", "Clean"]))
    res = {}
    for b in prog.bodies.values():
        for bb, t in b.calls():
            if C.callee_name(t) == "std::fs::remove_file" and "remove" in b.name:
                res[short(b)] = sorted(mo.site_modes(b, bb))
    expect("K2/K6 guard + modes", res, {"bad_unguarded_remove": ["Build", "Clean"], "good_guarded_remove": ["Clean"],
                                        "good_guarded_remove_eq": ["Clean"]})
    # K1: open classification
    res = {}
    for b in prog.bodies.values():
        for bb, t in b.calls():
            if C.callee_name(t) == "std::fs::OpenOptions::open":
                res[short(b)] = K.classify_open(b, t)[0]
    expect("K1 open classification", res, {"bad_open_no_truncate": "OTHER_MUTATING", "good_open_truncate": "CREATE_TRUNC"})
    # K5: taint
    tn = Tn.Taint(prog, sanitizers=["fixture::sanitize"])
    src = set()
    for b in prog.bodies.values():
        for bb, t in b.calls():
            if C.callee_name(t) == "std::fs::read_to_string" and "taint" in b.name:
                src.add(tn.node_of_place(b, t["dest"]))
    prev = tn.forward(src)
    res = {}
    for b in prog.bodies.values():
        for bb, t in b.calls():
            if C.callee_name(t) == "fixture::sink":
                res[short(b)] = tn.node_of_op(b, t["args"][0]) in prev
    expect("K5 taint", res, {"bad_taint": True, "good_taint": False})
    # K8: panic dischargers
    ctx = E.Ctx("SELFTEST", "quick", {"lib": prog})
    res = {}
    for s in rules_panic.inventory(ctx):
        nm = short(s.b)
        if nm.split("_", 1)[-1] in ("unwrap", "slice", "sub"):
            res[nm] = res.get(nm, True) and bool(rules_panic.discharge(ctx, s))
    expect("K8 panic inventory", res, {"bad_unwrap": False, "good_unwrap": True, "bad_slice": False, "good_slice": True,
                                       "bad_sub": False, "good_sub": True})
    # determinism
    import rules_dir
    res = {}
    for b in prog.bodies.values():
        for bb, t in b.calls():
            if T.HASH_ITER_RE.match(C.callee_name(t) or ""):
                res[short(b)] = rules_dir._flows_into_sort(b, t["dest"]["l"])
    expect("hash iteration sorted", res, {"bad_hash_order": False, "good_hash_order": True})
    # zero-count rule: reverse search
    res = sorted(short(b) for b in prog.bodies.values() for bb, t in b.calls() if rules_dir.REVERSE_RE.search(C.callee_name(t) or ""))
    expect("reverse search", res, ["bad_reverse"])
    return fails, n
