"""C17: the run contract — working directory, command shape, recursion guard."""
import core as C
import flow as Fl
from common import *  # noqa
from engine import prop, rule

prop("C17", "run commands execute in the source's directory with the documented contract",
     decided=["R17.1 the operand of Command::current_dir derives from the absolute path of the source's parent directory (AbsPath field p through "
              "as_path/display), never through AbsPath's base-relative Display/ToString rendering; base-relative renderings reach no path-taking API",
              "R17.2 command shape: Command::new(exe field) .args(args field) .arg(command parameter) exactly once, env(TXTPP_FILE, source), "
              "command = directive args joined by one space, Ok value = lossy stdout; the default shell constant is `sh -c`",
              "R17.3 a non-zero exit status is an error (= C04 R04.3)",
              "R17.4 main calls txtpp() only on the TXTPP_FILE-unset-or-empty edges; the other edge returns ExitCode::FAILURE"],
     not_decided=["what `sh` does with the argument", "behaviour at each nesting depth as a runtime fact (R17.1 is depth-independent by construction)"])

TO_STRING = "<T as std::string::ToString>::to_string"
CMD = "std::process::Command::"


def to_string_of(term):
    """Self type of a blanket ToString::to_string call"""
    if C.callee_name(term) != TO_STRING:
        return None
    ta = term["callee"].get("targs") or []
    return ta[0]["ty"] if ta else "?"


def is_base_relative(term):
    nm = C.callee_name(term)
    if to_string_of(term) in (ADT["AbsPath"], "&" + ADT["AbsPath"]):
        return True
    return nm in (ROLE["path_string_from_base"], ROLE["trim_txtpp"], ROLE["abspath_display"])


def abs_render_transparent(term):
    """renderings that keep the absolute path: Path::display() + to_string(), normalize_path"""
    nm = C.callee_name(term)
    if nm in (ROLE["normalize_path"], "std::path::Path::display", "std::path::Path::to_str", "std::path::Path::to_string_lossy",
              "std::path::PathBuf::into_os_string", "std::path::Path::as_os_str"):
        return True
    ts = to_string_of(term)
    return ts is not None and ts.startswith("std::path::Display")


@rule("C17", "R17.1", floor=2)
def r17_1(ctx):
    lib = ctx.lib
    pv = Fl.Prov(lib, extra_transparent=ABSPATH_VIEWS, transparent_fn=abs_render_transparent)
    sinks = C.all_call_sites(lib, lambda ns, t: CMD + "current_dir" in ns)
    if not sinks:
        ctx.anchor_missing("Command::current_dir call (the working directory of run commands is not set)")
    nw = body(ctx, "ioctx_new")
    for (b, bb, t) in sinks:
        leaves = pv.leaves(b, t["args"][1])
        site = ctx.site(b, bb)
        bad = [l for l in leaves if l.kind == "call" and is_base_relative(l.data)]
        if bad:
            ctx.violation([b.name, "base-relative-cwd"], "Command::current_dir receives AbsPath's base-relative rendering (%s): with a base directory "
                          "different from the process cwd the command runs in a wrong or non-existent directory" % bad[0].describe(), site=site)
            continue
        good = bool(leaves)
        for l in leaves:
            if not (l.kind == "call" and l.callee() == ROLE["abs_parent"] and nw is not None and l.body is nw
                    and has_param(C.trace(nw, l.data["args"][0]), nw, "input_file")):
                good = False
        if good:
            ctx.ok("current_dir <- absolute path of input_file.parent()", site=site, detail=[l.describe() for l in leaves])
        else:
            ctx.violation([b.name, "cwd-origin"], "the working directory of run commands does not derive from the source file's parent directory: %s" % (
                [l.describe() for l in leaves][:5]), site=site)
    # general form: a base-relative rendering never reaches a path-taking API
    pv2 = Fl.Prov(lib, extra_transparent=ABSPATH_VIEWS, transparent_fn=lambda t: C.callee_name(t) == ROLE["normalize_path"])
    n = 0
    for s in fs_inventory(ctx):
        if s.prog.label != "lib" or s.kind != "call" or getattr(s, "path_arg", None) is None:
            continue
        n += 1
        leaves = pv2.leaves(s.body, s.obj["args"][s.path_arg])
        bad = [l for l in leaves if l.kind == "call" and is_base_relative(l.data)]
        if bad:
            ctx.violation([s.key(), "base-relative-path"], "%s receives a base-relative rendering of an AbsPath (%s)" % (s.name, bad[0].describe()),
                          site=ctx.site(s.body, s.bb))
    ctx.ok("no base-relative AbsPath rendering reaches a path-taking FS API (%d sites)" % n)


@rule("C17", "R17.2", floor=6)
def r17_2(ctx):
    lib = ctx.lib
    homes = [b for b in lib.bodies.values() if calls_to(b, CMD + "new")]
    if len(homes) != 1:
        ctx.violation(["command-builders", str(len(homes))], "%d functions build a process Command (expected exactly one)" % len(homes))
        return
    b = homes[0]
    site0 = ctx.site(b, 0)

    def one(name):
        cs = calls_to(b, CMD + name)
        if len(cs) != 1:
            ctx.violation([b.name, name, "count"], "Command::%s is called %d times (expected once)" % (name, len(cs)), site=site0)
            return None
        return cs[0]
    new, args, arg, env, outp = one("new"), one("args"), one("arg"), one("env"), one("output")
    if new:
        if has_field(C.trace(b, new[1]["args"][0], through_fields=True), "exe"):
            ctx.ok("Command::new(self.exe)", site=ctx.site(b, new[0]))
        else:
            ctx.violation([b.name, "exe"], "the executable is not Shell.exe", site=ctx.site(b, new[0]))
    if args:
        if has_field(C.trace(b, args[1]["args"][1], through_fields=True), "args"):
            ctx.ok("Command::args(self.args)", site=ctx.site(b, args[0]))
        else:
            ctx.violation([b.name, "args"], "the shell arguments are not Shell.args", site=ctx.site(b, args[0]))
    if arg:
        lv = C.trace(b, arg[1]["args"][1])
        if lv and all(l.kind == "param" and b.local_name(l.data) == "command" for l in lv):
            ctx.ok("Command::arg(command) — the whole command is one argument", site=ctx.site(b, arg[0]))
        else:
            ctx.violation([b.name, "arg"], "the command is not passed verbatim as the single extra argument: %s" % lv, site=ctx.site(b, arg[0]))
    if env:
        k = C.trace(b, env[1]["args"][1])
        v = C.trace(b, env[1]["args"][2])
        if has_const(k, '"TXTPP_FILE"') and v and all(l.kind == "param" and b.local_name(l.data) == "file" for l in v):
            ctx.ok("env(TXTPP_FILE, file)", site=ctx.site(b, env[0]))
        else:
            ctx.violation([b.name, "env"], "TXTPP_FILE is not set from the `file` parameter", site=ctx.site(b, env[0]))
    for bb in ok_sites(b):
        for st in b.blocks[bb]["stmts"]:
            if st["k"] == "assign" and st["lhs"]["l"] == 0:
                lv = C.trace(b, st["rv"]["ops"][0], transparent=lambda t: C.is_transparent(t) or C.callee_name(t) in (
                    TO_STRING, "std::string::String::from_utf8_lossy", "std::borrow::Cow::<'_, B>::into_owned"), through_fields=True)
                if has_field(lv, "stdout") and not has_field(lv, "stderr"):
                    ctx.ok("Ok value = stdout of the command", site=ctx.site(b, bb))
                else:
                    ctx.violation([b.name, "stdout"], "the directive output is not the command's stdout", site=ctx.site(b, bb))
    # call sites: command = join(args, " "), file = IOCtx.input_path, work_dir = IOCtx.work_dir
    cs = C.all_call_sites(lib, lambda ns, t: b.name in ns)
    if not cs:
        ctx.anchor_missing("call of the command runner")
    for (cb, cbb, t) in cs:
        pc = b.param_index_by_name("command")
        pf = b.param_index_by_name("file")
        lv = C.trace(cb, t["args"][pc - 1])
        ok = False
        for l in lv:
            if leaf_is_call(l, "std::slice::<impl [T]>::join") and has_const(C.trace(cb, l.data["args"][1]), '" "') \
                    and has_field(C.trace(cb, l.data["args"][0], through_fields=True), "args"):
                ok = True
        if ok and len(lv) == 1:
            ctx.ok("command = directive args joined by a single space", site=ctx.site(cb, cbb))
        else:
            ctx.violation([cb.name, "join"], "the command is not the directive's argument lines joined by single spaces", site=ctx.site(cb, cbb))
        if has_field(C.trace(cb, t["args"][pf - 1], through_fields=True), "input_path"):
            ctx.ok("TXTPP_FILE designates the source being processed (IOCtx.input_path)", site=ctx.site(cb, cbb))
        else:
            ctx.violation([cb.name, "file"], "TXTPP_FILE is not the path of the source being processed", site=ctx.site(cb, cbb))
    # default shell
    d = body(ctx, "shell_default")
    if d:
        cs2 = calls_to(d, ROLE["shell_new"])
        if len(cs2) == 1 and has_const(C.trace(d, cs2[0][1]["args"][0]), '"sh -c"'):
            ctx.ok("default shell is `sh -c`", site=ctx.site(d, cs2[0][0]))
        else:
            ctx.violation(["default-shell"], "the unix default shell is no longer the constant `sh -c`", site=ctx.site(d, 0))
    sn = body(ctx, "shell_new")
    if sn and not calls_to(sn, ROLE["shell_default"]):
        ctx.violation(["default-not-used"], "Shell::new no longer falls back to Shell::default for an empty command", site=ctx.site(sn, 0))


@rule("C17", "R17.3", floor=1)
def r17_3(ctx):
    import rules_err
    rules_err.r04_3(ctx)


@rule("C17", "R17.4", floor=2)
def r17_4(ctx):
    binp = ctx.bin
    if not binp:
        ctx.anchor_missing("binary crate facts")
        return
    m = ctx.role(binp, "txtpp::main")
    if not m:
        return
    is_var = lambda c: any(l.kind == "call" and C.callee_name(l.data) == "std::env::var" and
                           any(x.kind == "const" and x.data.get("named", "").endswith("TXTPP_FILE") or C.op_const(x.data) == '"TXTPP_FILE"'
                               for x in C.trace(m, l.data["args"][0]) if x.kind == "const") for l in c.src)
    err_e = enum_edges(m, binp, "std::result::Result", lambda vs: vs == {"Err"}, src_pred=is_var)
    ok_e = enum_edges(m, binp, "std::result::Result", lambda vs: vs == {"Ok"}, src_pred=is_var)
    empty = bool_call_edges(m, binp, "std::string::String::is_empty", True)
    nonempty = bool_call_edges(m, binp, "std::string::String::is_empty", False)
    calls = calls_to(m, "txtpp::txtpp")
    if not calls:
        ctx.anchor_missing("call of txtpp::txtpp in main")
    if not err_e:
        ctx.violation(["no-guard"], "main no longer tests TXTPP_FILE before running (commands could recurse into txtpp)", site=ctx.site(m, 0))
        return
    for bb, t in calls:
        if C.guarded(m, bb, err_e | empty):
            ctx.ok("txtpp() runs only when TXTPP_FILE is unset or empty", site=ctx.site(m, bb))
        else:
            ctx.violation(["unguarded-run"], "txtpp() is reachable although TXTPP_FILE is set and non-empty", site=ctx.site(m, bb),
                          witness=C.witness(m, bb, err_e | empty))
    if nonempty:
        reg = C.region(m, nonempty)
        fails = [bb for bb, si, st in m.stmts() if st["k"] == "assign" and st["lhs"]["l"] == 0 and st["rv"]["k"] == "use"
                 and st["rv"]["op"].get("named", "").endswith("ExitCode::FAILURE")]
        if set(fails) & reg and not any(bb in reg for bb, t in calls):
            ctx.ok("TXTPP_FILE set -> ExitCode::FAILURE without running", site=ctx.site(m, min(set(fails) & reg)))
        else:
            ctx.violation(["set-not-failure"], "with TXTPP_FILE set, main does not return FAILURE right away", site=ctx.site(m, 0))
    else:
        ctx.violation(["no-empty-test"], "main no longer distinguishes an empty TXTPP_FILE", site=ctx.site(m, 0))


@rule("C17", "R17.5", floor=1)
def r17_5(ctx):
    """the shell is found through PATH: the literal name is used as a path only when the PATH lookup (which) failed — never before it,
    where a file of that name in the process's working directory would be run instead of the shell"""
    lib = ctx.lib
    rs = body(ctx, "resolve_shell")
    if not rs:
        return
    wh = calls_to(rs, "which::which")
    cz = calls_to(rs, ("std::path::Path::canonicalize", "std::fs::canonicalize"))
    if not wh or not cz:
        ctx.anchor_missing("which() / canonicalize() in resolve_shell")
        return
    err_e = enum_edges(rs, lib, "std::result::Result", lambda vs: vs == {"Err"}, src_pred=lambda c: has_call(c.src, "which::which"))
    p_exe = rs.param_index_by_name("exe")
    bad = None
    # walk back from the canonicalised operand; wherever several definitions merge, each one that brings in the literal name (and not
    # the which() result) must sit behind the Err edge of which()
    is_which = lambda x: x.kind == "call" and C.callee_name(x.data) == "which::which"
    is_name = lambda x: x.kind == "param" and x.data == p_exe

    def def_leaves(rec):
        if rec[0] == "assign":
            rv = rec[3]["rv"]
            if rv["k"] in ("use", "cast"):
                return C.trace(rs, rv["op"])
            if rv["k"] in ("ref", "copyforderef"):
                return C.trace(rs, rv["pl"])
            return []
        if rec[0] == "call":
            t = rec[2]
            if is_which(C.Leaf("call", rec[1], t)):
                return [C.Leaf("call", rec[1], t)]
            return C.trace(rs, t["args"][0]) if t["args"] and C.is_transparent(t) else []
        return []

    seen = set()
    work = [C.op_place(cz[0][1]["args"][0])["l"]]
    while work:
        l = work.pop()
        if l in seen:
            continue
        seen.add(l)
        recs = [r for r in rs.defs().get(l, []) if r[0] in ("assign", "call")]
        for rec in recs:
            lv = def_leaves(rec)
            if any(is_name(x) for x in lv) and not any(is_which(x) for x in lv):
                if not (err_e and C.guarded(rs, rec[1], err_e)):
                    bad = rec[1]
            elif any(is_name(x) for x in lv):
                # both origins still mixed: look one definition further back
                if rec[0] == "assign":
                    rv = rec[3]["rv"]
                    p = C.op_place(rv["op"]) if rv["k"] in ("use", "cast") else rv.get("pl")
                else:
                    p = C.op_place(rec[2]["args"][0]) if rec[2]["args"] else None
                if p is not None:
                    work.append(p["l"])
    if bad is not None:
        ctx.violation([rs.name, "name-before-path-lookup"], "the shell name is used as a file path without the PATH lookup having failed first "
                      "(a same-named file in the working directory would be executed)", site=ctx.site(rs, bad))
    else:
        ctx.ok("literal shell name only on the Err edge of which()", site=ctx.site(rs, wh[0][0]))


@rule("C17", "R17.6", floor=2)
def r17_6(ctx):
    """the shell a run command is handed to is the one configured for the command in effect: `txtpp verify -s "<shell>"` configures the
    shell of the verify run (CLI plumbing: Config.shell_cmd is the `--shell` that belongs to the subcommand's own arguments)"""
    from rules_io import _cli_flags_of_subcommand
    _cli_flags_of_subcommand(ctx, "shell_cmd", "shell")
