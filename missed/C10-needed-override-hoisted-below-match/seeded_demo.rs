//! Demonstration for property C10 (txtpp only ever writes its own outputs and temp targets;
//! verify leaves outputs untouched, clean creates nothing).
//!
//! The `-N/--needed` switch is a top-level option of the CLI, so it can be written in front of a
//! subcommand (`txtpp -N verify`, `txtpp -N clean`). It must not change what `verify` and `clean`
//! do to the file system.

use std::fs;
use std::path::{Path, PathBuf};
use std::process::Command;
use std::time::{Duration, SystemTime};
use txtpp::{Config, Mode, Txtpp, Verbosity};

const SOURCE: &str = "hello\n-TXTPP#temp gen.tmp\n-generated\nworld\n";
const FRESH: &str = "hello\nworld\n";
const STALE: &str = "stale output\n";

fn fresh_project(name: &str) -> PathBuf {
    let dir = std::env::temp_dir().join(format!("txtpp-seeded-demo-{}-{name}", std::process::id()));
    if dir.exists() {
        fs::remove_dir_all(&dir).unwrap();
    }
    fs::create_dir_all(&dir).unwrap();
    fs::write(dir.join("a.txt.txtpp"), SOURCE).unwrap();
    // a decoy next to the source
    fs::write(dir.join("a.txt.bak"), "decoy\n").unwrap();
    dir
}

fn run_cli(dir: &Path, args: &[&str]) -> bool {
    Command::new(env!("CARGO_BIN_EXE_txtpp"))
        .args(args)
        .current_dir(dir)
        .env_remove("TXTPP_FILE")
        .status()
        .unwrap()
        .success()
}

fn run_lib(dir: &Path, mode: Mode) -> bool {
    let config = Config {
        base_dir: dir.to_path_buf(),
        mode,
        verbosity: Verbosity::Quiet,
        ..Default::default()
    };
    Txtpp::run(config).is_ok()
}

fn mtime(p: &Path) -> SystemTime {
    fs::metadata(p).unwrap().modified().unwrap()
}

fn listing(dir: &Path) -> Vec<String> {
    let mut v: Vec<String> = fs::read_dir(dir)
        .unwrap()
        .map(|e| e.unwrap().file_name().to_string_lossy().to_string())
        .collect();
    v.sort();
    v
}

#[test]
fn verify_leaves_stale_output_untouched() {
    let dir = fresh_project("verify");
    let out = dir.join("a.txt");
    fs::write(&out, STALE).unwrap();
    let before = mtime(&out);
    std::thread::sleep(Duration::from_millis(50));

    // library, plain verify: fails, output untouched
    assert!(!run_lib(&dir, Mode::Verify));
    assert_eq!(fs::read_to_string(&out).unwrap(), STALE);

    // CLI, plain verify: same
    assert!(!run_cli(&dir, &["verify", "-q"]));
    assert_eq!(fs::read_to_string(&out).unwrap(), STALE);

    // CLI, verify with the top-level --needed switch in front: still a verify
    let ok = run_cli(&dir, &["-N", "verify", "-q"]);
    assert_eq!(
        fs::read_to_string(&out).unwrap(),
        STALE,
        "`txtpp -N verify` rewrote the output it was asked to verify"
    );
    assert_eq!(mtime(&out), before, "`txtpp -N verify` touched the output");
    assert!(!ok, "`txtpp -N verify` reported a stale output as verified");
    assert_eq!(fs::read_to_string(dir.join("a.txt.bak")).unwrap(), "decoy\n");

    fs::remove_dir_all(&dir).unwrap();
}

#[test]
fn clean_creates_nothing() {
    let dir = fresh_project("clean");
    // build first so there is something to clean
    assert!(run_lib(&dir, Mode::Build));
    assert_eq!(fs::read_to_string(dir.join("a.txt")).unwrap(), FRESH);
    assert!(dir.join("gen.tmp").exists());

    assert!(run_cli(&dir, &["--needed", "clean", "-q"]));
    assert_eq!(
        listing(&dir),
        vec!["a.txt.bak".to_string(), "a.txt.txtpp".to_string()],
        "`txtpp --needed clean` left or created files"
    );

    // and again on the already clean project: nothing may appear
    assert!(run_cli(&dir, &["--needed", "clean", "-q"]));
    assert_eq!(
        listing(&dir),
        vec!["a.txt.bak".to_string(), "a.txt.txtpp".to_string()],
        "`txtpp --needed clean` created files in a clean project"
    );
    assert_eq!(fs::read_to_string(dir.join("a.txt.txtpp")).unwrap(), SOURCE);

    fs::remove_dir_all(&dir).unwrap();
}
