//! Demonstration for seed C04q: a failure (verify mismatch, output that cannot be
//! flushed, output that was never refreshed) must never be reported as success.

use std::fs;
use std::path::{Path, PathBuf};
use txtpp::{Config, Mode, Txtpp, Verbosity};

fn fresh_dir(name: &str) -> PathBuf {
    let dir = std::env::temp_dir().join(format!("txtpp-seed-c04q-{}-{}", name, std::process::id()));
    if dir.exists() {
        fs::remove_dir_all(&dir).unwrap();
    }
    fs::create_dir_all(&dir).unwrap();
    dir
}

fn config(dir: &Path, mode: Mode) -> Config {
    Config {
        base_dir: dir.to_path_buf(),
        shell_cmd: "".to_string(),
        inputs: vec![".".to_string()],
        recursive: false,
        num_threads: 2,
        mode,
        verbosity: Verbosity::Quiet,
        trailing_newline: true,
    }
}

/// A source whose fresh output is empty: it only exports a temp file.
const ONLY_TEMP: &str = "-TXTPP#temp data.tmp\n-hello\n";

#[test]
fn verify_rejects_tampered_output_when_fresh_output_is_empty() {
    let dir = fresh_dir("verify");
    fs::write(dir.join("gen.txtpp"), ONLY_TEMP).unwrap();

    assert!(Txtpp::run(config(&dir, Mode::Build)).is_ok());
    assert_eq!(fs::read_to_string(dir.join("gen")).unwrap(), "");
    assert!(Txtpp::run(config(&dir, Mode::Verify)).is_ok());

    // tamper with the generated file: verify must now fail
    fs::write(dir.join("gen"), "stale junk\n").unwrap();
    assert!(
        Txtpp::run(config(&dir, Mode::Verify)).is_err(),
        "verify reported success although `gen` differs from the fresh (empty) output"
    );
    fs::remove_dir_all(&dir).unwrap();
}

#[test]
fn needed_build_success_means_output_is_fresh() {
    let dir = fresh_dir("needed");
    fs::write(dir.join("gen.txtpp"), ONLY_TEMP).unwrap();
    fs::write(dir.join("gen"), "stale junk\n").unwrap();

    let result = Txtpp::run(config(&dir, Mode::InMemoryBuild));
    let output = fs::read_to_string(dir.join("gen")).unwrap();
    assert!(
        result.is_err() || output.is_empty(),
        "needed-build reported success but left stale content in `gen`: {output:?}"
    );
    fs::remove_dir_all(&dir).unwrap();
}

#[cfg(target_os = "linux")]
#[test]
fn build_fails_when_output_cannot_be_flushed() {
    if !Path::new("/dev/full").exists() {
        return;
    }
    let dir = fresh_dir("full");
    fs::write(dir.join("data.txt"), "payload\n").unwrap();
    // an include followed by a directive that produces no output, at the end of the file
    fs::write(
        dir.join("out.txt.txtpp"),
        "-TXTPP#include data.txt\n-TXTPP#temp note.tmp\n-x\n",
    )
    .unwrap();
    // every write to the output hits "No space left on device"
    std::os::unix::fs::symlink("/dev/full", dir.join("out.txt")).unwrap();

    let mut cfg = config(&dir, Mode::Build);
    cfg.inputs = vec!["out.txt.txtpp".to_string()];
    assert!(
        Txtpp::run(cfg).is_err(),
        "build reported success although the output could not be written (disk full)"
    );
    fs::remove_dir_all(&dir).unwrap();
}
