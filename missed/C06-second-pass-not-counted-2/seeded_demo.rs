//! Demonstration for property C06 (verify passes exactly when outputs are up to date).
//!
//! `report.txtpp` depends on `data.txtpp` (through an `after` directive) and both are
//! given as inputs, the dependency first. With a single worker the dependency is
//! finished before the first pass over `report.txtpp` comes back, so `report.txtpp`
//! is sent straight to its second pass. Its output is tampered in the part that only
//! the second pass looks at; verify has to notice.
use std::fs;
use std::path::{Path, PathBuf};
use txtpp::{Config, Mode, Txtpp, Verbosity};

fn fresh_dir(name: &str) -> PathBuf {
    let dir = std::env::temp_dir().join(format!("txtpp-seeded-{}-{}", name, std::process::id()));
    if dir.exists() {
        fs::remove_dir_all(&dir).unwrap();
    }
    fs::create_dir_all(&dir).unwrap();
    dir
}

fn config(base: &Path, mode: Mode) -> Config {
    Config {
        base_dir: base.to_path_buf(),
        shell_cmd: String::new(),
        // the dependency is listed (and therefore finished) first
        inputs: vec!["data.txtpp".to_string(), "report.txtpp".to_string()],
        recursive: false,
        num_threads: 1,
        mode,
        verbosity: Verbosity::Quiet,
        trailing_newline: true,
    }
}

#[test]
fn verify_notices_stale_tail_of_a_file_whose_dependency_is_already_done() {
    let dir = fresh_dir("c06q");
    fs::write(dir.join("data.txtpp"), "some data\n").unwrap();
    fs::write(
        dir.join("report.txtpp"),
        "report header\nTXTPP#after data\nreport footer\n",
    )
    .unwrap();

    // build, and make sure a verify right after the build is happy
    Txtpp::run(config(&dir, Mode::Build)).expect("build should succeed");
    assert_eq!(fs::read_to_string(dir.join("data")).unwrap(), "some data\n");
    let built = fs::read(dir.join("report")).unwrap();
    assert_eq!(built, b"report header\nreport footer\n");
    Txtpp::run(config(&dir, Mode::Verify)).expect("verify right after build should succeed");

    // every single-point tampering behind the `after` directive has to be noticed
    let mut flipped_last = built.clone();
    *flipped_last.last_mut().unwrap() = b'!';
    let mut flipped_mid = built.clone();
    flipped_mid[built.len() - 4] ^= 0x20;
    let mut appended = built.clone();
    appended.push(b'x');
    let truncated = built[..built.len() - 1].to_vec();

    for (what, tampered) in [
        ("last byte flipped", flipped_last),
        ("byte in the footer flipped", flipped_mid),
        ("byte appended", appended),
        ("last byte removed", truncated),
    ] {
        fs::write(dir.join("report"), &tampered).unwrap();
        let result = Txtpp::run(config(&dir, Mode::Verify));
        assert!(
            result.is_err(),
            "verify passed although `report` is stale ({what})"
        );
        // and verify must not have repaired or touched the file
        assert_eq!(fs::read(dir.join("report")).unwrap(), tampered);
    }

    // restoring the built content makes verify pass again
    fs::write(dir.join("report"), &built).unwrap();
    Txtpp::run(config(&dir, Mode::Verify)).expect("verify of restored output should succeed");

    let _ = fs::remove_dir_all(&dir);
}
