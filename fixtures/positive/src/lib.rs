//! Positive fixture for the rule primitives (DESIGN §3.6): every `bad_*` item contains exactly one deliberate instance
//! of a violation kind, its `good_*` twin differs only in the offending construct.  rules/selftest.py requires the
//! primitives to report exactly the bad twins on every run, so that a rule matching nothing cannot pass vacuously.
#![allow(dead_code, unused)]
use std::collections::HashMap;
use std::fs;
use std::io::Write;
use std::path::Path;

#[derive(PartialEq, Clone)]
pub enum Mode {
    Build,
    Clean,
}

// ---- K4 error discipline
pub fn bad_drop(mut f: fs::File) {
    let _ = f.flush();
}
pub fn good_drop(mut f: fs::File) -> std::io::Result<()> {
    f.flush()
}
pub fn bad_erase(p: &Path) {
    fs::remove_file(p).ok();
}
pub fn good_erase(p: &Path) -> std::io::Result<()> {
    fs::remove_file(p)
}
pub fn bad_if_let(p: &Path) -> usize {
    if let Ok(s) = fs::read_to_string(p) {
        s.len()
    } else {
        0
    }
}

// ---- K2 guard (P-cut) and K6 modes
pub fn bad_unguarded_remove(p: &Path, m: &Mode) {
    if *m == Mode::Clean {
        println!("cleaning");
    }
    let _r = fs::remove_file(p);
}
pub fn good_guarded_remove(p: &Path, m: &Mode) {
    if let Mode::Clean = m {
        let _r = fs::remove_file(p);
    }
}
pub fn good_guarded_remove_eq(p: &Path, m: &Mode) {
    if matches!(m, Mode::Clean) && p.exists() {
        let _r = fs::remove_file(p);
    }
}

// ---- K1 surface: open classification
pub fn bad_open_no_truncate(p: &Path) -> std::io::Result<fs::File> {
    fs::OpenOptions::new().write(true).create(true).open(p)
}
pub fn good_open_truncate(p: &Path) -> std::io::Result<fs::File> {
    fs::OpenOptions::new().write(true).create(true).truncate(true).open(p)
}

// ---- K5 taint
fn sanitize(s: &str) -> String {
    s.lines().collect::<Vec<_>>().join("\n")
}
fn sink(_s: &str) {}
pub fn bad_taint(p: &Path) {
    let raw = fs::read_to_string(p).unwrap_or_default();
    sink(&raw);
}
pub fn good_taint(p: &Path) {
    let raw = fs::read_to_string(p).unwrap_or_default();
    let clean = sanitize(&raw);
    sink(&clean);
}

// ---- K8 panic inventory
pub fn bad_unwrap(x: Option<u32>) -> u32 {
    x.unwrap()
}
pub fn good_unwrap(x: Option<u32>) -> u32 {
    if x.is_some() {
        x.unwrap()
    } else {
        0
    }
}
pub fn bad_slice(s: &str, p: &str) -> String {
    s[p.len()..].to_string()
}
pub fn good_slice(s: &str, p: &str) -> String {
    if s.starts_with(p) {
        s[p.len()..].to_string()
    } else {
        String::new()
    }
}
pub fn bad_sub(a: usize, b: usize) -> usize {
    a - b
}
pub fn good_sub(a: usize, b: usize) -> usize {
    if a < b {
        return 0;
    }
    a - b
}

// ---- determinism
pub fn bad_hash_order(m: &HashMap<String, String>) -> String {
    let mut out = String::new();
    for (k, v) in m.iter() {
        out.push_str(k);
        out.push_str(v);
    }
    out
}
pub fn good_hash_order(m: &HashMap<String, String>) -> String {
    let mut items = m.iter().collect::<Vec<_>>();
    items.sort_by(|a, b| a.0.cmp(b.0));
    let mut out = String::new();
    for (k, v) in items {
        out.push_str(k);
        out.push_str(v);
    }
    out
}

// ---- zero-count rules: reverse search
pub fn bad_reverse(s: &str) -> Option<usize> {
    s.rfind("TXTPP#")
}
pub fn good_forward(s: &str) -> Option<usize> {
    s.find("TXTPP#")
}
