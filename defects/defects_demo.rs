// Demonstration of defects F1-F3 (DESIGN §6). Not part of any check: run by hand in a scratch
// worktree as tests/defects_demo.rs (cargo test --test defects_demo). Fails on the pinned tree
// (59eb32f), passes after the three fix: commits.
use std::fs;
use std::path::PathBuf;
use txtpp::{Config, Mode, Txtpp, Verbosity};

fn scratch(name: &str) -> PathBuf {
    let d = std::env::temp_dir().join(format!("txtpp-defect-{}-{}", name, std::process::id()));
    let _ = fs::remove_dir_all(&d);
    fs::create_dir_all(&d).unwrap();
    d
}

fn cfg(base: &PathBuf, mode: Mode) -> Config {
    Config {
        base_dir: base.clone(),
        shell_cmd: "".to_string(),
        inputs: vec![".".to_string()],
        recursive: true,
        num_threads: 2,
        mode,
        verbosity: Verbosity::Quiet,
        trailing_newline: true,
    }
}

#[test]
fn f1_run_in_subdir_with_base_not_cwd() {
    let d = scratch("f1");
    fs::create_dir_all(d.join("sub")).unwrap();
    fs::write(d.join("sub/a.txt.txtpp"), "-TXTPP#run pwd\n").unwrap();
    Txtpp::run(cfg(&d, Mode::Build)).expect("build must succeed");
    let out = fs::read_to_string(d.join("sub/a.txt")).unwrap();
    assert_eq!(out.trim(), d.join("sub").canonicalize().unwrap().display().to_string());
}

#[test]
fn f2_non_utf8_leftovers() {
    let d = scratch("f2");
    fs::write(d.join("a.txt.txtpp"), "-TXTPP#temp t.out\n-é\nx\n").unwrap();
    fs::write(d.join("t.out"), [0xC3u8]).unwrap();
    Txtpp::run(cfg(&d, Mode::Build)).expect("build must repair a truncated temp file");
    assert_eq!(fs::read_to_string(d.join("t.out")).unwrap(), "é");
    fs::write(d.join("a.txt"), [0xC3u8]).unwrap();
    Txtpp::run(cfg(&d, Mode::InMemoryBuild)).expect("--needed must repair a truncated output");
    assert_eq!(fs::read_to_string(d.join("a.txt")).unwrap(), "x\n");
}

#[test]
fn f3_zero_threads() {
    let d = scratch("f3");
    fs::write(d.join("a.txt.txtpp"), "x\n").unwrap();
    let mut c = cfg(&d, Mode::Build);
    c.num_threads = 0;
    let r = std::panic::catch_unwind(|| Txtpp::run(c));
    assert!(r.is_ok(), "must not panic");
    assert!(r.unwrap().is_err(), "zero threads is a reported error");
}

// F4 (C11/C10, rule R11.7): remove_txtpp re-attaches the original extension with set_extension(), which REPLACES the last
// dotted component of a stem that still contains a dot: `a.b.txtpp.c` -> `a.c` instead of `a.b.c` (an unrelated file `a.c`
// beside the source is overwritten).
#[test]
fn f4_dotted_stem_output_name() {
    let d = scratch("f4");
    fs::write(d.join("a.b.txtpp.c"), "hello\n").unwrap();
    fs::write(d.join("a.c"), "UNRELATED\n").unwrap();
    Txtpp::run(cfg(&d, Mode::Build)).expect("build must succeed");
    assert_eq!(fs::read_to_string(d.join("a.c")).unwrap(), "UNRELATED\n", "an unrelated file was overwritten");
    assert_eq!(fs::read_to_string(d.join("a.b.c")).unwrap(), "hello\n", "output must be named a.b.c");
}
